package main

// C18 — the IDL audit flags every breaking change and nothing else.
//
// Suite "c18": random well-formed program (often with included files whose names collide with the
// main file's; see audit_inc.go for the include edits and the command-line suite "c18cli"), k ∈ 0..3 random a18Edits from the documented
// catalogue (compatible and breaking, at random applicable sites, one a18Edit per declaration),
// both programs rendered to IDL text, audited by the REAL parser.Auditor with a recording
// logger, and sent (as re-parsed by the real parser) to the Lean model.
// Oracle (the property, independent of the model): the harness knows which a18Edits it a18Applied:
//   no breaking a18Edit  ⇒ the audit must pass,    ≥ 1 breaking a18Edit ⇒ the audit must fail.
//
// Driver line:  aud - OLD NEW EXPECT      (EXPECT: pass | fail | any; ignored by the model)
// Output:       pass|fail <sorted finding kinds> spec=0|1

import (
	"fmt"
	"os"
	"path/filepath"
	"runtime/debug"
	"strconv"
	"strings"

	"github.com/Workiva/frugal/compiler/parser"
)

// ---------- the real auditor ----------

type a18RecLogger struct {
	kinds  []string
	errors []string
	nerr   int
}

func a18Classify(msg string, warn bool) string {
	p := "E:"
	if warn {
		p = "W:"
	}
	has := func(s string) bool { return strings.Contains(msg, s) }
	switch {
	case has("missing scope:"):
		return p + "scopeMissing"
	case has("prefix changed:"):
		return p + "prefix"
	case has("operation removed:"):
		return p + "opRemoved"
	case has("types not equal:"):
		return p + "type"
	case has(" variant ") && has("removed with ID="):
		return p + "enumValue"
	case has("missing struct:"):
		return p + "structMissing"
	case has("extends changed:"):
		return p + "extends"
	case has("missing service:"):
		return p + "serviceMissing"
	case has("missing method:"):
		return p + "methodMissing"
	case has("one way modifier changed"):
		return p + "oneway"
	case has("can't add exceptions"):
		return p + "excAdd"
	case has("can't remove exceptions"):
		return p + "excRemove"
	case has("field presence modifier changed"):
		return p + "modifier"
	case has("field removed with ID="):
		return p + "fieldRemoved"
	case has("added field is required"):
		return p + "addedRequired"
	case has("namespace changed:"):
		return p + "nsChanged"
	case has("namespace removed:"):
		return p + "nsRemoved"
	case has("constant value changed:"):
		return p + "constChanged"
	case has("constant value removed:"):
		return p + "constRemoved"
	case has("enum removed:"):
		return p + "enumRemoved"
	case has("enum variant name changed:"):
		return p + "enumName"
	case has("default value changed"):
		return p + "default"
	case has("added field in the middle"):
		return p + "middle"
	case has("name changed"):
		return p + "name"
	}
	return p + "unknown"
}

func (l *a18RecLogger) LogWarning(pieces ...string) {
	l.kinds = append(l.kinds, a18Classify(strings.Join(pieces, " "), true))
}
func (l *a18RecLogger) LogError(pieces ...string) {
	l.nerr++
	m := strings.Join(pieces, " ")
	l.errors = append(l.errors, m)
	l.kinds = append(l.kinds, a18Classify(m, false))
}
func (l *a18RecLogger) ErrorsLogged() bool { return l.nerr > 0 }

type a18AuditOut struct {
	parseErr string
	failed   bool
	kinds    []string
	errors   []string
	oldP     *a18GProg // as parsed by the real parser
	newP     *a18GProg
}

// a18Files: the files of a program: main.frugal and one file per include.
func a18Files(p *a18GProg) map[string]string {
	m := map[string]string{"main.frugal": p.idl()}
	for _, in := range p.includes {
		m[in.name+".frugal"] = in.prog.idl()
	}
	return m
}

func a18WriteFiles(dir string, files map[string]string) error {
	if err := os.MkdirAll(dir, 0o755); err != nil {
		return err
	}
	for name, text := range files {
		if err := os.WriteFile(filepath.Join(dir, name), []byte(text), 0o644); err != nil {
			return err
		}
	}
	return nil
}

// a18RealAudit writes both programs (with their included files, each program in its own
// directory) to a scratch directory, runs the real auditor and re-parses both main files to
// obtain the ASTs the auditor saw.
func a18RealAudit(oldP, newP *a18GProg) (res a18AuditOut) {
	dir, err := os.MkdirTemp("", "verif-c18-")
	if err != nil {
		res.parseErr = "mkdtemp: " + err.Error()
		return
	}
	defer os.RemoveAll(dir)
	if err := a18WriteFiles(filepath.Join(dir, "old"), a18Files(oldP)); err != nil {
		res.parseErr = err.Error()
		return
	}
	if err := a18WriteFiles(filepath.Join(dir, "new"), a18Files(newP)); err != nil {
		res.parseErr = err.Error()
		return
	}
	op, np := filepath.Join(dir, "old", "main.frugal"), filepath.Join(dir, "new", "main.frugal")
	of, err := parser.ParseFrugal(op)
	if err != nil {
		res.parseErr = "old: " + err.Error()
		return
	}
	nf, err := parser.ParseFrugal(np)
	if err != nil {
		res.parseErr = "new: " + err.Error()
		return
	}
	res.oldP, res.newP = a18ProgOfReal(of), a18ProgOfReal(nf)
	lg := &a18RecLogger{}
	var aerr error
	if o := guard(10e9, func() { aerr = parser.NewAuditorWithLogger(lg).Audit(op, np) }); o != "" {
		res.parseErr = "audit " + o
		return
	}
	res.failed = aerr != nil
	if res.failed != lg.ErrorsLogged() {
		res.parseErr = "audit error without logged error: " + fmt.Sprint(aerr)
		return
	}
	res.kinds, res.errors = lg.kinds, lg.errors
	return
}

func (a a18AuditOut) canonical() string {
	if a.parseErr != "" {
		return "parse-error"
	}
	v, s := "pass", "0"
	if a.failed {
		v, s = "fail", "1"
	}
	return v + " " + a18SortedKinds(a.kinds) + " spec=" + s
}

// ---------- generator ----------

type a18Gen struct {
	r       *Rng
	p       *a18GProg
	counter int
	reuse   bool      // while the old program is generated: repeat earlier type spellings now and then,
	seen    []*a18GTy // so that the same type occurs at several places (constant, field, argument, return …)
}

func (g *a18Gen) fresh(prefix string) string {
	g.counter++
	return prefix + strconv.Itoa(g.counter)
}

var a18FieldWords = []string{"alpha", "gamma", "total", "count", "name", "kind", "flag", "payload", "when", "user", "amount", "tag", "zone", "page", "extra"}
var a18LitWords = []string{"foo", "bar", "v1", "events", "qux", "a-b", "x_y", "prod", "eu"}
var a18VarWords = []string{"user", "tenant", "region", "env", "shard", "id2"}

func (g *a18Gen) fieldName(used map[string]bool) string {
	for i := 0; ; i++ {
		n := a18FieldWords[g.r.Intn(len(a18FieldWords))]
		if i > 3 {
			n += strconv.Itoa(g.r.Intn(1000))
		}
		if !used[n] {
			used[n] = true
			return n
		}
	}
}

// namedPool: names usable as a field type.
func (g *a18Gen) namedPool(p *a18GProg, upToTypedef int, excs bool) []string {
	var out []string
	for _, s := range p.structs {
		if s.kind != 'x' || excs {
			out = append(out, s.name)
		}
	}
	for _, e := range p.enums {
		out = append(out, e.name)
	}
	for i, t := range p.typedefs {
		if upToTypedef < 0 || i < upToTypedef {
			out = append(out, t.name)
		}
	}
	out = append(out, a18QualifiedPool(p)...)
	return out
}

// a18QualifiedPool: `inc.Name` for every struct and enum of an include and for every included
// typedef whose body mentions no name. (An included typedef with a name in its body — a second
// typedef hop or a struct of the include — is the recorded finding `include-typedef-second-hop`:
// such typedefs exist in the generated includes but the main file never refers to them.)
func a18QualifiedPool(p *a18GProg) []string {
	var out []string
	for _, in := range p.includes {
		for _, st := range in.prog.structs {
			out = append(out, in.name+"."+st.name)
		}
		for _, en := range in.prog.enums {
			out = append(out, in.name+"."+en.name)
		}
		for _, td := range in.prog.typedefs {
			if td.ty.nameFree() {
				out = append(out, in.name+"."+td.name)
			}
		}
	}
	return out
}

func (g *a18Gen) nameFreeTy(depth int) *a18GTy {
	r := g.r
	c := r.Intn(100)
	switch {
	case depth >= 3 || c < 55:
		return &a18GTy{kind: a18TyBase, name: a18BaseNames[r.Intn(len(a18BaseNames))]}
	case c < 75:
		return &a18GTy{kind: a18TyList, name: "list", v: g.nameFreeTy(depth + 1)}
	case c < 85:
		return &a18GTy{kind: a18TySet, name: "set", v: g.nameFreeTy(depth + 1)}
	}
	return &a18GTy{kind: a18TyMap, name: "map", k: g.nameFreeTy(depth + 1), v: g.nameFreeTy(depth + 1)}
}

// include: an included file whose declaration names COLLIDE with names of the main file
// (`collide`: typedef, struct, enum and service names of the main file) about half of the time.
func (g *a18Gen) include(name string, collide []string) *a18GInc {
	r := g.r
	ip := &a18GProg{}
	used := map[string]bool{}
	pick := func(prefix string) string {
		for try := 0; try < 6; try++ {
			if len(collide) > 0 && r.Chance(55) {
				if n := collide[r.Intn(len(collide))]; !used[n] {
					used[n] = true
					return n
				}
			}
		}
		n := g.fresh(prefix)
		used[n] = true
		return n
	}
	for i, n := 0, 1+r.Intn(2); i < n; i++ {
		st := &a18GStruct{kind: 's', name: pick("St")}
		for j, k := 0, r.Intn(3); j < k; j++ {
			st.fields = append(st.fields, &a18GField{id: j + 1, mod: 'd', name: "f" + strconv.Itoa(j), ty: g.nameFreeTy(1), dflt: "-"})
		}
		ip.structs = append(ip.structs, st)
	}
	if r.Chance(50) {
		ip.enums = append(ip.enums, &a18GEnum{name: pick("En"), vals: []a18GEV{{g.fresh("VAL"), 0}, {g.fresh("VAL"), 1}}})
	}
	for i, n := 0, 1+r.Intn(3); i < n; i++ {
		ip.typedefs = append(ip.typedefs, &a18GTypedef{pick("Td"), g.nameFreeTy(0)})
	}
	// typedefs with names in their bodies (never referred to from the main file)
	for i, n := 0, r.Intn(3); i < n; i++ {
		var body *a18GTy
		switch r.Intn(3) {
		case 0:
			body = &a18GTy{kind: a18TyNamed, name: ip.typedefs[r.Intn(len(ip.typedefs))].name}
		case 1:
			body = &a18GTy{kind: a18TyNamed, name: ip.structs[0].name}
		default:
			body = &a18GTy{kind: a18TyList, name: "list", v: &a18GTy{kind: a18TyNamed, name: ip.typedefs[0].name}}
		}
		ip.typedefs = append(ip.typedefs, &a18GTypedef{pick("Td"), body})
	}
	if r.Chance(50) {
		ip.services = append(ip.services, &a18GService{name: pick("Sv")})
	}
	return &a18GInc{name, ip}
}

func (g *a18Gen) ty(p *a18GProg, depth int, upToTypedef int) *a18GTy {
	if g.reuse && upToTypedef < 0 && len(g.seen) > 0 && g.r.Chance(22) {
		return g.seen[g.r.Intn(len(g.seen))].clone()
	}
	t := g.ty1(p, depth, upToTypedef)
	if g.reuse && upToTypedef < 0 {
		g.seen = append(g.seen, t)
	}
	return t
}

func (g *a18Gen) ty1(p *a18GProg, depth int, upToTypedef int) *a18GTy {
	r := g.r
	c := r.Intn(100)
	pool := g.namedPool(p, upToTypedef, r.Chance(10))
	switch {
	case depth >= 5 || c < 34:
		return &a18GTy{kind: a18TyBase, name: a18BaseNames[r.Intn(len(a18BaseNames))]}
	case c < 58 && len(pool) > 0:
		return &a18GTy{kind: a18TyNamed, name: pool[r.Intn(len(pool))]}
	case c < 74:
		return &a18GTy{kind: a18TyList, name: "list", v: g.ty(p, depth+1, upToTypedef)}
	case c < 85:
		return &a18GTy{kind: a18TySet, name: "set", v: g.ty(p, depth+1, upToTypedef)}
	case c < 100:
		return &a18GTy{kind: a18TyMap, name: "map", k: g.ty(p, depth+1, upToTypedef), v: g.ty(p, depth+1, upToTypedef)}
	}
	return &a18GTy{kind: a18TyBase, name: "i32"}
}

func (g *a18Gen) fields(p *a18GProg, n int, mods string, lowIDs bool) []*a18GField {
	used := map[string]bool{}
	ids := map[int]bool{}
	var out []*a18GField
	for i := 0; i < n; i++ {
		id := 1 + g.r.Intn(14)
		if lowIDs {
			id -= 4
		}
		for ids[id] {
			id++
		}
		ids[id] = true
		f := &a18GField{id: id, mod: mods[g.r.Intn(len(mods))], name: g.fieldName(used), ty: g.ty(p, 0, -1), dflt: "-"}
		if f.ty.kind == a18TyBase && (f.ty.name == "i32" || f.ty.name == "i64") && f.mod != 'r' && g.r.Chance(25) {
			f.dflt = strconv.Itoa(g.r.Intn(50))
		}
		out = append(out, f)
	}
	return out
}

func (g *a18Gen) excFields(p *a18GProg, n int) []*a18GField {
	var xs []string
	for _, s := range p.structs {
		if s.kind == 'x' {
			xs = append(xs, s.name)
		}
	}
	if len(xs) == 0 {
		return nil
	}
	used := map[string]bool{}
	var out []*a18GField
	for i := 0; i < n; i++ {
		out = append(out, &a18GField{id: i + 1 + g.r.Intn(2)*i, mod: 'o', name: g.fieldName(used), ty: &a18GTy{kind: a18TyNamed, name: xs[g.r.Intn(len(xs))]}, dflt: "-"})
	}
	// ids distinct
	seen := map[int]bool{}
	for _, f := range out {
		for seen[f.id] {
			f.id++
		}
		seen[f.id] = true
	}
	return out
}

func (g *a18Gen) method(p *a18GProg, name string) *a18GMethod {
	r := g.r
	m := &a18GMethod{name: name}
	if r.Chance(15) {
		m.oneway = true
	} else {
		if !r.Chance(40) {
			m.ret = g.ty(p, 0, -1)
		}
		if r.Chance(45) {
			m.excs = g.excFields(p, 1+r.Intn(2))
		}
	}
	m.args = g.fields(p, r.Intn(4), "dddro", false)
	return m
}

func (g *a18Gen) prefix() []a18GPTok {
	var out []a18GPTok
	used := map[string]bool{}
	for i, n := 0, g.r.Intn(5); i < n; i++ {
		if g.r.Chance(40) {
			v := a18VarWords[g.r.Intn(len(a18VarWords))]
			if used[v] {
				continue
			}
			used[v] = true
			out = append(out, a18GPTok{true, v})
		} else {
			out = append(out, a18GPTok{false, a18LitWords[g.r.Intn(len(a18LitWords))]})
		}
	}
	return out
}

func a18GenProg(r *Rng) *a18GProg {
	g := &a18Gen{r: r, p: &a18GProg{}, reuse: true}
	p := g.p
	for i, n := 0, r.Intn(4); i < n; i++ {
		e := &a18GEnum{name: g.fresh("En")}
		num := r.Intn(3)
		for j, k := 0, 1+r.Intn(4); j < k; j++ {
			e.vals = append(e.vals, a18GEV{g.fresh("VAL"), num})
			num += 1 + r.Intn(3)
		}
		p.enums = append(p.enums, e)
	}
	// declare struct-like names first so that field types may refer to any of them
	for i, n := 0, 1+r.Intn(4); i < n; i++ {
		p.structs = append(p.structs, &a18GStruct{kind: 's', name: g.fresh("St")})
	}
	for i, n := 0, r.Intn(3); i < n; i++ {
		p.structs = append(p.structs, &a18GStruct{kind: 'u', name: g.fresh("Un")})
	}
	for i, n := 0, r.Intn(3); i < n; i++ {
		p.structs = append(p.structs, &a18GStruct{kind: 'x', name: g.fresh("Ex")})
	}
	// names of the main file's typedefs and services are fixed before the includes are made,
	// so that the includes can re-use them
	var tdNames, svNames []string
	for i, n := 0, r.Intn(5); i < n; i++ {
		tdNames = append(tdNames, g.fresh("Td"))
	}
	for i, n := 0, r.Intn(4); i < n; i++ {
		svNames = append(svNames, g.fresh("Sv"))
	}
	if r.Chance(45) {
		collide := append([]string{}, tdNames...)
		collide = append(collide, svNames...)
		for _, st := range p.structs {
			collide = append(collide, st.name)
		}
		for _, en := range p.enums {
			collide = append(collide, en.name)
		}
		for i, n := 0, 1+r.Intn(2); i < n; i++ {
			p.includes = append(p.includes, g.include([]string{"inca", "incb"}[i], collide))
		}
	}
	for i, name := range tdNames {
		p.typedefs = append(p.typedefs, &a18GTypedef{name, g.ty(p, 0, i)})
	}
	// a local alias with the very name of the included typedef it stands for: `typedef inca.X X`
	for _, in := range p.includes {
		for _, td := range in.prog.typedefs {
			if !td.ty.nameFree() || !r.Chance(35) {
				continue
			}
			taken := false
			for _, n := range append(append([]string{}, tdNames...), svNames...) {
				taken = taken || n == td.name
			}
			for _, st := range p.structs {
				taken = taken || st.name == td.name
			}
			for _, en := range p.enums {
				taken = taken || en.name == td.name
			}
			for _, t := range p.typedefs {
				taken = taken || t.name == td.name
			}
			if !taken {
				p.typedefs = append(p.typedefs, &a18GTypedef{td.name, &a18GTy{kind: a18TyNamed, name: in.name + "." + td.name}})
			}
		}
	}
	for _, s := range p.structs {
		mods := "ddroo"
		s.fields = g.fields(p, r.Intn(6), mods, r.Chance(10))
	}
	for i, name := range svNames {
		s := &a18GService{name: name}
		if i > 0 && r.Chance(40) {
			s.ext = p.services[r.Intn(i)].name
		} else if q := a18QualifiedServices(p); len(q) > 0 && r.Chance(30) {
			s.ext = q[r.Intn(len(q))]
		}
		for j, k := 0, r.Intn(5); j < k; j++ {
			s.methods = append(s.methods, g.method(p, g.fresh("me")))
		}
		p.services = append(p.services, s)
	}
	for i, n := 0, r.Intn(3); i < n; i++ {
		s := &a18GScope{name: g.fresh("Sc"), prefix: g.prefix()}
		for j, k := 0, r.Intn(4); j < k; j++ {
			s.ops = append(s.ops, &a18GOp{g.fresh("Op"), g.ty(p, 0, -1)})
		}
		p.scopes = append(p.scopes, s)
	}
	langs := []string{"go", "java", "py", "dart"}
	for i, n := 0, r.Intn(3); i < n; i++ {
		p.nss = append(p.nss, &a18GNS{langs[i], "pkg" + strconv.Itoa(r.Intn(5))})
	}
	// constants of any type (the parser does not check a value against its type), often of a type
	// that is also used by a field, argument or return type
	for i, n := 0, r.Intn(4); i < n; i++ {
		t := g.ty(p, 0, -1)
		p.consts = append(p.consts, &a18GConst{g.fresh("CK"), t, a18ConstValueFor(r, t)})
	}
	return p
}

// a18ConstValueFor: a value token that renders to a literal the grammar accepts for the type.
func a18ConstValueFor(r *Rng, t *a18GTy) string {
	switch t.kind {
	case a18TyList, a18TySet:
		return "[]"
	case a18TyMap:
		return "{}"
	case a18TyBase:
		if t.name == "string" || t.name == "binary" {
			return a18StrTok(a18LitWords[r.Intn(len(a18LitWords))])
		}
	}
	return strconv.Itoa(r.Intn(100))
}

func a18QualifiedServices(p *a18GProg) []string {
	var out []string
	for _, in := range p.includes {
		for _, sv := range in.prog.services {
			out = append(out, in.name+"."+sv.name)
		}
	}
	return out
}

// ---------- a18Edits ----------

type a18Applied struct {
	kind     string
	breaking bool
	site     string
	depth    int
}

type a18Editor struct {
	g       *a18Gen
	r       *Rng
	old     *a18GProg
	nw      *a18GProg
	touched map[string]bool
	log     []a18Applied
	tdEdits int
}

func (e *a18Editor) rec(kind string, breaking bool, site string, depth int, decls ...string) bool {
	for _, d := range decls {
		e.touched[d] = true
	}
	e.log = append(e.log, a18Applied{kind, breaking, site, depth})
	return true
}

// untouched struct-likes / services / methods / scopes / enums of the new program (all of
// them also exist, identical, in the old program)
func (e *a18Editor) pickStruct(ok func(*a18GStruct) bool) *a18GStruct {
	var c []*a18GStruct
	for _, s := range e.nw.structs {
		if !e.touched["struct:"+s.name] && e.inOld("struct:"+s.name) && (ok == nil || ok(s)) {
			c = append(c, s)
		}
	}
	if len(c) == 0 {
		return nil
	}
	return c[e.r.Intn(len(c))]
}

func (e *a18Editor) inOld(key string) bool {
	i := strings.IndexByte(key, ':')
	kind, name := key[:i], key[i+1:]
	switch kind {
	case "struct":
		for _, s := range e.old.structs {
			if s.name == name {
				return true
			}
		}
	case "enum":
		for _, s := range e.old.enums {
			if s.name == name {
				return true
			}
		}
	case "svc":
		for _, s := range e.old.services {
			if s.name == name {
				return true
			}
		}
	case "scope":
		for _, s := range e.old.scopes {
			if s.name == name {
				return true
			}
		}
	case "typedef":
		return e.old.typedef(name) != nil
	case "method":
		j := strings.IndexByte(name, '.')
		for _, s := range e.old.services {
			if s.name == name[:j] {
				for _, m := range s.methods {
					if m.name == name[j+1:] {
						return true
					}
				}
			}
		}
	case "const":
		for _, c := range e.old.consts {
			if c.name == name {
				return true
			}
		}
	}
	return false
}

type a18MethodSite struct {
	s *a18GService
	m *a18GMethod
}

func (e *a18Editor) pickMethod(ok func(*a18GMethod) bool) *a18MethodSite {
	var c []a18MethodSite
	for _, s := range e.nw.services {
		if e.touched["svc:"+s.name] || !e.inOld("svc:"+s.name) {
			continue
		}
		for _, m := range s.methods {
			k := "method:" + s.name + "." + m.name
			if !e.touched[k] && e.inOld(k) && (ok == nil || ok(m)) {
				c = append(c, a18MethodSite{s, m})
			}
		}
	}
	if len(c) == 0 {
		return nil
	}
	return &c[e.r.Intn(len(c))]
}

func (e *a18Editor) pickService(ok func(*a18GService) bool) *a18GService {
	var c []*a18GService
	for _, s := range e.nw.services {
		if e.touched["svc:"+s.name] || !e.inOld("svc:"+s.name) || (ok != nil && !ok(s)) {
			continue
		}
		c = append(c, s)
	}
	if len(c) == 0 {
		return nil
	}
	return c[e.r.Intn(len(c))]
}

func (e *a18Editor) serviceFullyUntouched(s *a18GService) bool {
	for _, m := range s.methods {
		if e.touched["method:"+s.name+"."+m.name] {
			return false
		}
	}
	return true
}

func (e *a18Editor) pickScope(ok func(*a18GScope) bool) *a18GScope {
	var c []*a18GScope
	for _, s := range e.nw.scopes {
		if !e.touched["scope:"+s.name] && e.inOld("scope:"+s.name) && (ok == nil || ok(s)) {
			c = append(c, s)
		}
	}
	if len(c) == 0 {
		return nil
	}
	return c[e.r.Intn(len(c))]
}

func (e *a18Editor) pickEnum(ok func(*a18GEnum) bool) *a18GEnum {
	var c []*a18GEnum
	for _, s := range e.nw.enums {
		if !e.touched["enum:"+s.name] && e.inOld("enum:"+s.name) && (ok == nil || ok(s)) {
			c = append(c, s)
		}
	}
	if len(c) == 0 {
		return nil
	}
	return c[e.r.Intn(len(c))]
}

// a field list that the auditor checks with checkFields, with its declaration key
type a18FieldSite struct {
	decl   string
	what   string // struct | union | exception | args | throws
	fields *[]*a18GField
}

func (e *a18Editor) pickFieldList(whats string, ok func(a18FieldSite) bool) *a18FieldSite {
	var c []a18FieldSite
	for _, s := range e.nw.structs {
		k := "struct:" + s.name
		w := map[byte]string{'s': "struct", 'u': "union", 'x': "exception"}[s.kind]
		if !e.touched[k] && e.inOld(k) && strings.Contains(whats, w) {
			c = append(c, a18FieldSite{k, w, &s.fields})
		}
	}
	for _, s := range e.nw.services {
		if e.touched["svc:"+s.name] || !e.inOld("svc:"+s.name) {
			continue
		}
		for _, m := range s.methods {
			k := "method:" + s.name + "." + m.name
			if e.touched[k] || !e.inOld(k) {
				continue
			}
			if strings.Contains(whats, "args") {
				c = append(c, a18FieldSite{k, "args", &m.args})
			}
			if strings.Contains(whats, "throws") {
				c = append(c, a18FieldSite{k, "throws", &m.excs})
			}
		}
	}
	var d []a18FieldSite
	for _, s := range c {
		if ok == nil || ok(s) {
			d = append(d, s)
		}
	}
	if len(d) == 0 {
		return nil
	}
	return &d[e.r.Intn(len(d))]
}

func a18FreshID(fs []*a18GField, r *Rng, middle bool) int {
	used := map[int]bool{}
	lo, hi := 1<<30, -(1 << 30)
	for _, f := range fs {
		used[f.id] = true
		if f.id < lo {
			lo = f.id
		}
		if f.id > hi {
			hi = f.id
		}
	}
	if middle && len(fs) >= 2 {
		for id := lo + 1; id < hi; id++ {
			if !used[id] {
				return id
			}
		}
	}
	if len(fs) == 0 {
		return 1 + r.Intn(3)
	}
	return hi + 1 + r.Intn(3)
}

func a18FieldNames(fs []*a18GField) map[string]bool {
	m := map[string]bool{}
	for _, f := range fs {
		m[f.name] = true
	}
	return m
}

// type a18Positions inside a type tree
type a18TyPos struct {
	at    **a18GTy
	depth int
}

func a18Positions(at **a18GTy, depth int, out *[]a18TyPos) {
	*out = append(*out, a18TyPos{at, depth})
	t := *at
	switch t.kind {
	case a18TyList, a18TySet:
		a18Positions(&t.v, depth+1, out)
	case a18TyMap:
		a18Positions(&t.k, depth+1, out)
		a18Positions(&t.v, depth+1, out)
	}
}

func (e *a18Editor) declTouched(k string) bool {
	if strings.HasPrefix(k, "method:") {
		svc := k[len("method:"):strings.IndexByte(k, '.')]
		if e.touched["svc:"+svc] || !e.inOld("svc:"+svc) {
			return true
		}
	}
	return e.touched[k] || !e.inOld(k)
}

func (e *a18Editor) checkedSlots() []a18Slot {
	var out []a18Slot
	for _, s := range e.nw.slots(false) {
		if !e.declTouched(s.decl) {
			out = append(out, s)
		}
	}
	return out
}

// retype: replace the subtree at a random position of a checked a18Slot by a type that resolves differently
func (e *a18Editor) retype() bool {
	ss := e.checkedSlots()
	if len(ss) == 0 {
		return false
	}
	s := ss[e.r.Intn(len(ss))]
	before := e.nw.canon(*s.ty)
	var ps []a18TyPos
	a18Positions(s.ty, 0, &ps)
	// prefer deep a18Positions a little
	pos := ps[e.r.Intn(len(ps))]
	if e.r.Bool() {
		pos = ps[len(ps)-1-e.r.Intn((len(ps)+1)/2)]
	}
	saved := *pos.at
	for try := 0; try < 12; try++ {
		*pos.at = e.g.ty(e.nw, 3, -1)
		if try > 6 {
			*pos.at = &a18GTy{kind: a18TyBase, name: a18BaseNames[e.r.Intn(len(a18BaseNames))]}
		}
		if e.nw.canon(*s.ty) != before {
			return e.rec("retype-"+s.what, true, s.decl, pos.depth, s.decl)
		}
	}
	*pos.at = saved
	return false
}

// aliasSwap: replace a subtree by an equivalent spelling (typedef name for its expansion or back)
func (e *a18Editor) aliasSwap() bool {
	ss := e.checkedSlots()
	if len(ss) == 0 {
		return false
	}
	for try := 0; try < 8; try++ {
		s := ss[e.r.Intn(len(ss))]
		before := e.nw.canon(*s.ty)
		var ps []a18TyPos
		a18Positions(s.ty, 0, &ps)
		pos := ps[e.r.Intn(len(ps))]
		saved := *pos.at
		sub := e.nw.canon(saved)
		var cands []*a18GTy
		for _, td := range e.nw.typedefs {
			if e.nw.canon(td.ty) == sub && !(saved.kind == a18TyNamed && saved.name == td.name) {
				cands = append(cands, &a18GTy{kind: a18TyNamed, name: td.name})
			}
		}
		for _, in := range e.nw.includes {
			for _, td := range in.prog.typedefs {
				q := in.name + "." + td.name
				if td.ty.nameFree() && e.nw.canonD(in.name, td.ty, 0) == sub && !(saved.kind == a18TyNamed && saved.name == q) {
					cands = append(cands, &a18GTy{kind: a18TyNamed, name: q})
				}
			}
		}
		if saved.kind == a18TyNamed {
			if inc, base := a18SplitQual(saved.name); inc == "" {
				if td := e.nw.typedef(saved.name); td != nil {
					cands = append(cands, td.ty.clone())
				}
			} else if in := e.nw.include(inc); in != nil {
				if td := in.prog.typedef(base); td != nil && td.ty.nameFree() {
					cands = append(cands, td.ty.clone())
				}
			}
		}
		if len(cands) == 0 {
			continue
		}
		*pos.at = cands[e.r.Intn(len(cands))]
		if e.nw.canon(*s.ty) == before {
			return e.rec("alias-swap-"+s.what, false, s.decl, pos.depth, s.decl)
		}
		*pos.at = saved
	}
	return false
}

// typedefBody: change the body of a typedef. Breaking iff some untouched checked a18Slot reaches it.
func (e *a18Editor) typedefBody() bool {
	if e.tdEdits > 0 || len(e.nw.typedefs) == 0 {
		return false
	}
	idx := e.r.Intn(len(e.nw.typedefs))
	td := e.nw.typedefs[idx]
	if e.touched["typedef:"+td.name] || !e.inOld("typedef:"+td.name) {
		return false
	}
	var users []a18Slot
	anyUser := false
	for _, s := range e.nw.slots(false) {
		if e.nw.reaches(*s.ty, td.name, 0) {
			anyUser = true
			if !e.declTouched(s.decl) {
				users = append(users, s)
			}
		}
	}
	if anyUser && len(users) == 0 {
		return false // ambiguous: only edited declarations use it
	}
	before := e.nw.canon(td.ty)
	saved := td.ty
	for try := 0; try < 12; try++ {
		// new body: only earlier typedefs may be mentioned (keeps the typedef graph acyclic)
		td.ty = e.g.ty(e.nw, 2, idx)
		if try > 6 {
			td.ty = &a18GTy{kind: a18TyBase, name: a18BaseNames[e.r.Intn(len(a18BaseNames))]}
		}
		if e.nw.canon(td.ty) != before {
			e.tdEdits++
			decls := []string{"typedef:" + td.name}
			// every typedef on a path to it and every declaration with a a18Slot reaching it is now "edited"
			for _, o := range e.nw.typedefs {
				if e.nw.reaches(o.ty, td.name, 0) {
					decls = append(decls, "typedef:"+o.name)
				}
			}
			depth := 0
			for _, s := range users {
				decls = append(decls, s.decl)
				if d := (*s.ty).depth(); d > depth {
					depth = d
				}
			}
			if anyUser {
				return e.rec("typedef-body-used", true, "typedef:"+td.name, depth, decls...)
			}
			return e.rec("typedef-body-unused", false, "typedef:"+td.name, 0, decls...)
		}
	}
	td.ty = saved
	return false
}

func (e *a18Editor) referenced(name string) (decls []string) {
	for _, s := range e.nw.slots(true) {
		if (*s.ty).mentions(name) {
			decls = append(decls, s.decl)
		}
	}
	return
}

type a18Edit struct {
	name string
	f    func(e *a18Editor) bool
}

var a18Edits []a18Edit

func init() {
	add := func(name string, f func(e *a18Editor) bool) { a18Edits = append(a18Edits, a18Edit{name, f}) }

	// ----- breaking -----
	add("retype", func(e *a18Editor) bool { return e.retype() })
	add("retype", func(e *a18Editor) bool { return e.retype() })
	add("retype", func(e *a18Editor) bool { return e.retype() })
	add("typedef-body", func(e *a18Editor) bool { return e.typedefBody() })
	add("typedef-body", func(e *a18Editor) bool { return e.typedefBody() })
	add("struct-remove", func(e *a18Editor) bool {
		s := e.pickStruct(nil)
		if s == nil {
			return false
		}
		refs := e.referenced(s.name)
		kind := map[byte]string{'s': "struct", 'u': "union", 'x': "exception"}[s.kind]
		if len(refs) == 0 {
			for i, x := range e.nw.structs {
				if x == s {
					e.nw.structs = append(e.nw.structs[:i:i], e.nw.structs[i+1:]...)
				}
			}
			return e.rec(kind+"-remove", true, "struct:"+s.name, 0, "struct:"+s.name)
		}
		// referenced: rename it everywhere in the new program (old name disappears)
		for _, d := range refs {
			if e.declTouched(d) && !strings.HasPrefix(d, "typedef:") && !strings.HasPrefix(d, "const:") {
				return false
			}
		}
		to := e.g.fresh("Rn")
		for _, sl := range e.nw.slots(true) {
			(*sl.ty).rename(s.name, to)
		}
		old := s.name
		s.name = to
		e.tdEdits++ // typedef bodies may have changed spelling: no further typedef a18Edits
		return e.rec(kind+"-rename", true, "struct:"+old, 0, append(refs, "struct:"+old, "struct:"+to)...)
	})
	add("field-required-flip", func(e *a18Editor) bool {
		fs := e.pickFieldList("struct exception args", func(s a18FieldSite) bool { return len(*s.fields) > 0 })
		if fs == nil {
			return false
		}
		f := (*fs.fields)[e.r.Intn(len(*fs.fields))]
		if f.mod == 'r' {
			f.mod = "do"[e.r.Intn(2)]
		} else {
			f.mod = 'r'
		}
		return e.rec("required-flip-"+fs.what, true, fs.decl, 0, fs.decl)
	})
	add("field-remove", func(e *a18Editor) bool {
		fs := e.pickFieldList("struct union exception args throws", func(s a18FieldSite) bool { return len(*s.fields) > 0 })
		if fs == nil {
			return false
		}
		i := e.r.Intn(len(*fs.fields))
		f := (*fs.fields)[i]
		if fs.what == "throws" {
			// the void-method rule decides
			var m *a18GMethod
			for _, s := range e.nw.services {
				for _, x := range s.methods {
					if &x.excs == fs.fields {
						m = x
					}
				}
			}
			*fs.fields = append((*fs.fields)[:i:i], (*fs.fields)[i+1:]...)
			if m.ret == nil && len(m.excs) == 0 {
				return e.rec("throws-remove-last-void", true, fs.decl, 0, fs.decl)
			}
			return e.rec("throws-remove", false, fs.decl, 0, fs.decl)
		}
		*fs.fields = append((*fs.fields)[:i:i], (*fs.fields)[i+1:]...)
		if f.mod != 'o' && fs.what != "union" {
			return e.rec("remove-nonoptional-"+fs.what, true, fs.decl, 0, fs.decl)
		}
		return e.rec("remove-optional-"+fs.what, false, fs.decl, 0, fs.decl)
	})
	add("field-add", func(e *a18Editor) bool {
		fs := e.pickFieldList("struct union exception args", nil)
		if fs == nil {
			return false
		}
		mod := "rrdo"[e.r.Intn(4)]
		f := &a18GField{id: a18FreshID(*fs.fields, e.r, e.r.Chance(40)), mod: mod, name: e.g.fieldName(a18FieldNames(*fs.fields)), ty: e.g.ty(e.nw, 1, -1), dflt: "-"}
		at := e.r.Intn(len(*fs.fields) + 1)
		*fs.fields = append((*fs.fields)[:at:at], append([]*a18GField{f}, (*fs.fields)[at:]...)...)
		if mod == 'r' && fs.what != "union" {
			return e.rec("add-required-"+fs.what, true, fs.decl, 0, fs.decl)
		}
		return e.rec("add-"+map[byte]string{'r': "required(neutralised)", 'd': "default", 'o': "optional"}[mod]+"-"+fs.what, false, fs.decl, 0, fs.decl)
	})
	add("throws-add", func(e *a18Editor) bool {
		ms := e.pickMethod(func(m *a18GMethod) bool { return !m.oneway })
		if ms == nil {
			return false
		}
		x := e.g.excFields(e.nw, 1)
		if len(x) == 0 {
			return false
		}
		m := ms.m
		wasEmpty := len(m.excs) == 0
		x[0].id = a18FreshID(m.excs, e.r, false)
		x[0].name = e.g.fieldName(a18FieldNames(m.excs))
		m.excs = append(m.excs, x[0])
		k := "method:" + ms.s.name + "." + m.name
		if m.ret == nil && wasEmpty {
			return e.rec("throws-add-first-void", true, k, 0, k)
		}
		return e.rec("throws-add", false, k, 0, k)
	})
	add("enum-value-remove", func(e *a18Editor) bool {
		en := e.pickEnum(func(x *a18GEnum) bool { return len(x.vals) > 0 })
		if en == nil {
			return false
		}
		i := e.r.Intn(len(en.vals))
		en.vals = append(en.vals[:i:i], en.vals[i+1:]...)
		return e.rec("enum-value-remove", true, "enum:"+en.name, 0, "enum:"+en.name)
	})
	add("scope-remove", func(e *a18Editor) bool {
		s := e.pickScope(nil)
		if s == nil {
			return false
		}
		for i, x := range e.nw.scopes {
			if x == s {
				e.nw.scopes = append(e.nw.scopes[:i:i], e.nw.scopes[i+1:]...)
			}
		}
		return e.rec("scope-remove", true, "scope:"+s.name, 0, "scope:"+s.name)
	})
	add("op-remove", func(e *a18Editor) bool {
		s := e.pickScope(func(x *a18GScope) bool { return len(x.ops) > 0 })
		if s == nil {
			return false
		}
		i := e.r.Intn(len(s.ops))
		s.ops = append(s.ops[:i:i], s.ops[i+1:]...)
		return e.rec("op-remove", true, "scope:"+s.name, 0, "scope:"+s.name)
	})
	add("prefix-change", func(e *a18Editor) bool {
		s := e.pickScope(nil)
		if s == nil {
			return false
		}
		n := len(s.prefix)
		lit := a18GPTok{false, a18LitWords[e.r.Intn(len(a18LitWords))]}
		vr := a18GPTok{true, e.g.fresh("vr")}
		kind := ""
		switch c := e.r.Intn(6); {
		case c == 0 || n == 0:
			at := e.r.Intn(n + 1)
			t := lit
			if e.r.Bool() {
				t = vr
			}
			s.prefix = append(s.prefix[:at:at], append([]a18GPTok{t}, s.prefix[at:]...)...)
			kind = "prefix-add-token"
		case c == 1:
			at := e.r.Intn(n)
			s.prefix = append(s.prefix[:at:at], s.prefix[at+1:]...)
			kind = "prefix-remove-token"
		case c == 2:
			at := e.r.Intn(n)
			if s.prefix[at].isVar {
				s.prefix[at] = a18GPTok{false, s.prefix[at].s} // {user} -> user
				kind = "prefix-var-to-literal"
			} else {
				s.prefix[at] = vr
				kind = "prefix-literal-to-var"
			}
		case c == 3 && n >= 2:
			i, j := 0, 0
			for try := 0; try < 8 && (i == j || a18TokSame(s.prefix[i], s.prefix[j])); try++ {
				i, j = e.r.Intn(n), e.r.Intn(n)
			}
			if i == j || a18TokSame(s.prefix[i], s.prefix[j]) {
				return false
			}
			s.prefix[i], s.prefix[j] = s.prefix[j], s.prefix[i]
			kind = "prefix-swap-tokens"
		default:
			var lits []int
			for i, t := range s.prefix {
				if !t.isVar {
					lits = append(lits, i)
				}
			}
			if len(lits) == 0 {
				return false
			}
			at := lits[e.r.Intn(len(lits))]
			s.prefix[at] = a18GPTok{false, s.prefix[at].s + "X"}
			kind = "prefix-literal-changed"
		}
		return e.rec(kind, true, "scope:"+s.name, 0, "scope:"+s.name)
	})
	add("oneway-flip", func(e *a18Editor) bool {
		ms := e.pickMethod(func(m *a18GMethod) bool { return m.ret == nil && len(m.excs) == 0 })
		if ms == nil {
			return false
		}
		ms.m.oneway = !ms.m.oneway
		k := "method:" + ms.s.name + "." + ms.m.name
		return e.rec("oneway-flip", true, k, 0, k)
	})
	add("extends-change", func(e *a18Editor) bool {
		s := e.pickService(func(s *a18GService) bool { return s.ext != "" })
		if s == nil {
			return false
		}
		var c []string
		for _, o := range e.nw.services {
			if o == s {
				break
			}
			if o.name != s.ext {
				c = append(c, o.name)
			}
		}
		for _, q := range a18QualifiedServices(e.nw) {
			if q != s.ext {
				c = append(c, q)
			}
		}
		k := "svc:" + s.name
		if len(c) == 0 || e.r.Chance(40) {
			s.ext = ""
			return e.rec("extends-dropped", true, k, 0, k)
		}
		s.ext = c[e.r.Intn(len(c))]
		return e.rec("extends-changed", true, k, 0, k)
	})
	add("method-remove", func(e *a18Editor) bool {
		ms := e.pickMethod(nil)
		if ms == nil {
			return false
		}
		for i, x := range ms.s.methods {
			if x == ms.m {
				ms.s.methods = append(ms.s.methods[:i:i], ms.s.methods[i+1:]...)
			}
		}
		k := "method:" + ms.s.name + "." + ms.m.name
		return e.rec("method-remove", true, k, 0, k)
	})
	add("service-remove", func(e *a18Editor) bool {
		s := e.pickService(func(s *a18GService) bool {
			for _, o := range e.nw.services {
				if o.ext == s.name {
					return false
				}
			}
			return e.serviceFullyUntouched(s)
		})
		if s == nil {
			return false
		}
		for i, x := range e.nw.services {
			if x == s {
				e.nw.services = append(e.nw.services[:i:i], e.nw.services[i+1:]...)
			}
		}
		return e.rec("service-remove", true, "svc:"+s.name, 0, "svc:"+s.name)
	})

	add("kind-change", func(e *a18Editor) bool {
		// struct <-> exception <-> union under the same name: the old declaration is gone from its kind
		s := e.pickStruct(func(s *a18GStruct) bool {
			if s.kind != 'x' {
				return true
			}
			for _, sl := range e.nw.slots(false) {
				if sl.what == "exc" && (*sl.ty).mentions(s.name) {
					return false
				}
			}
			return true
		})
		if s == nil {
			return false
		}
		from := s.kind
		for s.kind == from {
			s.kind = "sux"[e.r.Intn(3)]
		}
		return e.rec("kind-change-"+string(from)+string(s.kind), true, "struct:"+s.name, 0, "struct:"+s.name)
	})
	add("ret-void-flip", func(e *a18Editor) bool {
		ms := e.pickMethod(func(m *a18GMethod) bool { return !m.oneway })
		if ms == nil {
			return false
		}
		k := "method:" + ms.s.name + "." + ms.m.name
		if ms.m.ret == nil {
			ms.m.ret = e.g.ty(e.nw, 1, -1)
			return e.rec("ret-void-to-type", true, k, 0, k)
		}
		ms.m.ret = nil
		return e.rec("ret-type-to-void", true, k, 0, k)
	})
	add("field-renumber", func(e *a18Editor) bool {
		fs := e.pickFieldList("struct union exception args", func(s a18FieldSite) bool { return len(*s.fields) > 0 })
		if fs == nil {
			return false
		}
		f := (*fs.fields)[e.r.Intn(len(*fs.fields))]
		f.id = a18FreshID(*fs.fields, e.r, e.r.Bool())
		// keyed by id: the old id is removed (an error unless it was optional), the new id is an added field
		if fs.what != "union" && f.mod != 'o' {
			return e.rec("renumber-nonoptional-"+fs.what, true, fs.decl, 0, fs.decl)
		}
		return e.rec("renumber-optional-"+fs.what, false, fs.decl, 0, fs.decl)
	})

	// ----- compatible -----
	add("alias-swap", func(e *a18Editor) bool { return e.aliasSwap() })
	add("alias-swap", func(e *a18Editor) bool { return e.aliasSwap() })
	add("field-rename", func(e *a18Editor) bool {
		fs := e.pickFieldList("struct union exception args throws", func(s a18FieldSite) bool { return len(*s.fields) > 0 })
		if fs == nil {
			return false
		}
		f := (*fs.fields)[e.r.Intn(len(*fs.fields))]
		f.name = e.g.fieldName(a18FieldNames(*fs.fields))
		return e.rec("rename-field-"+fs.what, false, fs.decl, 0, fs.decl)
	})
	add("field-optional-default", func(e *a18Editor) bool {
		fs := e.pickFieldList("struct exception args", func(s a18FieldSite) bool {
			for _, f := range *s.fields {
				if f.mod != 'r' {
					return true
				}
			}
			return false
		})
		if fs == nil {
			return false
		}
		for _, f := range *fs.fields {
			if f.mod != 'r' {
				if f.mod == 'o' {
					f.mod = 'd'
				} else {
					f.mod = 'o'
				}
				break
			}
		}
		return e.rec("optional<->default-"+fs.what, false, fs.decl, 0, fs.decl)
	})
	add("field-default-value", func(e *a18Editor) bool {
		fs := e.pickFieldList("struct exception args", func(s a18FieldSite) bool {
			for _, f := range *s.fields {
				if f.ty.kind == a18TyBase && (f.ty.name == "i32" || f.ty.name == "i64") {
					return true
				}
			}
			return false
		})
		if fs == nil {
			return false
		}
		for _, f := range *fs.fields {
			if f.ty.kind == a18TyBase && (f.ty.name == "i32" || f.ty.name == "i64") {
				if f.dflt != "-" && e.r.Chance(30) {
					f.dflt = "-"
				} else {
					f.dflt = strconv.Itoa(100 + e.r.Intn(50))
				}
				break
			}
		}
		return e.rec("default-value-"+fs.what, false, fs.decl, 0, fs.decl)
	})
	add("field-reorder", func(e *a18Editor) bool {
		fs := e.pickFieldList("struct union exception args throws", func(s a18FieldSite) bool { return len(*s.fields) > 1 })
		if fs == nil {
			return false
		}
		l := *fs.fields
		for i := len(l) - 1; i > 0; i-- {
			j := e.r.Intn(i + 1)
			l[i], l[j] = l[j], l[i]
		}
		return e.rec("reorder-fields-"+fs.what, false, fs.decl, 0, fs.decl)
	})
	add("enum-value-rename", func(e *a18Editor) bool {
		en := e.pickEnum(func(x *a18GEnum) bool { return len(x.vals) > 0 })
		if en == nil {
			return false
		}
		en.vals[e.r.Intn(len(en.vals))].name = e.g.fresh("VAL")
		return e.rec("enum-value-rename", false, "enum:"+en.name, 0, "enum:"+en.name)
	})
	add("enum-value-add", func(e *a18Editor) bool {
		en := e.pickEnum(nil)
		if en == nil {
			return false
		}
		mx := 0
		for _, v := range en.vals {
			if v.num >= mx {
				mx = v.num + 1
			}
		}
		en.vals = append(en.vals, a18GEV{e.g.fresh("VAL"), mx + e.r.Intn(3)})
		return e.rec("enum-value-add", false, "enum:"+en.name, 0, "enum:"+en.name)
	})
	add("enum-remove-unreferenced", func(e *a18Editor) bool {
		en := e.pickEnum(func(x *a18GEnum) bool { return len(e.referenced(x.name)) == 0 })
		if en == nil {
			return false
		}
		for i, x := range e.nw.enums {
			if x == en {
				e.nw.enums = append(e.nw.enums[:i:i], e.nw.enums[i+1:]...)
			}
		}
		return e.rec("enum-remove-unreferenced", false, "enum:"+en.name, 0, "enum:"+en.name)
	})
	add("prefix-var-rename", func(e *a18Editor) bool {
		s := e.pickScope(func(x *a18GScope) bool {
			for _, t := range x.prefix {
				if t.isVar {
					return true
				}
			}
			return false
		})
		if s == nil {
			return false
		}
		for i, t := range s.prefix {
			if t.isVar && (e.r.Bool() || i == len(s.prefix)-1) {
				s.prefix[i].s = e.g.fresh("vn")
				break
			}
		}
		return e.rec("prefix-var-rename", false, "scope:"+s.name, 0, "scope:"+s.name)
	})
	add("op-add", func(e *a18Editor) bool {
		s := e.pickScope(nil)
		if s == nil {
			return false
		}
		s.ops = append(s.ops, &a18GOp{e.g.fresh("Op"), e.g.ty(e.nw, 1, -1)})
		return e.rec("op-add", false, "scope:"+s.name, 0, "scope:"+s.name)
	})
	add("method-add", func(e *a18Editor) bool {
		s := e.pickService(nil)
		if s == nil {
			return false
		}
		s.methods = append(s.methods, e.g.method(e.nw, e.g.fresh("me")))
		return e.rec("method-add", false, "svc:"+s.name, 0)
	})
	add("extends-add", func(e *a18Editor) bool {
		s := e.pickService(func(s *a18GService) bool { return s.ext == "" && e.nw.services[0] != s })
		if s == nil {
			return false
		}
		var c []string
		for _, o := range e.nw.services {
			if o == s {
				break
			}
			c = append(c, o.name)
		}
		if len(c) == 0 {
			return false
		}
		s.ext = c[e.r.Intn(len(c))]
		return e.rec("extends-add", false, "svc:"+s.name, 0, "svc:"+s.name)
	})
	add("decl-add", func(e *a18Editor) bool {
		switch e.r.Intn(5) {
		case 0:
			s := &a18GStruct{kind: "sux"[e.r.Intn(3)], name: e.g.fresh("St")}
			s.fields = e.g.fields(e.nw, e.r.Intn(4), "ddroo", false)
			e.nw.structs = append(e.nw.structs, s)
			return e.rec("add-struct", false, "struct:"+s.name, 0, "struct:"+s.name)
		case 1:
			en := &a18GEnum{name: e.g.fresh("En"), vals: []a18GEV{{e.g.fresh("VAL"), 0}}}
			e.nw.enums = append(e.nw.enums, en)
			return e.rec("add-enum", false, "enum:"+en.name, 0, "enum:"+en.name)
		case 2:
			s := &a18GService{name: e.g.fresh("Sv")}
			s.methods = append(s.methods, e.g.method(e.nw, e.g.fresh("me")))
			e.nw.services = append(e.nw.services, s)
			return e.rec("add-service", false, "svc:"+s.name, 0, "svc:"+s.name)
		case 3:
			s := &a18GScope{name: e.g.fresh("Sc"), prefix: e.g.prefix()}
			e.nw.scopes = append(e.nw.scopes, s)
			return e.rec("add-scope", false, "scope:"+s.name, 0, "scope:"+s.name)
		default:
			t := &a18GTypedef{e.g.fresh("Td"), e.g.ty(e.nw, 1, -1)}
			e.nw.typedefs = append(e.nw.typedefs, t)
			return e.rec("add-typedef", false, "typedef:"+t.name, 0, "typedef:"+t.name)
		}
	})
	add("decl-reorder", func(e *a18Editor) bool {
		n := e.nw
		if len(n.structs) > 1 {
			i, j := e.r.Intn(len(n.structs)), e.r.Intn(len(n.structs))
			n.structs[i], n.structs[j] = n.structs[j], n.structs[i]
		}
		for _, s := range n.services {
			if len(s.methods) > 1 {
				s.methods[0], s.methods[len(s.methods)-1] = s.methods[len(s.methods)-1], s.methods[0]
			}
		}
		if len(n.enums) > 1 {
			n.enums[0], n.enums[len(n.enums)-1] = n.enums[len(n.enums)-1], n.enums[0]
		}
		return e.rec("reorder-declarations", false, "-", 0)
	})
	add("namespace-change", func(e *a18Editor) bool {
		n := e.nw
		switch c := e.r.Intn(3); {
		case c == 0 || len(n.nss) == 0:
			for _, x := range n.nss {
				if x.scope == "cpp" {
					return false
				}
			}
			n.nss = append(n.nss, &a18GNS{"cpp", "added"})
			return e.rec("namespace-add", false, "-", 0)
		case c == 1:
			n.nss[0].value = n.nss[0].value + "x"
			return e.rec("namespace-change", false, "-", 0)
		default:
			n.nss = n.nss[1:]
			return e.rec("namespace-remove", false, "-", 0)
		}
	})
	add("const-change", func(e *a18Editor) bool {
		n := e.nw
		switch c := e.r.Intn(4); {
		case c == 0 || len(n.consts) == 0:
			n.consts = append(n.consts, &a18GConst{e.g.fresh("CK"), &a18GTy{kind: a18TyBase, name: "i64"}, "7"})
			return e.rec("const-add", false, "-", 0)
		case c == 1:
			k := n.consts[e.r.Intn(len(n.consts))]
			if k.ty.name == "string" {
				k.value = a18StrTok("changed")
			} else {
				k.value = "12345"
			}
			return e.rec("const-value-change", false, "-", 0)
		case c == 2:
			k := n.consts[e.r.Intn(len(n.consts))]
			k.ty = e.g.ty(e.nw, 1, -1)
			k.value = a18ConstValueFor(e.r, k.ty)
			return e.rec("const-type-change", false, "-", 0)
		default:
			i := e.r.Intn(len(n.consts))
			n.consts = append(n.consts[:i:i], n.consts[i+1:]...)
			return e.rec("const-remove", false, "-", 0)
		}
	})
}

func a18TokSame(a, b a18GPTok) bool {
	if a.isVar != b.isVar {
		return false
	}
	return a.isVar || a.s == b.s
}

// ---------- suite ----------

type c18Case struct {
	old, nw  *a18GProg
	log      []a18Applied
	touched  map[string]bool
	breaking int
}

func a18GenCase(r *Rng) *c18Case {
	old := a18GenProg(r)
	k := r.Intn(5)
	return a18EditCase(r, old, r.Intn(3), k)
}

// a18EditCase: k edits applied to a copy of old. mode 0/2: any edits, 1: compatible edits only.
func a18EditCase(r *Rng, old *a18GProg, mode, k int) *c18Case {
	g := &a18Gen{r: r, p: old, counter: 1000}
	e := &a18Editor{g: g, r: r, old: old, nw: old.clone(), touched: map[string]bool{}}
	g.p = e.nw
	for a18Applied, tries := 0, 0; a18Applied < k && tries < 60; tries++ {
		ed := a18Edits[r.Intn(len(a18Edits))]
		before := len(e.log)
		snapshot := e.nw.clone()
		if !ed.f(e) {
			continue
		}
		if mode == 1 && e.log[len(e.log)-1].breaking {
			// compatible-only case: undo
			e.nw = snapshot
			g.p = e.nw
			e.log = e.log[:before]
			continue
		}
		a18Applied++
	}
	c := &c18Case{old: old, nw: e.nw, log: e.log, touched: e.touched}
	for _, a := range e.log {
		if a.breaking {
			c.breaking++
		}
	}
	return c
}

func a18ExpectOf(breaking int) string {
	if breaking > 0 {
		return "fail"
	}
	return "pass"
}

// a18OracleHolds: the property on a real outcome.
func a18OracleHolds(expect string, a a18AuditOut) bool {
	if a.parseErr != "" {
		return true // not an audit outcome; reported as a correspondence mismatch instead
	}
	switch expect {
	case "pass":
		return !a.failed
	case "fail":
		return a.failed
	}
	return true
}

func a18AudLine(oldP, newP *a18GProg, expect string) string {
	return "aud - " + oldP.tok() + " " + newP.tok() + " " + expect
}

// a18ShrinkCase: drop declarations no a18Edit touched while the same oracle failure persists.
var a18Shrinks = 0

func a18ShrinkCase(c *c18Case, expect string) (oldP, newP *a18GProg) {
	oldP, newP = c.old.clone(), c.nw.clone()
	if a18Shrinks++; a18Shrinks > 4 {
		return // enough minimal witnesses from this process
	}
	errKey := func(m string) string {
		w := strings.Fields(strings.TrimPrefix(strings.TrimPrefix(m, "old: "), "new: "))
		if len(w) > 2 {
			w = w[:2]
		}
		return strings.Join(w, " ")
	}
	first := a18RealAudit(oldP, newP)
	stillFails := func(o, n *a18GProg) bool {
		a := a18RealAudit(o, n)
		if first.parseErr != "" {
			// the failure being shrunk is a rejected valid pair: the same kind of rejection
			return a.parseErr != "" && errKey(a.parseErr) == errKey(first.parseErr)
		}
		return a.parseErr == "" && !a18OracleHolds(expect, a)
	}
	if !stillFails(oldP, newP) {
		return
	}
	type rm struct {
		key string
		do  func(p *a18GProg)
	}
	budget := 80
	for changed := true; changed && budget > 0; {
		changed = false
		var cands []rm
		for _, s := range oldP.structs {
			name := s.name
			cands = append(cands, rm{"struct:" + name, func(p *a18GProg) {
				for i, x := range p.structs {
					if x.name == name {
						p.structs = append(p.structs[:i:i], p.structs[i+1:]...)
						return
					}
				}
			}})
		}
		for _, s := range oldP.enums {
			name := s.name
			cands = append(cands, rm{"enum:" + name, func(p *a18GProg) {
				for i, x := range p.enums {
					if x.name == name {
						p.enums = append(p.enums[:i:i], p.enums[i+1:]...)
						return
					}
				}
			}})
		}
		for _, s := range oldP.typedefs {
			name := s.name
			cands = append(cands, rm{"typedef:" + name, func(p *a18GProg) {
				for i, x := range p.typedefs {
					if x.name == name {
						p.typedefs = append(p.typedefs[:i:i], p.typedefs[i+1:]...)
						return
					}
				}
			}})
		}
		for _, s := range oldP.scopes {
			name := s.name
			cands = append(cands, rm{"scope:" + name, func(p *a18GProg) {
				for i, x := range p.scopes {
					if x.name == name {
						p.scopes = append(p.scopes[:i:i], p.scopes[i+1:]...)
						return
					}
				}
			}})
		}
		for _, s := range oldP.services {
			name := s.name
			untouchedMethods := true
			for _, m := range s.methods {
				mname := m.name
				if c.touched["method:"+name+"."+mname] {
					untouchedMethods = false
					continue
				}
				cands = append(cands, rm{"method:" + name + "." + mname, func(p *a18GProg) {
					for _, sv := range p.services {
						if sv.name == name {
							for i, x := range sv.methods {
								if x.name == mname {
									sv.methods = append(sv.methods[:i:i], sv.methods[i+1:]...)
									return
								}
							}
						}
					}
				}})
			}
			if untouchedMethods {
				cands = append(cands, rm{"svc:" + name, func(p *a18GProg) {
					for i, x := range p.services {
						if x.name == name {
							p.services = append(p.services[:i:i], p.services[i+1:]...)
							return
						}
					}
				}})
			}
		}
		for _, in := range oldP.includes {
			name := in.name
			cands = append(cands, rm{"inc:" + name, func(p *a18GProg) {
				for i, x := range p.includes {
					if x.name == name {
						p.includes = append(p.includes[:i:i], p.includes[i+1:]...)
						return
					}
				}
			}})
		}
		cands = append(cands, rm{"nsconst:", func(p *a18GProg) { p.nss, p.consts = nil, nil }})
		for _, cd := range cands {
			if c.touched[cd.key] || budget <= 0 {
				continue
			}
			if cd.key == "nsconst:" && (len(oldP.nss)+len(oldP.consts)+len(newP.nss)+len(newP.consts) == 0 || a18HasNsConstEdit(c)) {
				continue
			}
			o2, n2 := oldP.clone(), newP.clone()
			cd.do(o2)
			cd.do(n2)
			budget--
			if stillFails(o2, n2) {
				oldP, newP, changed = o2, n2, true
				break
			}
		}
	}
	return
}

func a18HasNsConstEdit(c *c18Case) bool {
	for _, a := range c.log {
		if strings.HasPrefix(a.kind, "namespace") || strings.HasPrefix(a.kind, "const") {
			return true
		}
	}
	return false
}

func runC18(r *Rng, n int) {
	// common.go's stream for seed k+1 is the stream for seed k shifted by one draw:
	// restart from a mixed output so that different seeds explore different programs
	r = &Rng{s: r.U64() ^ 0xC18C18C18}
	debug.SetMaxStack(2 << 20) // a runaway recursion in the code under test ends the process quickly (checkType's context strings grow with the depth)
	c18KnownWitness()
	for i := 0; i < n; i++ {
		c := a18GenCase(r)
		expect := a18ExpectOf(c.breaking)
		a := a18RealAudit(c.old, c.nw)
		Stat("evaluations")
		Stat(fmt.Sprintf("edits=%d", len(c.log)))
		Stat("expect-" + expect)
		maxDepth := 0
		for _, ed := range c.log {
			cl := "compatible"
			if ed.breaking {
				cl = "breaking"
			}
			Stat("edit:" + cl + ":" + ed.kind)
			Stat("site:" + ed.site[:strings.IndexByte(ed.site+":", ':')])
			if strings.HasPrefix(ed.kind, "retype") || strings.HasPrefix(ed.kind, "alias") || strings.HasPrefix(ed.kind, "typedef-body") {
				Stat(fmt.Sprintf("type-edit-depth=%d", ed.depth))
			}
			if ed.depth > maxDepth {
				maxDepth = ed.depth
			}
		}
		if a.parseErr != "" {
			Stat("parse-error")
			line := a18AudLine(c.old, c.nw, expect)
			Case(line, "parse-error "+a.parseErr)
			if expect == "pass" {
				// "identical programs and the documented compatible edits always pass"
				so, sn := a18ShrinkCase(c, expect)
				sa := a18RealAudit(so, sn)
				if sa.parseErr != "" {
					line = a18AudLine(so, sn, expect)
				}
				OracleFail("audit rejected a valid program pair that has no breaking change", map[string]interface{}{"op": "aud", "line": line,
					"edits": fmt.Sprint(c.log), "expect": expect, "real": "parse-error " + a.parseErr, "old_files": a18Files(so), "new_files": a18Files(sn)})
			}
			continue
		}
		if a.failed {
			Stat("real-fail")
		} else {
			Stat("real-pass")
		}
		for _, k := range a.kinds {
			Stat("finding:" + k)
		}
		StatN("decls", len(c.old.structs)+len(c.old.enums)+len(c.old.typedefs)+len(c.old.services)+len(c.old.scopes))
		line := a18AudLine(a.oldP, a.newP, expect)
		Case(line, a.canonical())
		if i < 3 {
			Sample(map[string]interface{}{"a18Edits": fmt.Sprint(c.log), "expect": expect, "real": a.canonical()})
		}
		if !a18OracleHolds(expect, a) {
			so, sn := a18ShrinkCase(c, expect)
			sa := a18RealAudit(so, sn)
			sline := line
			if sa.parseErr == "" && !a18OracleHolds(expect, sa) {
				sline = a18AudLine(sa.oldP, sa.newP, expect)
			}
			what := "audit passed although a breaking edit was applied"
			if expect == "pass" {
				what = "audit failed although only compatible edits were applied"
			}
			OracleFail(what, map[string]interface{}{"op": "aud", "line": sline, "a18Edits": fmt.Sprint(c.log), "expect": expect,
				"real": sa.canonical(), "errors": sa.errors, "old_files": a18Files(so), "new_files": a18Files(sn)})
		}
	}
}

func init() {
	suites["c18"] = runC18
	lineOps["aud"] = func(args []string) (string, bool) {
		if len(args) < 3 {
			return "bad-args", true
		}
		o, err1 := a18ProgOfTok(args[1])
		n, err2 := a18ProgOfTok(args[2])
		if err1 != nil || err2 != nil {
			return "bad-args", true
		}
		expect := "any"
		if len(args) >= 4 {
			expect = args[3]
		}
		a := a18RealAudit(o, n)
		if a.parseErr != "" {
			return "parse-error " + a.parseErr, expect != "pass"
		}
		// the replayed line must denote the programs the real parser sees
		if a.oldP.tok() != args[1] || a.newP.tok() != args[2] {
			return "not-canonical " + a.canonical(), true
		}
		return a.canonical(), a18OracleHolds(expect, a)
	}
}

// ---------- known finding (shared with C02, DESIGN §8 #10) ----------
//
// A typedef chain whose second hop lives in an *included* file: UnderlyingType resolves
// `base.userId` in base (→ `id`) and then looks `id` up in the *including* file, where it is
// unknown, so both sides "resolve" to the name `id` and the audit misses that `id` changed from
// i64 to i32 in the included file. With one hop (`base.key`) the same change is reported.
// The generator excludes the class: generated programs are single files (no includes).
// Copies of the witness: /verif/known/c18_include_typedef/{old,new}/{main,base}.frugal.

const c18KnownID = "include-typedef-second-hop"

var c18WitnessMain = "include \"base.frugal\"\nstruct M {\n  1: base.userId viaTwoHops,\n}\nstruct N {\n  1: base.key viaOneHop,\n}\n"
var c18WitnessBaseOld = "typedef i64 id\ntypedef id userId\ntypedef i64 key\n"
var c18WitnessBaseNew = "typedef i32 id\ntypedef id userId\ntypedef i64 key\n"
var c18WitnessBaseNewOneHop = "typedef i64 id\ntypedef id userId\ntypedef i32 key\n"

// a18AuditDirs audits new/main.frugal against old/main.frugal; returns (failed, error messages, setup error).
func a18AuditDirs(oldFiles, newFiles map[string]string) (bool, []string, error) {
	dir, err := os.MkdirTemp("", "verif-c18k-")
	if err != nil {
		return false, nil, err
	}
	defer os.RemoveAll(dir)
	for sub, files := range map[string]map[string]string{"old": oldFiles, "new": newFiles} {
		os.MkdirAll(filepath.Join(dir, sub), 0o755)
		for name, text := range files {
			if err := os.WriteFile(filepath.Join(dir, sub, name), []byte(text), 0o644); err != nil {
				return false, nil, err
			}
		}
	}
	lg := &a18RecLogger{}
	var aerr error
	if o := guard(10e9, func() {
		aerr = parser.NewAuditorWithLogger(lg).Audit(filepath.Join(dir, "old", "main.frugal"), filepath.Join(dir, "new", "main.frugal"))
	}); o != "" {
		return false, nil, fmt.Errorf("audit %s", o)
	}
	if aerr != nil && !lg.ErrorsLogged() {
		return false, nil, aerr
	}
	return aerr != nil, lg.errors, nil
}

// c18KnownWitness replays the witness: Known(...) while the two-hop retype is still missed;
// the one-hop control must be reported (otherwise the witness itself is broken: oracle failure).
func c18KnownWitness() {
	oldF := map[string]string{"main.frugal": c18WitnessMain, "base.frugal": c18WitnessBaseOld}
	failed, errs, err := a18AuditDirs(oldF, map[string]string{"main.frugal": c18WitnessMain, "base.frugal": c18WitnessBaseNew})
	ctlFailed, ctlErrs, err2 := a18AuditDirs(oldF, map[string]string{"main.frugal": c18WitnessMain, "base.frugal": c18WitnessBaseNewOneHop})
	if err != nil || err2 != nil {
		OracleFail("known-finding witness could not be audited", map[string]interface{}{"err": fmt.Sprint(err, err2)})
		return
	}
	if !ctlFailed || len(ctlErrs) != 1 {
		OracleFail("audit passed although a field was retyped behind a one-hop typedef of an included file",
			map[string]interface{}{"errors": ctlErrs, "old_idl": c18WitnessMain + "--- base.frugal\n" + c18WitnessBaseOld, "new_idl": "--- base.frugal\n" + c18WitnessBaseNewOneHop})
	}
	if !failed {
		Known(c18KnownID, "audit passes although M.viaTwoHops changed from i64 to i32: the second typedef hop (base.userId -> id -> i64|i32) is looked up in the including file")
		Stat("known-witness-still-fails")
	} else {
		Stat("known-witness-now-detected:" + strings.Join(errs, "|"))
	}
}
