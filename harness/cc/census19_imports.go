package main

// C19 census, part 2: goimports (golang PostProcess) is a site of ENVIRONMENTAL influence.
// imports.Process only formats and drops unused imports as long as every package the emitted
// text refers to is imported by the generator itself; an import that is left for goimports to
// ADD is resolved by searching the file system / the Go module around the working directory,
// i.e. it is location-dependent.  Static rule, over compiler/generator/golang/*.go:
//
//   go-import       every statement of a *Imports function that emits an import line, keyed
//                   with the option guard (enclosing if-conditions) it is emitted under — a
//                   changed guard is a changed site;
//   go-importguard  every emitted `var _ = pkg.Sym` line, with its guard;
//   go-pkguse       per (generator function, package name): the function emits text that
//                   refers to `pkg.Exported`;
//   go-unpaired-use a `var _ = pkg.Sym` line whose package is not imported in the same
//                   function under a guard that covers it (the import may be left to goimports);
//   go-unimported-pkg a package name referred to by emitted text that no *Imports function
//                   imports at all.
// The last two never have an expectation entry that makes them `accounted`: they are defects
// (or need a model clause) by construction.

import (
	"go/ast"
	"go/token"
	"regexp"
	"sort"
	"strconv"
	"strings"
)

var c19StdPkgs = []string{"bytes", "context", "errors", "fmt", "log", "math", "sort", "strings", "strconv", "sync", "time",
	"reflect", "driver", "sql", "json", "io", "os", "atomic", "unicode", "utf8", "bufio", "regexp", "rand", "hex", "base64",
	"binary", "ioutil", "filepath", "path", "url", "http", "net", "thrift", "frugal", "logrus"}

var c19ImportLine = regexp.MustCompile(`^\t(?:(\w+) )?"([^"]*)"\n*$`)
var c19GuardLine = regexp.MustCompile(`^var _ = (\w+)\.(\w+)`)
var c19PkgUse = regexp.MustCompile(`(?:^|[^\w.$"%])([a-z][a-z0-9]*)\.([A-Z][A-Za-z0-9_]*)`)

type c19ImpSite struct {
	fn     string
	name   string // package name the import provides ("" = dynamic path)
	guards []string
	expr   string
}

func c19Unquote(l *ast.BasicLit) string {
	if l.Kind != token.STRING {
		return ""
	}
	s, err := strconv.Unquote(l.Value)
	if err != nil {
		return ""
	}
	return s
}

func c19ImportName(alias, path string) string {
	if alias != "" {
		return alias
	}
	if i := strings.LastIndexByte(path, '/'); i >= 0 {
		return path[i+1:]
	}
	return path
}

// firstLit: the leftmost string literal of a concatenation.
func c19FirstLit(e ast.Expr) *ast.BasicLit {
	switch x := e.(type) {
	case *ast.BasicLit:
		return x
	case *ast.BinaryExpr:
		return c19FirstLit(x.X)
	case *ast.ParenExpr:
		return c19FirstLit(x.X)
	case *ast.CallExpr: // fmt.Sprintf("…", …)
		if len(x.Args) > 0 {
			return c19FirstLit(x.Args[0])
		}
	}
	return nil
}

func (sc *c19Scan) scanGoImports() {
	pk := sc.pkgs["golang"]
	if pk == nil {
		return
	}
	rels := make([]string, 0, len(pk.files))
	for r := range pk.files {
		rels = append(rels, r)
	}
	sort.Strings(rels)
	pkgNames := map[string]bool{}
	for _, n := range c19StdPkgs {
		pkgNames[n] = true
	}
	var imps, guards []c19ImpSite
	uses := map[string]map[string]bool{} // "rel::fn" -> package names
	ordinal := map[string]int{}
	add := func(rel, fn, kind, expr string) {
		k := rel + "::" + fn + "::" + kind + ":" + expr
		n := ordinal[k]
		ordinal[k] = n + 1
		sc.sites = append(sc.sites, c19Site{Key: k + "#" + strconv.Itoa(n), Kind: kind, File: rel, Func: fn, Expr: expr})
	}
	relOf := map[string]string{}
	for _, rel := range rels {
		for _, d := range pk.files[rel].Decls {
			fd, ok := d.(*ast.FuncDecl)
			if !ok || fd.Body == nil {
				continue
			}
			fn := fd.Name.Name
			if fd.Recv != nil && len(fd.Recv.List) == 1 {
				t := fd.Recv.List[0].Type
				if s, ok := t.(*ast.StarExpr); ok {
					t = s.X
				}
				if id, ok := t.(*ast.Ident); ok {
					fn = id.Name + "." + fn
				}
			}
			relOf[fn] = rel
			isImports := strings.Contains(fd.Name.Name, "Imports")
			// emitted text: every string literal of the function
			ast.Inspect(fd.Body, func(n ast.Node) bool {
				if l, ok := n.(*ast.BasicLit); ok && l.Kind == token.STRING {
					for _, m := range c19PkgUse.FindAllStringSubmatch(c19Unquote(l), -1) {
						if pkgNames[m[1]] {
							key := rel + "::" + fn
							if uses[key] == nil {
								uses[key] = map[string]bool{}
							}
							uses[key][m[1]] = true
						}
					}
				}
				return true
			})
			if !isImports {
				continue
			}
			var walk func(stmts []ast.Stmt, g []string)
			onlyImports := func(b *ast.BlockStmt) bool {
				if b == nil || len(b.List) == 0 {
					return false
				}
				for _, st := range b.List {
					as, ok := st.(*ast.AssignStmt)
					if !ok || len(as.Rhs) != 1 {
						return false
					}
					l := c19FirstLit(as.Rhs[0])
					if l == nil || !strings.HasPrefix(c19Unquote(l), "\t") {
						return false
					}
				}
				return true
			}
			walk = func(stmts []ast.Stmt, g []string) {
				for _, st := range stmts {
					switch x := st.(type) {
					case *ast.AssignStmt:
						if len(x.Rhs) != 1 {
							continue
						}
						l := c19FirstLit(x.Rhs[0])
						if l == nil {
							continue
						}
						v := c19Unquote(l)
						expr := c19ExprString(sc.fset, x.Rhs[0])
						gs := strings.Join(g, "&&")
						if gs == "" {
							gs = "always"
						}
						if m := c19GuardLine.FindStringSubmatch(v); m != nil {
							guards = append(guards, c19ImpSite{fn: fn, name: m[1], guards: append([]string{}, g...), expr: expr})
							add(rel, fn, "go-importguard", m[1]+"."+m[2]+"@"+gs)
						} else if strings.HasPrefix(v, "\t") && strings.Contains(v, "\"") {
							name := ""
							if m := c19ImportLine.FindStringSubmatch(v); m != nil && l == x.Rhs[0] {
								name = c19ImportName(m[1], m[2])
								pkgNames[name] = true
							}
							imps = append(imps, c19ImpSite{fn: fn, name: name, guards: append([]string{}, g...), expr: expr})
							add(rel, fn, "go-import", expr+"@"+gs)
						}
					case *ast.IfStmt:
						cond := c19ExprString(sc.fset, x.Cond)
						eb, _ := x.Else.(*ast.BlockStmt)
						if onlyImports(x.Body) && onlyImports(eb) {
							// an option that only chooses WHICH path provides the package: both branches import
							walk(x.Body.List, append(append([]string{}, g...), "alt:"+cond))
							walk(eb.List, append(append([]string{}, g...), "alt:!("+cond+")"))
							continue
						}
						walk(x.Body.List, append(append([]string{}, g...), cond))
						switch e := x.Else.(type) {
						case *ast.BlockStmt:
							walk(e.List, append(append([]string{}, g...), "!("+cond+")"))
						case *ast.IfStmt:
							walk([]ast.Stmt{e}, append(append([]string{}, g...), "!("+cond+")"))
						}
					case *ast.ForStmt:
						walk(x.Body.List, append(append([]string{}, g...), "loop"))
					case *ast.RangeStmt:
						walk(x.Body.List, append(append([]string{}, g...), "loop"))
					case *ast.BlockStmt:
						walk(x.List, g)
					}
				}
			}
			walk(fd.Body.List, nil)
		}
	}
	// pairing: a `var _ = P.Sym` line needs an import of P in the same function under a guard
	// that is implied by the line's own guard ("alt:" guards are neutral: both branches import)
	covers := func(imp, use []string) bool {
		for _, gi := range imp {
			if strings.HasPrefix(gi, "alt:") {
				continue
			}
			found := false
			for _, gu := range use {
				if gu == gi {
					found = true
				}
			}
			if !found {
				return false
			}
		}
		return true
	}
	imported := map[string]bool{}
	for _, im := range imps {
		if im.name != "" {
			imported[im.name] = true
		}
	}
	for _, gd := range guards {
		ok := false
		for _, im := range imps {
			if im.fn == gd.fn && im.name == gd.name && covers(im.guards, gd.guards) {
				ok = true
			}
		}
		if !ok {
			add(relOf[gd.fn], gd.fn, "go-unpaired-use", gd.name)
		}
	}
	keys := make([]string, 0, len(uses))
	for k := range uses {
		keys = append(keys, k)
	}
	sort.Strings(keys)
	unimported := map[string]bool{}
	for _, k := range keys {
		i := strings.Index(k, "::")
		rel, fn := k[:i], k[i+2:]
		ps := make([]string, 0, len(uses[k]))
		for p := range uses[k] {
			ps = append(ps, p)
		}
		sort.Strings(ps)
		for _, p := range ps {
			add(rel, fn, "go-pkguse", p)
			if !imported[p] && !unimported[p] {
				unimported[p] = true
				add(rel, "(generator)", "go-unimported-pkg", p)
			}
		}
	}
}
