package main

// C11 — the compiler is total: valid IDL yields valid code, bad input a diagnostic.
//
// Suite "c11":
//  (A) VALID side: random valid multi-file IDL programs (totality_gen.go) compiled by the REAL
//      compiler binary (.build/frugal, a subprocess) for every target x a few option subsets.
//      Each run is classified {ok, diagnostic, recovered-panic, crash, hang, silent-failure}.
//      ORACLE (the property): valid => ok, and every emitted file is well-formed for its target
//      (Go: `go build` of the generated packages against /repo/lib/go; Python: compile();
//      Java: javac's parser; JSON: encoding/json; HTML: html.parser tag balance; Dart: bracket /
//      string balance).
//  (B) INVALID side: programs with ONE injected semantic invalidity, mutated texts, arbitrary
//      texts. ORACLE: exit != 0 with a message, promptly, never crash / hang; a recovered panic
//      is tolerated only for the invalidity kinds nothing validates (c11UncheckedKinds).
//
// Replay line (corpus, replays/, shrinker):  cc <hex of the file bundle> <expect> <gen>
//   bundle  := ("==> " name " <==\n" text)*      first file = the file given to the compiler
//   expect  := valid | invalid | lenient | anytext
//   gen     := the -gen argument (go output is type-checked in a scratch module)
// Both sides print `run` for it (the Lean side has no model of whole compilations; the line is
// there so that the ORACLE is re-evaluated on replay).

import (
	"bytes"
	"context"
	"encoding/json"
	"fmt"
	"os"
	"os/exec"
	"path/filepath"
	"regexp"
	"runtime"
	"sort"
	"strconv"
	"strings"
	"sync"
	"time"

	"github.com/Workiva/frugal/compiler"
)

const c11Watchdog = 20 * time.Second

func c11VerifDir() string {
	if p := os.Getenv("VERIF_DIR"); p != "" {
		return p
	}
	if exe, err := os.Executable(); err == nil {
		p := filepath.Dir(filepath.Dir(exe))
		if _, err := os.Stat(filepath.Join(p, "properties.jsonl")); err == nil {
			return p
		}
	}
	return "/verif"
}

func c11RepoDir() string {
	if p := os.Getenv("VERIF_REPO"); p != "" {
		return p
	}
	return "/repo"
}

func c11Frugal() string {
	if p := os.Getenv("VERIF_FRUGAL"); p != "" {
		return p
	}
	return filepath.Join(c11VerifDir(), ".build", "frugal")
}

// ---------------------------------------------------------------- running the compiler

type c11Run struct {
	class string // ok | diagnostic | recovered-panic | crash | hang | silent-failure
	rc    int
	out   string
	dur   time.Duration
}

var c11CrashRe = regexp.MustCompile(`(?m)^(fatal error: |panic: |goroutine \d+ \[|runtime: goroutine stack exceeds|SIGSEGV|signal )`)

// c11Exec runs the real compiler binary in dir (so that file names in messages stay short).
func c11Exec(dir string, args ...string) c11Run {
	ctx, cancel := context.WithTimeout(context.Background(), c11Watchdog)
	defer cancel()
	cmd := exec.CommandContext(ctx, c11Frugal(), args...)
	cmd.Dir = dir
	var buf bytes.Buffer
	cmd.Stdout, cmd.Stderr = &buf, &buf
	t0 := time.Now()
	err := cmd.Run()
	r := c11Run{dur: time.Since(t0)}
	o := buf.String()
	if len(o) > 6000 {
		o = o[:3000] + "\n...\n" + o[len(o)-2000:]
	}
	r.out = o
	if ctx.Err() != nil {
		r.class, r.rc = "hang", -9
		return r
	}
	if err == nil {
		r.class = "ok"
		return r
	}
	r.rc = -1
	if ee, ok := err.(*exec.ExitError); ok {
		r.rc = ee.ExitCode()
	}
	switch {
	case r.rc < 0 || c11CrashRe.MatchString(o):
		r.class = "crash"
	case strings.TrimSpace(o) == "":
		r.class = "silent-failure"
	default:
		r.class = "diagnostic"
	}
	return r
}

var c11InProc sync.Mutex

// c11PanicsInProcess repeats a compilation that ended with exit 1 and a message inside this
// process under recover: main.go prints a recovered panic and a returned error the same way,
// this tells them apart exactly. Only called after the subprocess terminated normally, so the
// input cannot overflow the stack or hang here.
func c11PanicsInProcess(dir, file, gen string) (bool, string) {
	outDir, err := os.MkdirTemp("", "verif-c11-inproc-")
	if err != nil {
		return false, ""
	}
	defer os.RemoveAll(outDir)
	c11InProc.Lock()
	defer c11InProc.Unlock()
	saved := os.Stdout
	if null, err := os.OpenFile(os.DevNull, os.O_WRONLY, 0); err == nil {
		os.Stdout = null
		defer func() { os.Stdout = saved; null.Close() }()
	}
	msg := ""
	o := guard(60*time.Second, func() {
		defer func() {
			if r := recover(); r != nil {
				msg = fmt.Sprint(r)
				panic(r)
			}
		}()
		compiler.Compile(compiler.Options{File: filepath.Join(dir, file), Gen: gen, Out: outDir, Delim: ".", Recurse: true})
	})
	return strings.HasPrefix(o, "panic:"), msg
}

// c11Compile = subprocess run + exact classification of exit-1 runs.
func c11Compile(dir, file, gen, outDir string) c11Run {
	r := c11Exec(dir, "-gen", gen, "-r", "-out", outDir, file)
	if r.class == "diagnostic" && strings.HasPrefix(r.out, "Failed to generate") {
		if p, _ := c11PanicsInProcess(dir, file, gen); p {
			r.class = "recovered-panic"
		}
	}
	return r
}

// ---------------------------------------------------------------- file bundles

func c11Bundle(files map[string]string, order []string) string {
	var b strings.Builder
	for _, n := range order {
		b.WriteString("==> " + n + " <==\n")
		b.WriteString(files[n])
		if !strings.HasSuffix(files[n], "\n") {
			b.WriteString("\n")
		}
	}
	return b.String()
}

func c11Unbundle(s string) (map[string]string, []string) {
	files := map[string]string{}
	order := []string{}
	cur := ""
	for _, line := range strings.SplitAfter(s, "\n") {
		l := strings.TrimRight(line, "\n")
		if strings.HasPrefix(l, "==> ") && strings.HasSuffix(l, " <==") {
			cur = filepath.Base(l[4 : len(l)-4])
			if cur == "" || cur == "." || cur == "/" {
				cur = "x.frugal"
			}
			if _, dup := files[cur]; !dup {
				order = append(order, cur)
			}
			files[cur] = ""
			continue
		}
		if cur == "" {
			cur = "prog.frugal"
			order = append(order, cur)
		}
		files[cur] += line
	}
	return files, order
}

func c11WriteFiles(dir string, files map[string]string) error {
	if err := os.MkdirAll(dir, 0o755); err != nil {
		return err
	}
	for n, t := range files {
		if err := os.WriteFile(filepath.Join(dir, n), []byte(t), 0o644); err != nil {
			return err
		}
	}
	return nil
}

// ---------------------------------------------------------------- targets and option subsets

type c11Target struct {
	lang string   // -gen language incl. fixed flavour option ("py:asyncio")
	opts []string // optional options combined at random
	kind string   // well-formedness checker
}

var c11Targets = []c11Target{
	{"go", []string{"async", "slim", "suppress_deprecated_logging", "omit_server_service_generation"}, "go"},
	{"java", []string{"async", "boxed_primitives", "default_unsupported", "generated_annotations=undated", "suppress_deprecated_logging"}, "java"},
	{"dart", []string{"use_enums", "use_int64", "use_null_for_unset", "library_prefix=my_lib.src.gen"}, "dart"},
	{"py", []string{"package_prefix=my.pkg."}, "py2"},
	{"py:asyncio", []string{"package_prefix=my.pkg."}, "py3"},
	{"py:tornado", []string{"package_prefix=my.pkg."}, "py2"},
	{"json", []string{"indent"}, "json"},
	{"html", []string{"standalone"}, "html"},
}

func c11GenArg(t c11Target, opts []string, goPrefix string) string {
	all := []string{}
	if t.lang == "go" {
		all = append(all, "package_prefix="+goPrefix)
	}
	all = append(all, opts...)
	if len(all) == 0 {
		return t.lang
	}
	sep := ":"
	if strings.Contains(t.lang, ":") {
		sep = ","
	}
	return t.lang + sep + strings.Join(all, ",")
}

func c11Subset(r *Rng, opts []string) []string {
	out := []string{}
	for _, o := range opts {
		if r.Chance(45) {
			out = append(out, o)
		}
	}
	if len(out) == 0 && len(opts) > 0 {
		out = append(out, opts[r.Intn(len(opts))])
	}
	return out
}

// ---------------------------------------------------------------- well-formedness checkers

func c11FilesWithExt(root string, exts ...string) []string {
	var out []string
	filepath.Walk(root, func(p string, info os.FileInfo, err error) error {
		if err != nil || info.IsDir() {
			return nil
		}
		for _, e := range exts {
			if strings.HasSuffix(p, e) {
				out = append(out, p)
			}
		}
		return nil
	})
	sort.Strings(out)
	return out
}

// --- Go: scratch module, `go build ./...`

type c11GoMod struct {
	dir string
}

const c11ModName = "verifmod"

func c11NewGoMod(root string) (*c11GoMod, error) {
	dir := filepath.Join(root, "gomod")
	if err := os.MkdirAll(filepath.Join(dir, "gen"), 0o755); err != nil {
		return nil, err
	}
	repo := c11RepoDir()
	gomod := "module " + c11ModName + "\n\ngo 1.20\n\nrequire github.com/Workiva/frugal/lib/go v0.0.0\n\nreplace github.com/Workiva/frugal/lib/go => " + repo + "/lib/go\n"
	if err := os.WriteFile(filepath.Join(dir, "go.mod"), []byte(gomod), 0o644); err != nil {
		return nil, err
	}
	sum, err := os.ReadFile(filepath.Join(repo, "lib", "go", "go.sum"))
	if err != nil {
		return nil, err
	}
	if err := os.WriteFile(filepath.Join(dir, "go.sum"), sum, 0o644); err != nil {
		return nil, err
	}
	return &c11GoMod{dir: dir}, nil
}

var c11GoErrRe = regexp.MustCompile(`^(?:\./)?gen/([^/]+)/`)

// build type-checks everything under gen/ and returns tag -> first error lines. A package that
// does not even load (syntax error, invalid package name) makes `go build` stop before it
// type-checks the others: the trees that failed are moved away and the rest is built again, until
// a build is clean.
func (m *c11GoMod) build() (map[string]string, error) {
	all := map[string]string{}
	for round := 0; round < 8; round++ {
		res, err := m.buildOnce()
		// an error that names no generated package is the toolchain's (e.g. the shared Go build
		// cache being trimmed by a concurrent run): try again before giving up
		for retry := 0; err != nil && retry < 3; retry++ {
			StatN("go-build-retries", 1)
			time.Sleep(time.Duration(2+retry*3) * time.Second)
			res, err = m.buildOnce()
		}
		if err != nil {
			return nil, err
		}
		if len(res) == 0 {
			return all, nil
		}
		progressed := false
		for tag, e := range res {
			if _, seen := all[tag]; !seen {
				all[tag] = e
				progressed = true
			}
			away := filepath.Join(filepath.Dir(m.dir), "go-failed") // outside the module
			os.MkdirAll(away, 0o755)
			os.Rename(filepath.Join(m.dir, "gen", tag), filepath.Join(away, tag+"-"+strconv.Itoa(round)))
		}
		if !progressed {
			break
		}
		StatN("go-build-rounds", 1)
	}
	return all, nil
}

func (m *c11GoMod) buildOnce() (map[string]string, error) {
	ctx, cancel := context.WithTimeout(context.Background(), 20*time.Minute)
	defer cancel()
	cmd := exec.CommandContext(ctx, "go", "build", "-gcflags=-e", "./...")
	cmd.Dir = m.dir
	cmd.Env = append(os.Environ(), "GOFLAGS=-mod=mod", "GOPROXY=off", "GOSUMDB=off", "GOTOOLCHAIN=local", "CGO_ENABLED=0")
	out, err := cmd.CombinedOutput()
	res := map[string]string{}
	if err == nil {
		return res, nil
	}
	unattributed := []string{}
	for _, line := range strings.Split(string(out), "\n") {
		if line == "" || strings.HasPrefix(line, "#") {
			continue
		}
		if mm := c11GoErrRe.FindStringSubmatch(line); mm != nil {
			if len(res[mm[1]]) < 1200 {
				res[mm[1]] += line + "\n"
			}
			continue
		}
		if strings.HasPrefix(line, "\t") || strings.HasPrefix(line, " ") {
			continue // continuation lines
		}
		unattributed = append(unattributed, line)
	}
	if len(res) == 0 {
		return nil, fmt.Errorf("go build failed without an attributable error: %s", c11Clip(strings.Join(unattributed, " | "), 1500))
	}
	return res, nil
}

// --- Python / HTML: one interpreter run over a manifest

const c11PyScript = `
import sys
PY3 = sys.version_info[0] >= 3
def check_py(p):
    src = open(p, 'rb').read()
    compile(src, p, 'exec')
def check_html(p):
    from html.parser import HTMLParser
    void = set(['area','base','br','col','embed','hr','img','input','link','meta','param','source','track','wbr'])
    class P(HTMLParser):
        def __init__(self):
            HTMLParser.__init__(self, convert_charrefs=True)
            self.stack = []
            self.err = None
        def handle_starttag(self, tag, attrs):
            if tag not in void: self.stack.append(tag)
        def handle_endtag(self, tag):
            if tag in void: return
            if not self.stack or self.stack[-1] != tag:
                if self.err is None: self.err = 'end tag </%s> at %s does not match open %s' % (tag, self.getpos(), self.stack[-3:])
                if tag in self.stack:
                    while self.stack and self.stack.pop() != tag: pass
            else:
                self.stack.pop()
    ps = P()
    ps.feed(open(p, encoding='utf-8').read())
    ps.close()
    if ps.err: raise ValueError(ps.err)
    if ps.stack: raise ValueError('unclosed tags %s' % ps.stack[-5:])
for line in open(sys.argv[1]):
    line = line.rstrip('\n')
    if not line: continue
    kind, p = line.split('\t', 1)
    try:
        if kind == 'py': check_py(p)
        elif kind == 'html': check_html(p)
    except BaseException as e:
        sys.stdout.write('%s\t%s: %s\n' % (p, type(e).__name__, str(e).replace('\n', ' ')[:300]))
sys.stdout.write('DONE\n')
`

var (
	c11Py2Once sync.Once
	c11Py2OK   bool
)

// c11HavePy2: `PYENV_VERSION=2.7.18 python2` runs.
func c11HavePy2() bool {
	c11Py2Once.Do(func() {
		cmd := exec.Command("python2", "-c", "import sys; sys.stdout.write(str(sys.version_info[0]))")
		cmd.Env = append(os.Environ(), "PYENV_VERSION=2.7.18")
		out, err := cmd.Output()
		c11Py2OK = err == nil && strings.TrimSpace(string(out)) == "2"
	})
	return c11Py2OK
}

// c11PyCheck: manifest entries (kind, path) -> path -> error. py2 selects the interpreter.
func c11PyCheck(scratch string, py2 bool, entries [][2]string) (map[string]string, error) {
	res := map[string]string{}
	if len(entries) == 0 {
		return res, nil
	}
	mf, err := os.CreateTemp(scratch, "manifest-*.txt")
	if err != nil {
		return nil, err
	}
	for _, e := range entries {
		fmt.Fprintf(mf, "%s\t%s\n", e[0], e[1])
	}
	mf.Close()
	defer os.Remove(mf.Name())
	ctx, cancel := context.WithTimeout(context.Background(), 10*time.Minute)
	defer cancel()
	var cmd *exec.Cmd
	if py2 {
		cmd = exec.CommandContext(ctx, "python2", "-c", c11PyScript, mf.Name())
		cmd.Env = append(os.Environ(), "PYENV_VERSION=2.7.18")
	} else {
		cmd = exec.CommandContext(ctx, "python3", "-c", c11PyScript, mf.Name())
	}
	out, err := cmd.CombinedOutput()
	if err != nil || !strings.HasSuffix(strings.TrimSpace(string(out)), "DONE") {
		return nil, fmt.Errorf("python checker failed: %v %s", err, c11Clip(string(out), 600))
	}
	for _, line := range strings.Split(string(out), "\n") {
		if i := strings.IndexByte(line, '\t'); i > 0 {
			res[line[:i]] = line[i+1:]
		}
	}
	return res, nil
}

// --- Java: javac's parser through .build/javaparse/ParseOnly (built by bin/props_d/c11.py)

func c11JavaParseDir() string {
	d := filepath.Join(c11VerifDir(), ".build", "javaparse")
	if _, err := os.Stat(filepath.Join(d, "ParseOnly.class")); err != nil {
		return ""
	}
	if _, err := exec.LookPath("java"); err != nil {
		return ""
	}
	return d
}

func c11JavaCheck(scratch string, files []string) (map[string]string, error) {
	res := map[string]string{}
	if len(files) == 0 {
		return res, nil
	}
	d := c11JavaParseDir()
	if d == "" {
		for _, f := range files {
			b, _ := os.ReadFile(f)
			if msg := c11Balance(string(b), false); msg != "" {
				res[f] = msg
			}
		}
		return res, nil
	}
	mf, err := os.CreateTemp(scratch, "javafiles-*.txt")
	if err != nil {
		return nil, err
	}
	for _, f := range files {
		fmt.Fprintln(mf, f)
	}
	mf.Close()
	defer os.Remove(mf.Name())
	ctx, cancel := context.WithTimeout(context.Background(), 10*time.Minute)
	defer cancel()
	out, err := exec.CommandContext(ctx, "java", "-cp", d, "ParseOnly", mf.Name()).CombinedOutput()
	if err != nil || !strings.HasSuffix(strings.TrimSpace(string(out)), "DONE") {
		return nil, fmt.Errorf("java parse helper failed: %v %s", err, c11Clip(string(out), 600))
	}
	for _, line := range strings.Split(string(out), "\n") {
		if i := strings.IndexByte(line, '\t'); i > 0 {
			if _, seen := res[line[:i]]; !seen {
				res[line[:i]] = line[i+1:]
			}
		}
	}
	return res, nil
}

// --- Dart (and Java fallback): brackets, comments and string literals balance.

type c11Lexer struct {
	s    []rune
	i    int
	dart bool
	err  string
}

func (l *c11Lexer) fail(msg string) {
	if l.err == "" {
		line := 1
		for _, c := range l.s[:minInt(l.i, len(l.s))] {
			if c == '\n' {
				line++
			}
		}
		l.err = fmt.Sprintf("line %d: %s", line, msg)
	}
	l.i = len(l.s)
}

func minInt(a, b int) int {
	if a < b {
		return a
	}
	return b
}

func (l *c11Lexer) has(p string) bool {
	rs := []rune(p)
	if l.i+len(rs) > len(l.s) {
		return false
	}
	for k, c := range rs {
		if l.s[l.i+k] != c {
			return false
		}
	}
	return true
}

// code scans until the closing bracket `until` (0 = end of input).
func (l *c11Lexer) code(until rune, depth int) {
	if depth > 200 {
		l.fail("nesting too deep")
		return
	}
	for l.i < len(l.s) {
		c := l.s[l.i]
		switch {
		case l.has("//"):
			for l.i < len(l.s) && l.s[l.i] != '\n' {
				l.i++
			}
		case l.has("/*"):
			l.i += 2
			n := 1
			for l.i < len(l.s) && n > 0 {
				if l.has("*/") {
					n--
					l.i += 2
				} else if l.dart && l.has("/*") {
					n++
					l.i += 2
				} else {
					l.i++
				}
			}
			if n > 0 {
				l.fail("unterminated block comment")
			}
		case c == '\'' && !l.dart:
			l.str('\'', false, false, depth)
		case c == '"' || (c == '\'' && l.dart):
			triple := l.dart && (l.has(`"""`) || l.has(`'''`))
			raw := l.dart && l.i > 0 && l.s[l.i-1] == 'r' && (l.i < 2 || !(isWordRune(l.s[l.i-2])))
			l.str(c, triple, raw, depth)
		case c == '(' || c == '[' || c == '{':
			l.i++
			close := map[rune]rune{'(': ')', '[': ']', '{': '}'}[c]
			l.code(close, depth+1)
			if l.err != "" {
				return
			}
		case c == ')' || c == ']' || c == '}':
			if c != until {
				l.fail(fmt.Sprintf("unexpected %q (open: %q)", c, until))
				return
			}
			l.i++
			return
		default:
			l.i++
		}
	}
	if until != 0 {
		l.fail(fmt.Sprintf("missing %q at end of file", until))
	}
}

func isWordRune(c rune) bool {
	return c == '_' || c >= '0' && c <= '9' || c >= 'a' && c <= 'z' || c >= 'A' && c <= 'Z'
}

func (l *c11Lexer) str(q rune, triple, raw bool, depth int) {
	if triple {
		l.i += 3
	} else {
		l.i++
	}
	for l.i < len(l.s) {
		c := l.s[l.i]
		switch {
		case c == '\\' && !raw:
			l.i += 2
		case triple && c == q && l.i+2 < len(l.s)+0 && l.s[l.i+1] == q && l.s[l.i+2] == q:
			l.i += 3
			return
		case !triple && c == q:
			l.i++
			return
		case !triple && c == '\n':
			l.fail("newline in string literal")
			return
		case l.dart && !raw && c == '$' && l.i+1 < len(l.s) && l.s[l.i+1] == '{':
			l.i += 2
			l.code('}', depth+1)
			if l.err != "" {
				return
			}
		default:
			l.i++
		}
	}
	l.fail("unterminated string literal")
}

func c11Balance(src string, dart bool) string {
	l := &c11Lexer{s: []rune(src), dart: dart}
	l.code(0, 0)
	return l.err
}

// ---------------------------------------------------------------- one compiled output to check

type c11Job struct {
	prog    int
	tag     string // unique per (program, target, option subset): directory name
	target  c11Target
	gen     string
	outDir  string
	run     c11Run
	bundle  string
	expect  string
	problem string // first well-formedness problem ("" = fine)
	feat    map[string]bool
	probes  []c11Probe // naming probes in the program (totality_names.go)
}

// c11KnownClass: the failure of this run falls into a recorded known-finding class that is
// specific to one target (the program has the feature AND the failure has the recorded shape).
func c11KnownClass(j *c11Job) string {
	for _, pr := range j.probes {
		if id := c11ProbeKnown(pr, j.target.lang); id != "" {
			return id
		}
	}
	txt := j.run.out + " " + j.problem
	switch {
	case j.target.lang == "html" && j.feat["nonstring-map-key-value"] && strings.Contains(txt, "non-string type"):
		return "html-nonstring-map-key"
	case strings.HasPrefix(j.target.lang, "py") && j.feat["empty-service"] && strings.Contains(txt, "IndentationError"):
		return "python-empty-service"
	}
	return ""
}

func (j *c11Job) line() string { return "cc " + hx([]byte(j.bundle)) + " " + j.expect + " " + j.gen }

// c11CheckOutputs runs the well-formedness checkers over all ok jobs (batched per checker).
func c11CheckOutputs(scratch string, gm *c11GoMod, jobs []*c11Job) error {
	var wg sync.WaitGroup
	var mu sync.Mutex
	var firstErr error
	setErr := func(e error) {
		mu.Lock()
		if firstErr == nil {
			firstErr = e
		}
		mu.Unlock()
	}
	byKind := map[string][]*c11Job{}
	for _, j := range jobs {
		if j.run.class == "ok" {
			byKind[j.target.kind] = append(byKind[j.target.kind], j)
		}
	}
	// every ok run must have emitted at least one file
	for _, j := range jobs {
		if j.run.class == "ok" && len(c11FilesWithExt(j.outDir, "")) == 0 {
			j.problem = "exit 0 but no file was emitted"
		}
	}
	// Go output is generated into a fresh directory OUTSIDE any Go module (so that goimports, which
	// the generator runs on every file, cannot "repair" a missing import from packages lying around)
	// and only now moved into the scratch module for the type-check.
	for _, j := range byKind["go"] {
		dst := filepath.Join(gm.dir, "gen", j.tag)
		if j.outDir != dst {
			os.MkdirAll(filepath.Dir(dst), 0o755)
			if err := os.Rename(j.outDir, dst); err == nil {
				j.outDir = dst
			}
		}
	}
	// imports of the Python and Dart service / scope files
	for _, j := range jobs {
		if j.run.class == "ok" && j.problem == "" {
			if msg := c11ImportsPresent(j); msg != "" {
				j.problem = msg
			}
		}
	}
	wg.Add(1)
	go func() { // Go
		defer wg.Done()
		if len(byKind["go"]) == 0 {
			return
		}
		t0 := time.Now()
		errs, err := gm.build()
		StatN("go-build-ms", int(time.Since(t0).Milliseconds()))
		if err != nil {
			setErr(err)
			return
		}
		for _, j := range byKind["go"] {
			if e, ok := errs[j.tag]; ok && j.problem == "" {
				j.problem = "go output does not type-check: " + e
			}
		}
	}()
	pyRun := func(py2 bool, js []*c11Job, kinds map[string]string) {
		defer wg.Done()
		entries := [][2]string{}
		owner := map[string]*c11Job{}
		for _, j := range js {
			for ext, kind := range kinds {
				for _, f := range c11FilesWithExt(j.outDir, ext) {
					entries = append(entries, [2]string{kind, f})
					owner[f] = j
				}
			}
		}
		sort.Slice(entries, func(a, b int) bool { return entries[a][1] < entries[b][1] })
		errs, err := c11PyCheck(scratch, py2, entries)
		if err != nil {
			setErr(err)
			return
		}
		paths := make([]string, 0, len(errs))
		for p := range errs {
			paths = append(paths, p)
		}
		sort.Strings(paths)
		for _, p := range paths {
			if j := owner[p]; j != nil && j.problem == "" {
				j.problem = "emitted file " + filepath.Base(p) + " is not well-formed: " + errs[p]
			}
		}
	}
	py2jobs, py3jobs := byKind["py2"], append(append([]*c11Job{}, byKind["py3"]...), byKind["html"]...)
	if !c11HavePy2() {
		py3jobs = append(py3jobs, py2jobs...)
		py2jobs = nil
		Stat("checker:python2-absent-using-python3")
	}
	wg.Add(2)
	go pyRun(true, py2jobs, map[string]string{".py": "py"})
	go pyRun(false, py3jobs, map[string]string{".py": "py", ".html": "html"})
	wg.Add(1)
	go func() { // Java
		defer wg.Done()
		files := []string{}
		owner := map[string]*c11Job{}
		for _, j := range byKind["java"] {
			for _, f := range c11FilesWithExt(j.outDir, ".java") {
				files = append(files, f)
				owner[f] = j
			}
		}
		errs, err := c11JavaCheck(scratch, files)
		if err != nil {
			setErr(err)
			return
		}
		for _, f := range files {
			if e, ok := errs[f]; ok && owner[f].problem == "" {
				owner[f].problem = "emitted file " + filepath.Base(f) + " does not parse as Java: " + e
			}
		}
	}()
	// Dart, JSON in-process
	for _, j := range byKind["dart"] {
		for _, f := range c11FilesWithExt(j.outDir, ".dart", ".yaml") {
			b, _ := os.ReadFile(f)
			if strings.HasSuffix(f, ".dart") {
				if msg := c11Balance(string(b), true); msg != "" && j.problem == "" {
					j.problem = "emitted file " + filepath.Base(f) + " is not balanced Dart: " + msg
				}
			}
		}
	}
	for _, j := range byKind["json"] {
		for _, f := range c11FilesWithExt(j.outDir, ".json") {
			b, _ := os.ReadFile(f)
			var v interface{}
			if err := json.Unmarshal(b, &v); err != nil && j.problem == "" {
				j.problem = "emitted file " + filepath.Base(f) + " is not JSON: " + err.Error()
			}
		}
	}
	wg.Wait()
	return firstErr
}

// ---------------------------------------------------------------- oracle

// c11Verdict evaluates the property on one run. Returns "" when it holds, else what failed.
func c11Verdict(j *c11Job) string {
	cls := j.run.class
	switch j.expect {
	case "valid":
		if cls != "ok" {
			return "valid program: compiler ends with " + cls + " (" + j.target.lang + ")"
		}
		if j.problem != "" {
			return "valid program: " + c11ProblemClass(j.problem) + " (" + j.target.lang + ")"
		}
	case "invalid":
		if cls != "diagnostic" {
			return "invalid program: compiler ends with " + cls + " instead of a diagnostic"
		}
	case "lenient", "anytext":
		// kinds nothing validates / texts of unknown validity: never a crash, a hang or a silent failure
		if cls == "crash" || cls == "hang" || cls == "silent-failure" {
			return "input text: compiler ends with " + cls
		}
		if j.expect == "anytext" && cls == "recovered-panic" && !c11ToleratedPanic(j.run.out) {
			return "input text: compiler ends with recovered-panic (runtime error)"
		}
	}
	return ""
}

func c11ProblemClass(p string) string {
	if i := strings.Index(p, ":"); i > 0 {
		return p[:i]
	}
	return p
}

// Recovered panics tolerated on texts of unknown validity: the explicit panic(...) calls of
// constant-value generation (a value that does not fit its type, a reference that does not
// resolve) — the kinds nothing validates. Run-time errors (index, nil, slice) are not.
var c11ToleratedPanicRe = regexp.MustCompile(`interface conversion: interface \{\} is|referenced (constant|include|value)|no (struct|entry) for type|has unexpected type|non-string type|value not found|unexpected type \d+ referenced|[Uu]n(known|recognized|kown|know|supported) ([Tt]hrift )?type|not a valid thrift type|is not a primitive|IsSetNone`)

func c11ToleratedPanic(out string) bool { return c11ToleratedPanicRe.MatchString(out) }

func c11Report(j *c11Job, what string, extra map[string]interface{}) {
	d := map[string]interface{}{"line": j.line(), "op": "cc", "gen": j.gen, "class": j.run.class, "exit": j.run.rc,
		"output": c11Clip(j.run.out, 500), "idl": c11Clip(j.bundle, 1800), "wall_ms": j.run.dur.Milliseconds()}
	if j.problem != "" {
		d["problem"] = c11Clip(j.problem, 900)
	}
	for k, v := range extra {
		d[k] = v
	}
	if id := c11KnownClass(j); id != "" && j.expect == "valid" {
		d["known"] = id
		Stat("known-class:" + id)
	}
	OracleFail(what, d)
}

// ---------------------------------------------------------------- the suite

func c11Workers() int {
	n := runtime.NumCPU() / 2
	if n < 2 {
		n = 2
	}
	if n > 8 {
		n = 8
	}
	return n
}

type c11Task struct {
	job  *c11Job
	dir  string
	file string
}

func c11RunTasks(tasks []c11Task) {
	ch := make(chan c11Task)
	var wg sync.WaitGroup
	for w := 0; w < c11Workers(); w++ {
		wg.Add(1)
		go func() {
			defer wg.Done()
			for t := range ch {
				t.job.run = c11Compile(t.dir, t.file, t.job.gen, t.job.outDir)
			}
		}()
	}
	for _, t := range tasks {
		ch <- t
	}
	close(ch)
	wg.Wait()
}

func runC11(r *Rng, n int) { c11RunSuite(r, n, false) }

// runC11Inc: the "only mention of an include" sweep (totality_sweep.go), every program once; -n is ignored.
func runC11Inc(r *Rng, n int) {
	c11SweepMode = true
	c11RunSuite(r, len(c11Sweep()), true)
}

var c11SweepMode bool

// runC11Names: the full naming matrix, every applicable (name, position) once (development and
// thorough tier: `cc c11names`); -n is ignored.
func runC11Names(r *Rng, n int) { c11RunSuite(r, len(c11AllProbes()), true) }

func c11RunSuite(r *Rng, n int, namesOnly bool) {
	if _, err := os.Stat(c11Frugal()); err != nil {
		fmt.Fprintln(os.Stderr, "c11: compiler binary missing:", c11Frugal())
		os.Exit(3)
	}
	root, err := os.MkdirTemp("", "verif-c11-")
	if err != nil {
		fmt.Fprintln(os.Stderr, err)
		os.Exit(3)
	}
	defer os.RemoveAll(root)
	Stat("checker:java=" + map[bool]string{true: "javac-parser", false: "balance"}[c11JavaParseDir() != ""])
	Stat("checker:py2=" + map[bool]string{true: "python2.7", false: "python3"}[c11HavePy2()])

	c11KnownWitnesses(root)

	// the cover runs in the first job of a run only (bin/check gives job k the seed seed*1000+k)
	var cover [][]c11Probe
	if !namesOnly && c11SeedArg()%1000 == 0 {
		cover = c11Cover()
		StatN("probe-cover-programs", len(cover))
	}
	cfg := c11GenCfg{maxFiles: 3, maxDecl: 7, maxFields: 6, maxChain: 12}
	const batch = 24
	for start := 0; start < n; start += batch {
		end := start + batch
		if end > n {
			end = n
		}
		broot := filepath.Join(root, "b"+strconv.Itoa(start))
		gm, err := c11NewGoMod(broot)
		if err != nil {
			fmt.Fprintln(os.Stderr, "c11: scratch module:", err)
			os.Exit(3)
		}
		var jobs []*c11Job
		var tasks []c11Task
		// (A) valid programs
		for i := start; i < end; i++ {
			if i%10 == 9 {
				cfg.maxChain = 60
			} else {
				cfg.maxChain = 12
			}
			var p *c11GProg
			var ctxs []*c11FileCtx
			var probes []c11Probe
			all := c11AllProbes()
			switch {
			case c11SweepMode:
			case namesOnly:
				probes = []c11Probe{all[i]}
			case i < len(cover):
				probes = cover[i] // every clean (name, position) combination, every run
			case r.Chance(25):
				probes = []c11Probe{all[r.Intn(len(all))]} // incl. the recorded failing ones
			}
			if c11SweepMode {
				sw := c11Sweep()[i]
				p = sw.prog
				Stat("sweep-carrier:" + sw.carrier)
				Stat("sweep-position:" + sw.position)
				Stat("sweep-kind:" + sw.kind)
			} else if probes != nil {
				p = c11ProbeProgMulti(probes)
				StatN("probe-combinations", len(probes))
			} else {
				p, ctxs = c11GenProg(r, cfg)
			}
			files, order := p.render()
			dir := filepath.Join(broot, "idl", "p"+strconv.Itoa(i))
			if err := c11WriteFiles(dir, files); err != nil {
				fmt.Fprintln(os.Stderr, err)
				os.Exit(3)
			}
			bundle := c11Bundle(files, order)
			c11ProgStats(p)
			c11ModelCases(r, p, ctxs, files, order[0], "ok")
			if i < 2 {
				Sample(map[string]interface{}{"valid_program": c11Clip(bundle, 1500)})
			}
			for ti, t := range c11Targets {
				subsets := [][]string{{}, c11Subset(r, t.opts)}
				for k, opts := range subsets {
					tag := fmt.Sprintf("p%dt%do%d", i, ti, k)
					outDir := filepath.Join(broot, "out", tag)
					goPrefix := ""
					if t.lang == "go" {
						goPrefix = c11ModName + "/gen/" + tag + "/" // generated OUTSIDE the module, moved in for the type-check
					}
					j := &c11Job{prog: i, tag: tag, target: t, gen: c11GenArg(t, opts, goPrefix), outDir: outDir, bundle: bundle, expect: "valid", feat: p.feat, probes: probes}
					jobs = append(jobs, j)
					tasks = append(tasks, c11Task{j, dir, order[0]})
					Stat("target:" + t.lang)
					StatN("option-subset-size:"+strconv.Itoa(len(opts)), 1)
				}
			}
		}
		// (B) invalid side
		for i := start; i < end && !namesOnly; i++ {
			base, _ := c11GenProg(r, c11GenCfg{maxFiles: 2, maxDecl: 4, maxFields: 4, maxChain: 4})
			// one checked kind, one unchecked kind
			kinds := []struct {
				kind, expect string
			}{{c11CheckedKinds[(i+int(r.U64()%7))%len(c11CheckedKinds)], "invalid"}, {c11UncheckedKinds[(i+int(r.U64()%5))%len(c11UncheckedKinds)], "lenient"}}
			for ki, kd := range kinds {
				p := c11CloneProg(base)
				if !c11Inject(r, p, kd.kind) {
					Stat("invalid-kind-not-applicable:" + kd.kind)
					continue
				}
				Stat("invalid-kind:" + kd.kind)
				files, order := p.render()
				dir := filepath.Join(broot, "idl", fmt.Sprintf("x%dk%d", i, ki))
				c11WriteFiles(dir, files)
				if kd.expect == "invalid" {
					c11ModelCases(r, p, nil, files, order[0], kd.kind)
				}
				t := c11Targets[r.Pick(0, 0, 0, 1, 2, 3, 4, 5, 6, 7)]
				tag := fmt.Sprintf("x%dk%d", i, ki)
				j := &c11Job{prog: i, tag: tag, target: t, gen: c11GenArg(t, nil, "x/"), outDir: filepath.Join(broot, "out", tag),
					bundle: c11Bundle(files, order), expect: kd.expect}
				jobs = append(jobs, j)
				tasks = append(tasks, c11Task{j, dir, order[0]})
			}
			// mutated valid text (2) and arbitrary text (1)
			vf, vo := base.render()
			for m := 0; m < 3; m++ {
				files := map[string]string{}
				for k, v := range vf {
					files[k] = v
				}
				kind := "mutated"
				if m == 2 {
					files = map[string]string{"prog.frugal": c11ArbitraryText(r)}
					vo = []string{"prog.frugal"}
					kind = "arbitrary"
				} else {
					victim := vo[r.Intn(len(vo))]
					files[victim] = c11MutateText(r, files[victim])
				}
				Stat("text-kind:" + kind)
				dir := filepath.Join(broot, "idl", fmt.Sprintf("m%dk%d", i, m))
				c11WriteFiles(dir, files)
				t := c11Targets[r.Pick(0, 0, 0, 1, 2, 3, 4, 5, 6, 7)]
				tag := fmt.Sprintf("m%dk%d", i, m)
				j := &c11Job{prog: i, tag: tag, target: t, gen: c11GenArg(t, nil, "x/"), outDir: filepath.Join(broot, "out", tag),
					bundle: c11Bundle(files, vo), expect: "anytext"}
				jobs = append(jobs, j)
				tasks = append(tasks, c11Task{j, dir, vo[0]})
			}
		}
		c11RunTasks(tasks)
		// go outputs of invalid-side runs never enter the module (their -out is elsewhere)
		if err := c11CheckOutputs(broot, gm, jobs); err != nil {
			fmt.Fprintln(os.Stderr, "c11: checker failure:", err)
			os.Exit(3)
		}
		for _, j := range jobs {
			Stat("evaluations")
			Stat("outcome:" + j.expect + ":" + j.run.class)
			StatN("compile-ms", int(j.run.dur.Milliseconds()))
			if what := c11Verdict(j); what != "" {
				if len(j.probes) == 1 {
					Stat("probefail|" + j.probes[0].pos + "|" + j.probes[0].name + "|" + j.target.lang + "|" + c11FailShape(j))
				}
				c11Report(j, what, nil)
			} else if len(j.probes) == 1 && j.expect == "valid" && c11ProbeKnown(j.probes[0], j.target.lang) != "" {
				Stat("probe-known-but-passes|" + j.probes[0].pos + "|" + j.probes[0].name + "|" + j.target.lang)
			}
		}
		os.RemoveAll(broot)
	}
}

var c11ShapeRe = regexp.MustCompile(`[A-Za-z_][A-Za-z0-9_]*|[0-9]+`)

// c11FailShape: a short, name-independent shape of the failure (development statistics).
func c11FailShape(j *c11Job) string {
	msg := j.problem
	if msg == "" {
		msg = j.run.class + ": " + j.run.out
	}
	lines := strings.Split(msg, "\n")
	first := lines[0]
	if strings.HasPrefix(first, "go output does not type-check") && len(lines) > 0 {
		first = strings.TrimPrefix(first, "go output does not type-check: ")
		if i := strings.Index(first, ": "); i >= 0 {
			first = "go: " + first[i+2:]
		}
	}
	first = strings.Replace(first, "\t", " ", -1)
	if len(first) > 110 {
		first = first[:110]
	}
	return first
}

var (
	c11PyUseRe  = regexp.MustCompile(`([A-Za-z_][A-Za-z0-9_.]*)\.ttypes\.[A-Za-z_]`)
	c11DartUseRe = regexp.MustCompile(`\bt_([A-Za-z0-9_]+)\.[A-Za-z_]`)
)

// c11ImportsPresent: every module / library prefix a Python or Dart file uses for the types of an
// include is imported by that file (a missing import is not a syntax error, so the parsers above
// do not see it). "" = fine.
func c11ImportsPresent(j *c11Job) string {
	switch {
	case strings.HasPrefix(j.target.lang, "py"):
		for _, f := range c11FilesWithExt(j.outDir, ".py") {
			b, _ := os.ReadFile(f)
			src := string(b)
			for _, m := range c11PyUseRe.FindAllStringSubmatch(src, -1) {
				mod := m[1]
				if strings.Contains(src, "import "+mod+".ttypes") || strings.Contains(src, "from "+mod+".ttypes import") ||
					strings.Contains(src, "from "+mod+" import ttypes") {
					continue
				}
				// `from .ttypes import *` re-exports the modules the package's ttypes.py imports (it has no __all__)
				if strings.Contains(src, "from .ttypes import *") {
					tb, _ := os.ReadFile(filepath.Join(filepath.Dir(f), "ttypes.py"))
					if strings.Contains(string(tb), "import "+mod+".ttypes") && !strings.Contains(string(tb), "__all__") {
						continue
					}
				}
				return "emitted file " + filepath.Base(f) + " uses " + mod + ".ttypes without importing it"
			}
		}
	case j.target.lang == "dart":
		for _, f := range c11FilesWithExt(j.outDir, ".dart") {
			b, _ := os.ReadFile(f)
			src := string(b)
			for _, m := range c11DartUseRe.FindAllStringSubmatch(src, -1) {
				if !strings.Contains(src, " as t_"+m[1]+";") {
					return "emitted file " + filepath.Base(f) + " uses the library prefix t_" + m[1] + " without importing it"
				}
			}
		}
	}
	return ""
}

func c11ProgStats(p *c11GProg) {
	StatN("files", len(p.files))
	for _, f := range p.files {
		StatN("typedefs", len(f.typedefs))
		StatN("enums", len(f.enums))
		StatN("structlikes", len(f.structs))
		StatN("constants", len(f.consts))
		StatN("services", len(f.services))
		StatN("scopes", len(f.scopes))
		StatN("includes", len(f.includes))
	}
}

func c11CloneProg(p *c11GProg) *c11GProg {
	q := &c11GProg{}
	for _, f := range p.files {
		g := *f
		g.includes = append([]string{}, f.includes...)
		g.typedefs = append([]*c11GTypedef{}, f.typedefs...)
		g.enums = nil
		for _, e := range f.enums {
			ec := *e
			ec.vals = append([]string{}, e.vals...)
			ec.nums = append([]int{}, e.nums...)
			g.enums = append(g.enums, &ec)
		}
		g.structs = nil
		for _, s := range f.structs {
			sc := *s
			sc.fields = append([]*c11GField{}, s.fields...)
			g.structs = append(g.structs, &sc)
		}
		g.consts = append([]*c11GConst{}, f.consts...)
		g.services = nil
		for _, s := range f.services {
			sc := *s
			sc.methods = append([]*c11GMethod{}, s.methods...)
			g.services = append(g.services, &sc)
		}
		g.scopes = nil
		for _, s := range f.scopes {
			sc := *s
			sc.ops = append([]*c11GOp{}, s.ops...)
			g.scopes = append(g.scopes, &sc)
		}
		q.files = append(q.files, &g)
	}
	return q
}

// ---------------------------------------------------------------- replay of one `cc` line

func c11ReplayCC(args []string) (string, bool) {
	if len(args) != 3 {
		return "bad-op", true
	}
	c11ReplayBundle(string(unhxSafe(args[0])), args[1], args[2], nil)
	return "run", true
}

func c11SeedArg() uint64 {
	for i, a := range os.Args {
		if a == "-seed" && i+1 < len(os.Args) {
			v, _ := strconv.ParseUint(os.Args[i+1], 10, 64)
			return v
		}
	}
	return 1
}

func c11ReplayBundle(bundle, expect, gen string, probe *c11Probe) (string, bool) {
	files, order := c11Unbundle(bundle)
	if len(order) == 0 {
		return "run", true
	}
	root, err := os.MkdirTemp("", "verif-c11-replay-")
	if err != nil {
		return "run", true
	}
	defer os.RemoveAll(root)
	dir := filepath.Join(root, "idl")
	c11WriteFiles(dir, files)
	lang := gen
	if i := strings.IndexAny(gen, ":"); i >= 0 {
		lang = gen[:i]
		if strings.HasPrefix(gen, "py:asyncio") || strings.HasPrefix(gen, "py:tornado") {
			lang = gen[:10]
		}
	}
	var t c11Target
	found := false
	for _, x := range c11Targets {
		if x.lang == lang {
			t, found = x, true
		}
	}
	if !found {
		t = c11Target{lang: lang, kind: "none"}
	}
	j := &c11Job{tag: "r0", target: t, gen: gen, outDir: filepath.Join(root, "out", "r0"), bundle: bundle, expect: expect}
	if probe != nil {
		j.probes = []c11Probe{*probe}
	}
	var gm *c11GoMod
	if t.kind == "go" && expect == "valid" {
		gm, err = c11NewGoMod(root)
		if err != nil {
			return "run", true
		}
		// the package prefix of the recorded line is rewritten to this scratch module
		opts := []string{}
		if i := strings.Index(gen, ":"); i >= 0 {
			for _, o := range strings.Split(gen[i+1:], ",") {
				if !strings.HasPrefix(o, "package_prefix=") && o != "" {
					opts = append(opts, o)
				}
			}
		}
		j.gen = c11GenArg(t, opts, c11ModName+"/gen/r0/")
	}
	j.run = c11Compile(dir, order[0], j.gen, j.outDir)
	j.gen = gen
	if j.run.class == "ok" && expect == "valid" {
		if gm == nil {
			gm = &c11GoMod{dir: filepath.Join(root, "unused")}
		}
		if err := c11CheckOutputs(root, gm, []*c11Job{j}); err != nil {
			fmt.Fprintln(os.Stderr, "c11: checker failure:", err)
			os.Exit(3)
		}
	}
	what := c11Verdict(j)
	if what != "" {
		c11Report(j, what, nil)
	}
	return "run", true // the failure (if any) has been reported with its own `what`
}

func unhxSafe(s string) (b []byte) {
	defer func() {
		if recover() != nil {
			b = nil
		}
	}()
	return unhx(s)
}

func c11Clip(s string, n int) string {
	if len(s) <= n {
		return s
	}
	return s[:n] + fmt.Sprintf("...(%d bytes)", len(s))
}

func init() {
	suites["c11"] = runC11
	suites["c11names"] = runC11Names
	suites["c11inc"] = runC11Inc
	lineOps["cc"] = c11ReplayCC
}
