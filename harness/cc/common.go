package main

import (
	"bufio"
	"encoding/hex"
	"encoding/json"
	"fmt"
	"os"
	"sort"
	"strings"
	"sync"
	"time"
)

// ---------- PRNG (splitmix64): every random choice of a run derives from one state ----------

type Rng struct{ s uint64 }

func NewRng(seed uint64) *Rng {
	// run the seed through the splitmix finaliser so that neighbouring seeds give unrelated streams
	z := seed + 0x9E3779B97F4A7C15
	z = (z ^ (z >> 30)) * 0xBF58476D1CE4E5B9
	z = (z ^ (z >> 27)) * 0x94D049BB133111EB
	return &Rng{s: z ^ (z >> 31)}
}

func (r *Rng) U64() uint64 {
	r.s += 0x9E3779B97F4A7C15
	z := r.s
	z = (z ^ (z >> 30)) * 0xBF58476D1CE4E5B9
	z = (z ^ (z >> 27)) * 0x94D049BB133111EB
	return z ^ (z >> 31)
}
func (r *Rng) Intn(n int) int {
	if n <= 0 {
		return 0
	}
	return int(r.U64() % uint64(n))
}
func (r *Rng) Bool() bool        { return r.U64()&1 == 1 }
func (r *Rng) Chance(p int) bool { return r.Intn(100) < p }
func (r *Rng) Bytes(n int) []byte {
	b := make([]byte, n)
	for i := range b {
		b[i] = byte(r.U64())
	}
	return b
}
func (r *Rng) Pick(xs ...int) int { return xs[r.Intn(len(xs))] }

// ---------- output protocol ----------

var (
	outMu    sync.Mutex
	out      = bufio.NewWriterSize(os.Stdout, 1<<20)
	stats    = map[string]int{}
	nSamples = 0
)

// Case emits one correspondence case: the Lean driver is fed `in` and must print `real`.
func Case(in, real string) {
	outMu.Lock()
	defer outMu.Unlock()
	fmt.Fprintf(out, "C\t%s\t%s\n", in, real)
}

// OracleFail reports a violation of the property itself on a real output.
func OracleFail(what string, detail map[string]interface{}) {
	outMu.Lock()
	defer outMu.Unlock()
	detail["what"] = what
	b, _ := json.Marshal(detail)
	fmt.Fprintf(out, "O\t%s\n", b)
	out.Flush()
}

// Known reports that a listed known-finding witness still fails.
func Known(id, what string) {
	outMu.Lock()
	defer outMu.Unlock()
	fmt.Fprintf(out, "K\t%s\t%s\n", id, what)
}

func Stat(key string)         { outMu.Lock(); stats[key]++; outMu.Unlock() }
func StatN(key string, n int) { outMu.Lock(); stats[key] += n; outMu.Unlock() }

func Sample(v interface{}) {
	outMu.Lock()
	defer outMu.Unlock()
	if nSamples >= 6 {
		return
	}
	nSamples++
	b, _ := json.Marshal(v)
	fmt.Fprintf(out, "X\t%s\n", b)
}

func Finish() {
	outMu.Lock()
	defer outMu.Unlock()
	keys := make([]string, 0, len(stats))
	for k := range stats {
		keys = append(keys, k)
	}
	sort.Strings(keys)
	for _, k := range keys {
		fmt.Fprintf(out, "S\t%s\t%d\n", k, stats[k])
	}
	out.Flush()
}

// ---------- canonical forms ----------

func hx(b []byte) string {
	if len(b) == 0 {
		return "-"
	}
	return hex.EncodeToString(b)
}

func unhx(s string) []byte {
	if s == "-" || s == "" {
		return []byte{}
	}
	b, err := hex.DecodeString(s)
	if err != nil {
		panic("bad hex " + s)
	}
	return b
}

// pairs renders a header map sorted by key: k:v;k:v in hex, "-" for the empty map.
func pairs(m map[string]string) string {
	if len(m) == 0 {
		return "-"
	}
	keys := make([]string, 0, len(m))
	for k := range m {
		keys = append(keys, k)
	}
	sort.Strings(keys)
	parts := make([]string, len(keys))
	for i, k := range keys {
		parts[i] = hex.EncodeToString([]byte(k)) + ":" + hex.EncodeToString([]byte(m[k]))
	}
	return strings.Join(parts, ";")
}

type kv struct{ k, v string }

func pairsList(l []kv) string {
	if len(l) == 0 {
		return "-"
	}
	parts := make([]string, len(l))
	for i, p := range l {
		parts[i] = hex.EncodeToString([]byte(p.k)) + ":" + hex.EncodeToString([]byte(p.v))
	}
	return strings.Join(parts, ";")
}

func parsePairs(s string) []kv {
	if s == "-" || s == "" {
		return nil
	}
	var out []kv
	for _, p := range strings.Split(s, ";") {
		i := strings.IndexByte(p, ':')
		out = append(out, kv{string(unhx(p[:i])), string(unhx(p[i+1:]))})
	}
	return out
}

// guard runs f under recover and a watchdog; returns "", "panic:<class>" or "blocked".
func guard(d time.Duration, f func()) (outcome string) {
	done := make(chan string, 1)
	go func() {
		defer func() {
			if r := recover(); r != nil {
				done <- "panic:" + panicClass(r)
			}
		}()
		f()
		done <- ""
	}()
	select {
	case o := <-done:
		return o
	case <-time.After(d):
		return "blocked"
	}
}

func panicClass(r interface{}) string {
	s := fmt.Sprint(r)
	switch {
	case strings.Contains(s, "slice bounds out of range"):
		return "sliceBounds"
	case strings.Contains(s, "makeslice"):
		return "makeNegative"
	case strings.Contains(s, "index out of range"):
		return "index"
	case strings.Contains(s, "closed channel"):
		return "closedChan"
	case strings.Contains(s, "nil map"):
		return "nilMap"
	}
	return "other"
}

// exact returns a copy of b whose capacity equals its length (the least
// permissive case for Go's slice bound checks, and the one the model describes).
func exact(b []byte) []byte {
	c := make([]byte, len(b))
	copy(c, b)
	return c[:len(b):len(b)]
}

func be32(n uint32) []byte { return []byte{byte(n >> 24), byte(n >> 16), byte(n >> 8), byte(n)} }

// clip returns the first space-separated token of o.
func clip(o string) string {
	for i := 0; i < len(o); i++ {
		if o[i] == ' ' {
			return o[:i]
		}
	}
	return o
}
