package main

// C10 — generator of random well-formed IDL models (see parser.go for the model).
// Every random choice comes from the *Rng.

import (
	"strings"
)

var pxKwPrefixes = []string{"bool", "byte", "i16", "i32", "i64", "double", "string", "binary", "void", "oneway", "required", "optional", "true", "false"}

var pxReserved = map[string]bool{"include": true, "namespace": true, "const": true, "enum": true, "typedef": true, "struct": true,
	"exception": true, "union": true, "service": true, "scope": true, "extends": true, "throws": true, "prefix": true,
	"list": true, "set": true, "map": true, "cpp_type": true, "i8": true}

var pxWords = []string{"user", "Event", "album", "Track", "id", "name", "Item", "value", "req", "Resp", "err", "Foo", "bar", "Baz",
	"x", "y", "k", "v", "T", "kind", "Color", "RED", "data", "msg", "ping", "Store", "buy", "Purchase", "ctx", "node", "Tree",
	"leaf", "Q", "zeta", "alpha", "Beta", "mapper", "lister", "setter", "stringer", "inty", "boolean", "Voider", "structure", "enumX",
	"constant", "typedefs", "includes", "extendsion", "throwsy", "prefixed", "scoped", "serviceable", "unionized", "Bytes", "I32", "Double"}

// pxHasKwPrefix: the identifier has one of the unbounded keyword literals of the grammar as a
// proper prefix (or is equal to it) — the class of the recorded finding keyword-prefix-identifier.
func pxHasKwPrefix(s string) bool {
	for _, k := range pxKwPrefixes {
		if strings.HasPrefix(s, k) {
			return true
		}
	}
	return false
}

type pxGen struct {
	r    *Rng
	used map[string]bool
	big  bool // thorough tier: larger models, deeper types
}

func (g *pxGen) rawIdent() string {
	r := g.r
	w := pxWords[r.Intn(len(pxWords))]
	switch r.Intn(12) {
	case 0:
		return "_" + w
	case 1:
		return w + "_"
	case 2:
		return w + "_" + pxWords[r.Intn(len(pxWords))]
	case 3:
		return w + string(rune('0'+r.Intn(10)))
	case 4:
		return "_" + string(rune('0'+r.Intn(10))) + w
	case 5:
		return strings.Repeat("_", 1+r.Intn(3))
	case 6:
		return w + "__" + string(rune('a'+r.Intn(26))) + string(rune('0'+r.Intn(10)))
	case 7:
		return strings.ToUpper(w) + "_" + string(rune('A'+r.Intn(26)))
	case 8:
		return string(rune('a'+r.Intn(26))) + string(rune('A'+r.Intn(26)))
	case 9:
		return w + pxWords[r.Intn(len(pxWords))] + string(rune('0'+r.Intn(10))) + string(rune('0'+r.Intn(10)))
	}
	return w
}

// ident returns a fresh identifier (unique in the file ignoring case) without a keyword prefix.
func (g *pxGen) ident() string {
	for i := 0; ; i++ {
		s := g.rawIdent()
		if i > 20 {
			s += string(rune('a'+g.r.Intn(26))) + string(rune('0'+g.r.Intn(10))) + string(rune('0'+g.r.Intn(10)))
		}
		if pxHasKwPrefix(s) || pxReserved[s] || g.used[strings.ToLower(s)] {
			continue
		}
		g.used[strings.ToLower(s)] = true
		return s
	}
}

// localIdent: a name that only has to be unique in a small scope (field, enum value, method).
func (g *pxGen) localIdent(seen map[string]bool) string {
	for i := 0; ; i++ {
		s := g.rawIdent()
		if i > 20 {
			s += string(rune('a'+g.r.Intn(26))) + string(rune('0'+g.r.Intn(10)))
		}
		if pxHasKwPrefix(s) || pxReserved[s] || seen[strings.ToLower(s)] {
			continue
		}
		seen[strings.ToLower(s)] = true
		return s
	}
}

var pxStrAlphabet = []rune("abcXYZ019 _-.,:;!?()[]{}<>/*#@=+&|~^%$`")

// text: a string value: printable ASCII incl. both quotes and backslash, \n, \t, some non-ASCII.
func (g *pxGen) text(max int) string {
	r := g.r
	n := r.Intn(max + 1)
	var b []rune
	for i := 0; i < n; i++ {
		switch r.Intn(14) {
		case 0:
			b = append(b, '"')
		case 1:
			b = append(b, '\'')
		case 2:
			b = append(b, '\\')
		case 3:
			b = append(b, []rune{'\n', '\t', 'é', '日', 'ß', '€'}[r.Intn(6)])
		default:
			b = append(b, pxStrAlphabet[r.Intn(len(pxStrAlphabet))])
		}
	}
	// a value ending in a backslash is the recorded finding literal-trailing-backslash
	for len(b) > 0 && b[len(b)-1] == '\\' {
		b = b[:len(b)-1]
	}
	return string(b)
}

var pxAnnNames = []string{"deprecated", "go.tag", "java.swift.mutable", "cpp.type", "a", "b_c", "x1", "Anno", "py.immutable", "_k"}

func (g *pxGen) anns(p int) []pxAnn {
	if !g.r.Chance(p) {
		return nil
	}
	n := 1 + g.r.Intn(3)
	out := make([]pxAnn, n)
	for i := range out {
		out[i].Name = pxAnnNames[g.r.Intn(len(pxAnnNames))]
		if g.r.Chance(75) {
			out[i].Value = g.text(8)
		}
	}
	return out
}

var pxDocWords = []string{"the", "Returns", "a", "value;", "see", "RFC-1", "(optional)", "id", "x*y", "a/b", "#tag", "//no", "日本", "ok.", "@param", "**bold**", "\"q\"", "it's"}

func (g *pxGen) docLine() string {
	n := 1 + g.r.Intn(5)
	w := make([]string, n)
	for i := range w {
		w[i] = pxDocWords[g.r.Intn(len(pxDocWords))]
	}
	s := strings.Join(w, " ")
	s = strings.TrimLeft(s, "* ")
	if s == "" {
		s = "d"
	}
	return s
}

// doc: nil (none), [""] (empty doc comment) or lines; first and last line non-empty.
func (g *pxGen) doc(p int) []string {
	if !g.r.Chance(p) {
		return nil
	}
	if g.r.Chance(6) {
		return []string{""}
	}
	n := 1 + g.r.Intn(3)
	out := make([]string, n)
	for i := range out {
		if i > 0 && i < n-1 && g.r.Chance(20) {
			continue
		}
		out[i] = g.docLine()
	}
	return out
}

var pxBaseNames = []string{"bool", "byte", "i16", "i32", "i64", "double", "string", "binary"}

func (g *pxGen) typ(pool []string, depth int) *pxType {
	r := g.r
	k := r.Intn(100)
	switch {
	case k < 45 || depth <= 0 && len(pool) == 0:
		if r.Chance(3) {
			return &pxType{Kind: pxTNamed, Name: "i8"} // a base type to the validator, an Identifier to the grammar
		}
		return &pxType{Kind: pxTBase, Name: pxBaseNames[r.Intn(8)], Anns: g.anns(8)}
	case k < 70 && len(pool) > 0 || depth <= 0:
		return &pxType{Kind: pxTNamed, Name: pool[r.Intn(len(pool))]}
	case k < 82:
		return &pxType{Kind: pxTList, V: g.typ(pool, depth-1), Anns: g.anns(6)}
	case k < 90:
		return &pxType{Kind: pxTSet, V: g.typ(pool, depth-1), Anns: g.anns(6)}
	}
	return &pxType{Kind: pxTMap, K: g.typ(pool, depth-1), V: g.typ(pool, depth-1), Anns: g.anns(6)}
}

func (g *pxGen) depth() int {
	if g.big && g.r.Chance(10) {
		return 3 + g.r.Intn(6)
	}
	return g.r.Intn(4)
}

func (g *pxGen) intConst() *pxConst {
	r := g.r
	var v int64
	switch r.Intn(10) {
	case 0:
		v = 0
	case 1:
		v = -int64(r.Intn(1000))
	case 2:
		v = int64(r.U64() >> 1)
	case 3:
		v = -int64(r.U64()>>1) - 1
	case 4:
		v = int64(1) << uint(r.Intn(63))
	default:
		v = int64(r.Intn(100000))
	}
	return &pxConst{Kind: 'i', I: v}
}

func (g *pxGen) doubleConst() *pxConst {
	r := g.r
	n := 1 + r.Intn(9)
	d := make([]byte, n)
	for i := range d {
		d[i] = byte('0' + r.Intn(10))
	}
	if r.Chance(5) {
		d = []byte("0")
	}
	return &pxConst{Kind: 'd', Neg: r.Chance(30), Digits: string(d), Exp: r.Intn(25) - 12}
}

type pxEnv struct {
	types  []string            // every type name that may be referenced (local and include-qualified)
	consts []string            // constant names that may be referenced from a top-level constant
	enumv  []string            // Enum.VALUE / inc.Enum.VALUE references
	kindOf map[string]string   // type name -> enum|struct|union|exception|typedef
	valsOf map[string][]string // enum name -> value names
}

// constFor: a value in the spirit of the type (the parser does not type-check values).
func (g *pxGen) constFor(t *pxType, env *pxEnv, depth int, top bool) *pxConst {
	r := g.r
	if r.Chance(6) && len(env.consts) > 0 {
		return &pxConst{Kind: 'r', S: env.consts[r.Intn(len(env.consts))]}
	}
	switch t.Kind {
	case pxTBase:
		switch t.Name {
		case "bool":
			if r.Chance(80) {
				return &pxConst{Kind: 'b', B: r.Bool()}
			}
			return &pxConst{Kind: 'i', I: int64(r.Intn(2))}
		case "double":
			if r.Chance(75) {
				return g.doubleConst()
			}
			return g.intConst()
		case "string", "binary":
			return &pxConst{Kind: 's', S: g.text(12)}
		}
		return g.intConst()
	case pxTList, pxTSet:
		n := r.Intn(4)
		if depth <= 0 {
			n = 0
		}
		c := &pxConst{Kind: 'l'}
		for i := 0; i < n; i++ {
			c.L = append(c.L, g.constFor(t.V, env, depth-1, false))
		}
		return c
	case pxTMap:
		n := r.Intn(3)
		if depth <= 0 {
			n = 0
		}
		c := &pxConst{Kind: 'm'}
		for i := 0; i < n; i++ {
			c.M = append(c.M, [2]*pxConst{g.constFor(t.K, env, depth-1, false), g.constFor(t.V, env, depth-1, false)})
		}
		return c
	}
	// named
	if vs, ok := env.valsOf[t.Name]; ok && len(vs) > 0 && r.Chance(70) {
		return &pxConst{Kind: 'r', S: t.Name + "." + vs[r.Intn(len(vs))]}
	}
	switch env.kindOf[t.Name] {
	case "enum":
		return &pxConst{Kind: 'i', I: int64(r.Intn(5))}
	case "struct", "union", "exception":
		c := &pxConst{Kind: 'm'}
		for i, n := 0, r.Intn(3); i < n && depth > 0; i++ {
			c.M = append(c.M, [2]*pxConst{{Kind: 's', S: pxWords[r.Intn(len(pxWords))]}, g.scalar()})
		}
		return c
	}
	return g.scalar()
}

func (g *pxGen) scalar() *pxConst {
	switch g.r.Intn(4) {
	case 0:
		return &pxConst{Kind: 's', S: g.text(8)}
	case 1:
		return g.doubleConst()
	case 2:
		return &pxConst{Kind: 'b', B: g.r.Bool()}
	}
	return g.intConst()
}

func (g *pxGen) fieldID(i int, seen map[int]bool) int {
	r := g.r
	for {
		id := i + 1
		switch r.Intn(12) {
		case 0:
			id = -(i + 1)
		case 1:
			id = r.Intn(32768)
		case 2:
			id = (i + 1) * 10
		case 3:
			id = 0
		}
		if !seen[id] {
			seen[id] = true
			return id
		}
	}
}

func (g *pxGen) fields(n int, env *pxEnv, pool []string, withMod bool) []*pxField {
	seenN, seenI := map[string]bool{}, map[int]bool{}
	out := make([]*pxField, n)
	for i := range out {
		f := &pxField{Doc: g.doc(10), ID: g.fieldID(i, seenI), Name: g.localIdent(seenN), Mod: pxDefault, Anns: g.anns(10)}
		if withMod {
			f.Mod = g.r.Pick(pxRequired, pxOptional, pxDefault, pxDefault)
		}
		f.Type = g.typ(pool, g.depth())
		if g.r.Chance(25) {
			f.Default = g.constFor(f.Type, env, 2, false)
		}
		out[i] = f
	}
	return out
}

var pxNsScopes = []string{"go", "java", "py", "dart", "*", "cpp", "js", "py.twisted", "rb", "perl", "php", "csharp", "cocoa", "d", "lua", "erl", "hs", "st", "c-glib", "a.b-c", "-", "..", "html"}
var pxPrefixWords = []string{"v1", "foo", "bar", "events", "a-b", "X_1", "9", "frugal", "x/y", "a:b", "t#1", "$u", "*", ">", "é", "a,b", "p;q", "(z)", "q=1"}

func (g *pxGen) count(max int) int {
	if g.big {
		max += 2
	}
	return g.r.Intn(max + 1)
}

// file generates one file; incs are already generated files it may include.
func (g *pxGen) file(name string, incs []*pxInclude) *pxFile {
	r := g.r
	g.used = map[string]bool{}
	f := &pxFile{Name: name, Includes: incs}
	// recorded finding include-typedef-hop-circular: a typedef of this file named like a type declared in
	// a reachable included file can be rejected as "Circular typedef" (hops of the included file's typedefs
	// are resolved in the including file). The class is excluded: such names are not reused here.
	var mark func(in []*pxInclude)
	mark = func(in []*pxInclude) {
		for _, inc := range in {
			if inc.File == nil {
				continue
			}
			for _, e := range inc.File.Enums {
				g.used[strings.ToLower(e.Name)] = true
			}
			for _, x := range inc.File.Structs {
				g.used[strings.ToLower(x.Name)] = true
			}
			for _, t := range inc.File.Typedefs {
				g.used[strings.ToLower(t.Name)] = true
			}
			mark(inc.File.Includes)
		}
	}
	mark(incs)
	env := &pxEnv{kindOf: map[string]string{}, valsOf: map[string][]string{}}
	for _, inc := range incs {
		in := pxIncludeName(inc.Path)
		g.used[strings.ToLower(in)] = true
		if inc.File == nil {
			continue
		}
		for _, e := range inc.File.Enums {
			env.types = append(env.types, in+"."+e.Name)
			env.kindOf[in+"."+e.Name] = "enum"
			for _, v := range e.Values {
				env.valsOf[in+"."+e.Name] = append(env.valsOf[in+"."+e.Name], v.Name)
			}
		}
		for _, s := range inc.File.Structs {
			env.types = append(env.types, in+"."+s.Name)
			env.kindOf[in+"."+s.Name] = s.Kind
		}
		for _, t := range inc.File.Typedefs {
			env.types = append(env.types, in+"."+t.Name)
			env.kindOf[in+"."+t.Name] = "typedef"
		}
		for _, c := range inc.File.Constants {
			env.consts = append(env.consts, in+"."+c.Name)
		}
	}
	// names first (forward references are legal), bodies afterwards
	nEnum, nStruct, nTd, nConst := g.count(3), g.count(4), g.count(3), g.count(4)
	for i := 0; i < nEnum; i++ {
		e := &pxEnum{Doc: g.doc(20), Name: g.ident(), Anns: g.anns(10)}
		seen := map[string]bool{}
		for j, n := 0, r.Intn(6); j < n; j++ {
			v := &pxEnumValue{Doc: g.doc(8), Name: g.localIdent(seen), Anns: g.anns(8)}
			switch r.Intn(8) {
			case 0, 1, 2:
				v.Explicit, v.Value = true, j*(1+r.Intn(3))
			case 3:
				v.Explicit, v.Value = true, r.Intn(40)-20 // decreasing / negative explicit values
			}
			e.Values = append(e.Values, v)
			env.valsOf[e.Name] = append(env.valsOf[e.Name], v.Name)
		}
		f.Enums = append(f.Enums, e)
		env.types = append(env.types, e.Name)
		env.kindOf[e.Name] = "enum"
	}
	for i := 0; i < nStruct; i++ {
		s := &pxStruct{Doc: g.doc(20), Kind: []string{"struct", "struct", "exception", "union"}[r.Intn(4)], Name: g.ident(), Anns: g.anns(10)}
		f.Structs = append(f.Structs, s)
		env.types = append(env.types, s.Name)
		env.kindOf[s.Name] = s.Kind
	}
	for i := 0; i < nTd; i++ {
		t := &pxTypedef{Doc: g.doc(15), Name: g.ident(), Anns: g.anns(10)}
		f.Typedefs = append(f.Typedefs, t)
		env.types = append(env.types, t.Name)
		env.kindOf[t.Name] = "typedef"
	}
	for i := 0; i < nConst; i++ {
		c := &pxConstant{Doc: g.doc(15), Name: g.ident(), Anns: g.anns(8)}
		f.Constants = append(f.Constants, c)
		env.consts = append(env.consts, c.Name)
	}
	pool := env.types
	for _, s := range f.Structs {
		s.Fields = g.fields(g.count(5), env, pool, true)
	}
	for _, t := range f.Typedefs {
		// a typedef may not (transitively) name itself: the validator accepts it but it is not well-formed
		var p2 []string
		for _, n := range pool {
			if env.kindOf[n] != "typedef" {
				p2 = append(p2, n)
			}
		}
		t.Type = g.typ(p2, g.depth())
	}
	for _, c := range f.Constants {
		c.Type = g.typ(pool, g.depth())
		c.Value = g.constFor(c.Type, env, 3, true)
		if c.Value.Kind == 'r' && c.Value.S == c.Name {
			c.Value = g.intConst()
		}
	}
	for i, n := 0, g.count(3); i < n; i++ {
		ns := &pxNamespace{Scope: pxNsScopes[r.Intn(len(pxNsScopes))], Anns: g.anns(10)}
		parts := 1 + r.Intn(3)
		var ps []string
		for j := 0; j < parts; j++ {
			ps = append(ps, g.rawIdent())
		}
		ns.Value = strings.Join(ps, ".")
		f.Namespaces = append(f.Namespaces, ns)
	}
	var excs []string
	for _, s := range f.Structs {
		if s.Kind == "exception" {
			excs = append(excs, s.Name)
		}
	}
	var svcNames []string
	for i, n := 0, g.count(2); i < n; i++ {
		s := &pxService{Doc: g.doc(20), Name: g.ident(), Anns: g.anns(10)}
		if r.Chance(30) {
			if len(svcNames) > 0 && r.Bool() {
				s.Extends = svcNames[r.Intn(len(svcNames))]
			} else if len(incs) > 0 && r.Bool() {
				s.Extends = pxIncludeName(incs[r.Intn(len(incs))].Path) + "." + g.rawIdent()
			} else {
				s.Extends = g.rawIdent()
			}
		}
		seen := map[string]bool{}
		for j, m := 0, g.count(4); j < m; j++ {
			mt := &pxMethod{Doc: g.doc(15), Name: g.localIdent(seen), Anns: g.anns(10)}
			mt.Args = g.fields(r.Intn(4), env, pool, true)
			if r.Chance(15) {
				mt.Oneway = true
			} else {
				if r.Chance(65) {
					mt.Ret = g.typ(pool, g.depth())
				}
				if r.Chance(35) {
					mt.HasThr = true
					p := excs
					if len(p) == 0 || r.Chance(10) {
						p = pool
					}
					mt.Throws = g.fields(r.Intn(3), env, p, r.Chance(20))
					for _, e := range mt.Throws {
						if len(p) > 0 {
							e.Type = &pxType{Kind: pxTNamed, Name: p[r.Intn(len(p))]}
						}
						e.Default = nil
					}
				}
			}
			s.Methods = append(s.Methods, mt)
		}
		f.Services = append(f.Services, s)
		svcNames = append(svcNames, s.Name)
	}
	for i, n := 0, g.count(2); i < n; i++ {
		s := &pxScope{Doc: g.doc(20), Name: g.ident(), Anns: g.anns(10)}
		if r.Chance(60) {
			s.HasPfx = true
			for j, m := 0, 1+r.Intn(4); j < m; j++ {
				if r.Chance(35) {
					// a variable: letter, letter-or-digit, then word characters (what newScopePrefix accepts)
					v := string(rune('a'+r.Intn(26))) + string("abcXYZ019"[r.Intn(9)])
					for k, l := 0, r.Intn(4); k < l; k++ {
						v += string("abXY01_"[r.Intn(7)])
					}
					s.Prefix = append(s.Prefix, pxPTok{Var: true, Text: v})
				} else {
					s.Prefix = append(s.Prefix, pxPTok{Text: pxPrefixWords[r.Intn(len(pxPrefixWords))]})
				}
			}
		}
		seen := map[string]bool{}
		for j, m := 0, g.count(4); j < m; j++ {
			o := &pxOp{Doc: g.doc(15), Name: g.localIdent(seen), Type: g.typ(pool, g.depth())}
			if o.Type.Kind == pxTNamed {
				// `Op: i32 (a)`: annotations after a base or container type belong to the type
				// (BaseType / ContainerType take them first); only a named type leaves them to the operation
				o.Anns = g.anns(15)
			}
			s.Ops = append(s.Ops, o)
		}
		f.Scopes = append(f.Scopes, s)
	}
	return f
}

// pxRelPath: the include path to write in a file of directory `from` for the file `to`
// (both relative to the root, directories end in "/" or are ""): "../" for every level up.
func pxRelPath(from, to string) string {
	fd := strings.Split(strings.TrimSuffix(from, "/"), "/")
	if from == "" {
		fd = nil
	}
	td := strings.Split(to, "/")
	i := 0
	for i < len(fd) && i < len(td)-1 && fd[i] == td[i] {
		i++
	}
	return strings.Repeat("../", len(fd)-i) + strings.Join(td[i:], "/")
}

func pxDirOf(rel string) string {
	if j := strings.LastIndex(rel, "/"); j >= 0 {
		return rel[:j+1]
	}
	return ""
}

var pxDirs = []string{"", "", "a/", "b/", "a/sub/", "lib/", "lib/v1/"}
var pxBases = [][2]string{{"common", ".frugal"}, {"base", ".frugal"}, {"types", ".thrift"}, {"x", ".frugal"}, {"Shared", ".thrift"}, {"v2", ".frugal"}, {"common", ".thrift"}}

// program generates an include GRAPH over a directory tree: files in subdirectories, relative
// include paths ("../b/common.frugal", "sub/x.frugal", redundant "./" and "d/../"), the same base
// name in different directories (different contents), diamonds onto one file, chains >= 3 deep.
// A file may also reach a DIFFERENT file with its own base name (a/common -> ../b/common; fixed f162058).
// File i may include files j > i (a DAG). Excluded: two includes with the same base name in one file
// (rejected by design: "Duplicate include").
func (g *pxGen) program() *pxFile {
	r := g.r
	mains := []string{"main.frugal", "m_1.thrift", "Api.frugal"}
	mainRel := mains[r.Intn(3)]
	if r.Chance(15) {
		mainRel = []string{"a/", "lib/v1/"}[r.Intn(2)] + mainRel
	}
	if !r.Chance(40) {
		return g.file(mainRel, nil)
	}
	n := 1 + r.Intn(3)
	if r.Chance(35) {
		n = 3 + r.Intn(4)
	}
	// distinct root-relative paths; base names repeat across directories on purpose
	rels := []string{mainRel}
	seen := map[string]bool{mainRel: true}
	for len(rels) < n+1 {
		b := pxBases[r.Intn(len(pxBases))]
		if r.Chance(35) {
			b = pxBases[0]
		}
		rel := pxDirs[r.Intn(len(pxDirs))] + b[0] + b[1]
		if seen[rel] {
			continue
		}
		seen[rel] = true
		rels = append(rels, rel)
	}
	// reach[i]: base names of the files reachable from file i (including itself)
	files := make([]*pxFile, len(rels))
	reach := make([]map[string]bool, len(rels))
	for i := len(rels) - 1; i >= 0; i-- {
		var incs []*pxInclude
		names := map[string]bool{}
		below := map[string]bool{}
		self := pxIncludeName(rels[i])
		for j := i + 1; j < len(rels); j++ {
			p := 45
			if j == i+1 {
				p = 75 // chains
			}
			if !r.Chance(p) {
				continue
			}
			nm := pxIncludeName(rels[j])
			if names[nm] {
				continue
			}
			names[nm] = true
			for k := range reach[j] {
				below[k] = true
			}
			path := pxRelPath(pxDirOf(rels[i]), rels[j])
			switch r.Intn(12) {
			case 0:
				path = "./" + path
			case 1:
				if d := pxDirOf(path); d != "" && !strings.HasPrefix(d, "..") {
					comps := strings.Split(strings.TrimSuffix(d, "/"), "/")
					path = d + "../" + comps[len(comps)-1] + "/" + path[len(d):] // a/sub/x -> a/sub/../sub/x
				}
			}
			incs = append(incs, &pxInclude{Path: path, Anns: g.anns(15), File: files[j]})
		}
		files[i] = g.file(rels[i], incs)
		below[self] = true
		reach[i] = below
	}
	return files[0]
}
