package main

// C11 — the command-line layer (main.go: flag handling, the loop over the input files, the
// exit status, the top-level recover). Suite "c11cli" runs the REAL binary .build/frugal:
//
//   frugal [-gen <g>] [-r] -out <fresh dir> f1 … fk        k = 1..4
//
// with every fi one of: v valid, e empty file (valid), y syntax error, m semantic error,
// x missing file, d a directory — in every order for k <= 3 (258 sequences, every run) and random
// sequences for k = 4; <g> over all eight targets, a few option strings, an unknown option, an
// unknown language, or no -gen at all.
//
// ORACLE (the property): exit status 0 iff every file is valid and the flags are; otherwise a
// non-zero status AND a non-empty message; never a Go panic trace / runtime crash; within the watchdog.
// MODEL (FV.Compile.cliMain, op `cli <gen|-> <r> <kinds>`): the loop stops at the first failing
// file: the files before it are compiled (their output exists), none after it.

import (
	"os"
	"path/filepath"
	"strconv"
	"strings"
)

var c11CliKinds = []string{"v", "e", "y", "m", "x", "d"}

var c11CliGens = []string{"go", "java", "dart", "py", "py:asyncio", "py:tornado", "json", "html",
	"go:async", "go:slim,async", "java:boxed_primitives", "dart:use_enums", "json:indent", "html:standalone", "py:package_prefix=a.b.",
	"go:bogus", "java:async,nope=1", "cobol", "py:asyncio,tornado", "-", "go", "java", "json"}

func c11CliValid(kind string) bool { return kind == "v" || kind == "e" }

// c11CliGenOK: the harness's own reading of the CLI contract for -gen.
func c11CliGenOK(gen string) bool {
	if gen == "-" {
		return false
	}
	return !strings.Contains(gen, "bogus") && !strings.Contains(gen, "nope") && gen != "cobol"
}

func c11CliSequences() [][]string {
	var out [][]string
	var rec func(cur []string, k int)
	rec = func(cur []string, k int) {
		if len(cur) == k {
			out = append(out, append([]string{}, cur...))
			return
		}
		for _, kd := range c11CliKinds {
			rec(append(cur, kd), k)
		}
	}
	for k := 1; k <= 3; k++ {
		rec(nil, k)
	}
	return out
}

func c11CliMarker(i int) string { return "mk" + strconv.Itoa(i) + "zq" }

// c11CliHasOutput: some emitted file mentions the marker of input file i (path or content).
func c11CliHasOutput(out string, i int) bool {
	found := false
	mk := c11CliMarker(i)
	filepath.Walk(out, func(p string, info os.FileInfo, err error) error {
		if err != nil || found {
			return nil
		}
		if strings.Contains(strings.ToLower(p[len(out):]), mk) {
			found = true
			return nil
		}
		if !info.IsDir() && info.Size() < 4<<20 {
			b, _ := os.ReadFile(p)
			if strings.Contains(strings.ToLower(string(b)), mk) {
				found = true
			}
		}
		return nil
	})
	return found
}

func c11CliReal(args []string) (string, bool) {
	if len(args) != 3 {
		return "bad-op", true
	}
	gen, rec := args[0], args[1] == "1"
	kinds := strings.Split(args[2], ",")
	if len(kinds) == 0 || len(kinds) > 8 {
		return "bad-op", true
	}
	dir, err := os.MkdirTemp("", "verif-c11cli-")
	if err != nil {
		return "bad-op", true
	}
	defer os.RemoveAll(dir)
	files := []string{}
	for i, k := range kinds {
		name := "f" + strconv.Itoa(i) + k + ".frugal"
		mk := c11CliMarker(i)
		body := ""
		switch k {
		case "v":
			body = "struct " + mk + " {\n    1: i32 a,\n    2: optional list<string> b,\n}\nservice Svc" + mk + " {\n    " + mk + " echo(1: " + mk + " arg),\n}\n"
		case "e":
			body = ""
		case "y":
			body = "struct " + mk + " {{{\n    1: i32 a,\n"
		case "m":
			body = "struct " + mk + " {\n    1: NoSuchType" + strconv.Itoa(i) + " a,\n}\n"
		case "x":
			files = append(files, name)
			continue
		case "d":
			os.MkdirAll(filepath.Join(dir, name), 0o755)
			files = append(files, name)
			continue
		default:
			return "bad-op", true
		}
		os.WriteFile(filepath.Join(dir, name), []byte(body), 0o644)
		files = append(files, name)
	}
	out := filepath.Join(dir, "out")
	cmd := []string{}
	if gen != "-" {
		cmd = append(cmd, "-gen", gen)
	}
	if rec {
		cmd = append(cmd, "-r")
	}
	cmd = append(cmd, "-out", out)
	cmd = append(cmd, files...)
	run := c11Exec(dir, cmd...)
	// ---- oracle: the property
	allValid := c11CliGenOK(gen)
	firstBad := -1
	for i, k := range kinds {
		if !c11CliValid(k) {
			allValid = false
			if firstBad < 0 {
				firstBad = i
			}
		}
	}
	line := "cli " + strings.Join(args, " ")
	fail := func(what string) {
		OracleFail(what, map[string]interface{}{"op": "cli", "line": line, "class": run.class, "exit": run.rc, "output": c11Clip(run.out, 500),
			"cmd": "frugal " + strings.Join(cmd, " ")})
	}
	switch {
	case run.class == "crash" || run.class == "hang":
		fail("command line: the compiler ends with " + run.class)
	case allValid && run.class != "ok":
		fail("command line: every file is valid but the exit status is " + strconv.Itoa(run.rc))
	case !allValid && run.class == "ok":
		fail("command line: an input file (or the -gen value) is invalid but the exit status is 0")
	case !allValid && strings.TrimSpace(run.out) == "":
		fail("command line: non-zero exit status without a message")
	}
	// ---- canonical observation for the model
	exit := run.rc
	if run.class == "ok" {
		exit = 0
	}
	// per file: only valid non-empty files are compared (y = its output exists, n = it does not);
	// json overwrites its single output file, so it is not compared either
	var b strings.Builder
	for i, k := range kinds {
		has := c11CliHasOutput(out, i)
		switch {
		case has && k != "v":
			b.WriteString("Y") // output for a file that is not valid: never expected
		case k != "v" || strings.HasPrefix(gen, "json"):
			b.WriteString("-")
		case has:
			b.WriteString("y")
		default:
			b.WriteString("n")
		}
	}
	return "exit=" + strconv.Itoa(exit) + " out=" + b.String(), true
}

func runC11Cli(r *Rng, n int) {
	if _, err := os.Stat(c11Frugal()); err != nil {
		OracleFail("c11cli: the frugal binary is missing: "+c11Frugal(), map[string]interface{}{"err": err.Error()})
		return
	}
	seqs := c11CliSequences()
	job := int(c11SeedArg() % 1000)
	for c := 0; c < n; c++ {
		idx := job*n + c
		var kinds []string
		if idx < len(seqs) {
			kinds = seqs[idx]
		} else {
			k := 4
			if r.Chance(25) {
				k = 1 + r.Intn(3)
			}
			for i := 0; i < k; i++ {
				kinds = append(kinds, c11CliKinds[r.Pick(0, 0, 0, 1, 2, 3, 4, 5)])
			}
		}
		gen := c11CliGens[(idx+int(c11SeedArg()/1000))%len(c11CliGens)]
		if idx >= len(seqs) {
			gen = c11CliGens[r.Intn(len(c11CliGens))]
		}
		rec := "0"
		if r.Bool() {
			rec = "1"
		}
		args := []string{gen, rec, strings.Join(kinds, ",")}
		o, _ := c11CliReal(args)
		Case("cli "+strings.Join(args, " "), o)
		Stat("evaluations")
		Stat("cli:files:" + strconv.Itoa(len(kinds)))
		Stat("cli:" + clip(o))
		Stat("cli:gen:" + map[bool]string{true: "accepted", false: "rejected-or-absent"}[c11CliGenOK(gen)])
		if c < 2 {
			Sample(map[string]interface{}{"line": "cli " + strings.Join(args, " "), "real": o})
		}
	}
}

func init() {
	suites["c11cli"] = runC11Cli
	lineOps["cli"] = func(args []string) (string, bool) { return c11CliReal(args) }
}
