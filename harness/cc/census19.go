package main

// C19 census: the tie between "these are all the sources of run-to-run /
// location variation on the generation path" and /repo's current sources.
// go/ast only (no go/types): stdlib-only, so that this file also builds on its
// own together with census19_main.go (see there).
//
// Listed sites, under /repo/compiler/** (no tests, no testdata) and /repo/main.go:
//   range-map    a `range` statement whose ranged expression is map-typed, as far
//                as that can be decided syntactically (declared types of params,
//                receivers, locals, struct fields, package variables, results of
//                functions declared in the scanned packages); `range-map?` when
//                only the selected field NAME is map-typed in some struct
//   range-untyped a `range` whose operand type could not be determined at all
//                (listed so that nothing is silently assumed to be a slice)
//   clock        time.Now / globals.Now
//   env          filepath.Abs, os.Getwd, os.Hostname, os.Getenv, os.Environ, os.UserHomeDir, os.Executable,
//                imports.Process (goimports looks at the file system around the output file)
//   sort         sort.Sort / sort.Stable / sort.Slice / sort.SliceStable / sort.Strings / sort.Ints
//   marshal      yaml.Marshal / json.Marshal / json.NewEncoder (a library chooses the order of map keys)
//   file-open / file-open-notrunc / file-positional  a file opened for writing with / without truncation
//                (os.Create, os.OpenFile flags, WriteFile), writes at an offset: the history of -out
//   tmpl-range   a {{range …}} action inside a string literal (text/template visits
//                maps in sorted key order, slices in order)
// A site is keyed by file::function::kind:normalised-expression#ordinal — never
// by line number.

import (
	"bytes"
	"encoding/json"
	"fmt"
	"go/ast"
	"go/parser"
	"go/printer"
	"go/token"
	"os"
	"path/filepath"
	"regexp"
	"sort"
	"strings"
)

type c19Site struct {
	Key  string `json:"key"`
	Kind string `json:"kind"`
	File string `json:"file"`
	Func string `json:"func"`
	Expr string `json:"expr"`
}

type c19Expect struct {
	Pattern string `json:"pattern"`
	Note    string `json:"note"`
	// Optional: the site belongs to a change of /repo that is still in flight (uncommitted
	// work of another property's fix); its absence is not a broken tie.
	Optional bool `json:"optional,omitempty"`
}

// the model patterns (lean/FV/Model/Determinism.lean `Pattern`)
var c19Patterns = map[string]string{
	"keys-then-sort":           "keysThenSort",
	"commutative-insertion":    "commutativeInsertion",
	"key-only":                 "keyOnly",
	"output-order-irrelevant":  "orderIrrelevant",
	"sorted-distinct-keys":     "sortedDistinctKeys",
	"excluded-by-property":     "excludedByProperty",
	"not-on-generation-path":   "notOnGenPath",
	"not-a-map":                "notAMap",
	"location-normalised":      "locationNormalised",
	"known-finding":            "knownFinding",
	"explicit-import":          "explicitImport",
	"fresh-file":               "freshFile",
	"unclassified":             "unclassified",
	"vanished":                 "vanished",
}

type c19Pkg struct {
	name    string
	dir     string
	files   map[string]*ast.File // rel path -> file
	types   map[string]ast.Expr  // named type -> underlying/declared type expression
	vars    map[string]ast.Expr  // package variable -> type expression (nil unknown)
	funcRes map[string]ast.Expr  // function or method name -> first result type
}

type c19Scan struct {
	fset      *token.FileSet
	pkgs      map[string]*c19Pkg // by package name
	mapFields map[string]bool    // field names that are map-typed in some struct
	sites     []c19Site
}

func c19ExprString(fset *token.FileSet, e ast.Node) string {
	var b bytes.Buffer
	printer.Fprint(&b, fset, e)
	s := b.String()
	s = strings.Join(strings.Fields(s), "")
	if len(s) > 90 {
		s = s[:90] + "~"
	}
	return s
}

func c19ScanRepo(repo string) ([]c19Site, error) {
	sc := &c19Scan{fset: token.NewFileSet(), pkgs: map[string]*c19Pkg{}, mapFields: map[string]bool{}}
	var paths []string
	err := filepath.Walk(filepath.Join(repo, "compiler"), func(p string, info os.FileInfo, err error) error {
		if err != nil {
			return err
		}
		if info.IsDir() {
			if info.Name() == "testdata" {
				return filepath.SkipDir
			}
			return nil
		}
		if strings.HasSuffix(p, ".go") && !strings.HasSuffix(p, "_test.go") {
			paths = append(paths, p)
		}
		return nil
	})
	if err != nil {
		return nil, err
	}
	paths = append(paths, filepath.Join(repo, "main.go"))
	sort.Strings(paths)
	for _, p := range paths {
		f, err := parser.ParseFile(sc.fset, p, nil, 0)
		if err != nil {
			return nil, fmt.Errorf("cannot parse %s: %v", p, err)
		}
		rel, _ := filepath.Rel(repo, p)
		rel = filepath.ToSlash(rel)
		name := f.Name.Name
		if rel == "main.go" {
			name = "main"
		}
		pk := sc.pkgs[name]
		if pk == nil {
			pk = &c19Pkg{name: name, dir: filepath.Dir(rel), files: map[string]*ast.File{}, types: map[string]ast.Expr{}, vars: map[string]ast.Expr{}, funcRes: map[string]ast.Expr{}}
			sc.pkgs[name] = pk
		}
		pk.files[rel] = f
	}
	// pass 1: declarations
	for _, pk := range sc.pkgs {
		for _, f := range pk.files {
			for _, d := range f.Decls {
				switch x := d.(type) {
				case *ast.GenDecl:
					for _, s := range x.Specs {
						switch sp := s.(type) {
						case *ast.TypeSpec:
							pk.types[sp.Name.Name] = sp.Type
						case *ast.ValueSpec:
							for i, n := range sp.Names {
								var t ast.Expr = sp.Type
								if t == nil && i < len(sp.Values) {
									t = sc.litType(sp.Values[i])
								}
								pk.vars[n.Name] = t
							}
						}
					}
				case *ast.FuncDecl:
					if x.Type.Results != nil && len(x.Type.Results.List) > 0 {
						pk.funcRes[x.Name.Name] = x.Type.Results.List[0].Type
					}
				}
			}
		}
	}
	for _, pk := range sc.pkgs {
		for _, t := range pk.types {
			if st, ok := t.(*ast.StructType); ok {
				for _, fl := range st.Fields.List {
					if sc.isMapType(pk, fl.Type) {
						for _, n := range fl.Names {
							sc.mapFields[n.Name] = true
						}
					}
				}
			}
		}
	}
	// pass 2: sites
	pkNames := make([]string, 0, len(sc.pkgs))
	for n := range sc.pkgs {
		pkNames = append(pkNames, n)
	}
	sort.Strings(pkNames)
	for _, n := range pkNames {
		pk := sc.pkgs[n]
		rels := make([]string, 0, len(pk.files))
		for r := range pk.files {
			rels = append(rels, r)
		}
		sort.Strings(rels)
		for _, rel := range rels {
			sc.scanFile(pk, rel, pk.files[rel])
		}
	}
	sc.scanGoImports()
	sort.Slice(sc.sites, func(i, j int) bool { return sc.sites[i].Key < sc.sites[j].Key })
	return sc.sites, nil
}

// litType: the type of a composite literal / make / new expression, else nil.
func (sc *c19Scan) litType(e ast.Expr) ast.Expr {
	switch x := e.(type) {
	case *ast.CompositeLit:
		return x.Type
	case *ast.UnaryExpr:
		if x.Op == token.AND {
			if cl, ok := x.X.(*ast.CompositeLit); ok && cl.Type != nil {
				return &ast.StarExpr{X: cl.Type}
			}
		}
	case *ast.CallExpr:
		if id, ok := x.Fun.(*ast.Ident); ok && (id.Name == "make" || id.Name == "new") && len(x.Args) > 0 {
			if id.Name == "new" {
				return &ast.StarExpr{X: x.Args[0]}
			}
			return x.Args[0]
		}
	case *ast.BasicLit:
		if x.Kind == token.STRING {
			return ast.NewIdent("string")
		}
	}
	return nil
}

// resolve a type expression to (package, underlying expression), following named types.
func (sc *c19Scan) resolve(pk *c19Pkg, t ast.Expr, depth int) (*c19Pkg, ast.Expr) {
	if t == nil || depth > 8 {
		return pk, t
	}
	switch x := t.(type) {
	case *ast.ParenExpr:
		return sc.resolve(pk, x.X, depth+1)
	case *ast.StarExpr:
		return sc.resolve(pk, x.X, depth+1)
	case *ast.Ident:
		if u, ok := pk.types[x.Name]; ok {
			return sc.resolve(pk, u, depth+1)
		}
	case *ast.SelectorExpr:
		if id, ok := x.X.(*ast.Ident); ok {
			if other, ok := sc.pkgs[id.Name]; ok {
				if u, ok := other.types[x.Sel.Name]; ok {
					return sc.resolve(other, u, depth+1)
				}
			}
		}
	}
	return pk, t
}

func (sc *c19Scan) isMapType(pk *c19Pkg, t ast.Expr) bool {
	_, u := sc.resolve(pk, t, 0)
	_, ok := u.(*ast.MapType)
	return ok
}

type c19Env struct {
	pk   *c19Pkg
	vars map[string]ast.Expr // local name -> type expression in package pk terms (nil unknown)
	tpk  map[string]*c19Pkg  // package in which the type expression of a local is to be read
}

// typeOf: type expression of e and the package it is written in; nil when unknown.
func (sc *c19Scan) typeOf(env *c19Env, e ast.Expr) (*c19Pkg, ast.Expr) {
	switch x := e.(type) {
	case *ast.ParenExpr:
		return sc.typeOf(env, x.X)
	case *ast.Ident:
		if t, ok := env.vars[x.Name]; ok {
			p := env.tpk[x.Name]
			if p == nil {
				p = env.pk
			}
			return p, t
		}
		if t, ok := env.pk.vars[x.Name]; ok {
			return env.pk, t
		}
	case *ast.CompositeLit, *ast.UnaryExpr, *ast.BasicLit:
		if t := sc.litType(e); t != nil {
			return env.pk, t
		}
	case *ast.SelectorExpr:
		if id, ok := x.X.(*ast.Ident); ok {
			if _, local := env.vars[id.Name]; !local {
				if other, ok := sc.pkgs[id.Name]; ok { // pkg.Var
					if t, ok := other.vars[x.Sel.Name]; ok {
						return other, t
					}
					return nil, nil
				}
			}
		}
		p, t := sc.typeOf(env, x.X)
		if t != nil {
			p2, u := sc.resolve(p, t, 0)
			if st, ok := u.(*ast.StructType); ok {
				for _, fl := range st.Fields.List {
					for _, n := range fl.Names {
						if n.Name == x.Sel.Name {
							return p2, fl.Type
						}
					}
					if len(fl.Names) == 0 { // embedded: one level
						p3, eu := sc.resolve(p2, fl.Type, 0)
						if est, ok := eu.(*ast.StructType); ok {
							for _, efl := range est.Fields.List {
								for _, n := range efl.Names {
									if n.Name == x.Sel.Name {
										return p3, efl.Type
									}
								}
							}
						}
					}
				}
			}
		}
	case *ast.IndexExpr:
		p, t := sc.typeOf(env, x.X)
		if t != nil {
			p2, u := sc.resolve(p, t, 0)
			switch c := u.(type) {
			case *ast.MapType:
				return p2, c.Value
			case *ast.ArrayType:
				return p2, c.Elt
			}
		}
	case *ast.SliceExpr:
		return sc.typeOf(env, x.X)
	case *ast.TypeAssertExpr:
		if x.Type != nil {
			return env.pk, x.Type
		}
	case *ast.StarExpr:
		return sc.typeOf(env, x.X)
	case *ast.CallExpr:
		switch f := x.Fun.(type) {
		case *ast.Ident:
			if f.Name == "make" || f.Name == "new" {
				return env.pk, sc.litType(e)
			}
			if f.Name == "append" && len(x.Args) > 0 {
				return sc.typeOf(env, x.Args[0])
			}
			if t, ok := env.pk.funcRes[f.Name]; ok {
				return env.pk, t
			}
			if _, ok := env.pk.types[f.Name]; ok && len(x.Args) == 1 { // conversion T(x)
				return env.pk, f
			}
		case *ast.SelectorExpr:
			if id, ok := f.X.(*ast.Ident); ok {
				if _, local := env.vars[id.Name]; !local {
					if other, ok := sc.pkgs[id.Name]; ok {
						if t, ok := other.funcRes[f.Sel.Name]; ok {
							return other, t
						}
						return nil, nil
					}
					if id.Name == "strings" && (f.Sel.Name == "Split" || f.Sel.Name == "Fields" || f.Sel.Name == "SplitN") {
						return env.pk, &ast.ArrayType{Elt: ast.NewIdent("string")}
					}
				}
			}
			// method call: look the method name up in the receiver's package, then anywhere
			p, t := sc.typeOf(env, f.X)
			if t != nil {
				p2, _ := sc.resolve(p, t, 0)
				if p2 != nil {
					if rt, ok := p2.funcRes[f.Sel.Name]; ok {
						return p2, rt
					}
				}
			}
			var found ast.Expr
			var fp *c19Pkg
			n := 0
			for _, other := range sc.pkgs {
				if rt, ok := other.funcRes[f.Sel.Name]; ok {
					found, fp = rt, other
					n++
				}
			}
			if n == 1 {
				return fp, found
			}
		}
	}
	return nil, nil
}

func (sc *c19Scan) bind(env *c19Env, name string, p *c19Pkg, t ast.Expr) {
	if name == "_" {
		return
	}
	env.vars[name] = t
	env.tpk[name] = p
}

func (sc *c19Scan) scanFile(pk *c19Pkg, rel string, f *ast.File) {
	for _, d := range f.Decls {
		switch x := d.(type) {
		case *ast.FuncDecl:
			name := x.Name.Name
			if x.Recv != nil && len(x.Recv.List) == 1 {
				t := x.Recv.List[0].Type
				if s, ok := t.(*ast.StarExpr); ok {
					t = s.X
				}
				if id, ok := t.(*ast.Ident); ok {
					name = id.Name + "." + name
				}
			}
			if x.Body == nil {
				continue
			}
			env := &c19Env{pk: pk, vars: map[string]ast.Expr{}, tpk: map[string]*c19Pkg{}}
			bindList := func(fl *ast.FieldList) {
				if fl == nil {
					return
				}
				for _, fd := range fl.List {
					for _, n := range fd.Names {
						sc.bind(env, n.Name, pk, fd.Type)
					}
				}
			}
			bindList(x.Recv)
			bindList(x.Type.Params)
			bindList(x.Type.Results)
			sc.scanBody(pk, rel, name, env, x.Body)
		case *ast.GenDecl:
			// package-level initialisers: clock / env calls and template ranges in string constants
			for _, s := range x.Specs {
				if vs, ok := s.(*ast.ValueSpec); ok {
					for i, v := range vs.Values {
						n := "(package)"
						if i < len(vs.Names) {
							n = "(package)" + vs.Names[i].Name
						}
						env := &c19Env{pk: pk, vars: map[string]ast.Expr{}, tpk: map[string]*c19Pkg{}}
						sc.scanBody(pk, rel, n, env, v)
					}
				}
			}
		}
	}
}

var c19TmplRange = regexp.MustCompile(`\{\{-?\s*range\s+([^}]*?)\s*-?\}\}`)

func (sc *c19Scan) scanBody(pk *c19Pkg, rel, fn string, env *c19Env, body ast.Node) {
	ord := map[string]int{}
	add := func(kind, expr string) {
		k := kind + ":" + expr
		n := ord[k]
		ord[k] = n + 1
		sc.sites = append(sc.sites, c19Site{Key: fmt.Sprintf("%s::%s::%s#%d", rel, fn, k, n), Kind: kind, File: rel, Func: fn, Expr: expr})
	}
	ast.Inspect(body, func(n ast.Node) bool {
		switch x := n.(type) {
		case *ast.FuncLit: // closure parameters
			if x.Type.Params != nil {
				for _, fd := range x.Type.Params.List {
					for _, nm := range fd.Names {
						sc.bind(env, nm.Name, pk, fd.Type)
					}
				}
			}
		case *ast.DeclStmt:
			if gd, ok := x.Decl.(*ast.GenDecl); ok {
				for _, s := range gd.Specs {
					if vs, ok := s.(*ast.ValueSpec); ok {
						for i, nm := range vs.Names {
							if vs.Type != nil {
								sc.bind(env, nm.Name, pk, vs.Type)
							} else if i < len(vs.Values) {
								p, t := sc.typeOf(env, vs.Values[i])
								sc.bind(env, nm.Name, p, t)
							}
						}
					}
				}
			}
		case *ast.AssignStmt:
			if x.Tok == token.DEFINE {
				if len(x.Lhs) == len(x.Rhs) {
					for i, l := range x.Lhs {
						if id, ok := l.(*ast.Ident); ok {
							p, t := sc.typeOf(env, x.Rhs[i])
							sc.bind(env, id.Name, p, t)
						}
					}
				} else if len(x.Rhs) == 1 { // v, ok := m[k] / f()
					if id, ok := x.Lhs[0].(*ast.Ident); ok {
						p, t := sc.typeOf(env, x.Rhs[0])
						sc.bind(env, id.Name, p, t)
					}
					for _, l := range x.Lhs[1:] {
						if id, ok := l.(*ast.Ident); ok {
							sc.bind(env, id.Name, nil, nil)
						}
					}
				}
			}
		case *ast.RangeStmt:
			p, t := sc.typeOf(env, x.X)
			expr := c19ExprString(sc.fset, x.X)
			var elemP *c19Pkg
			var keyT, valT ast.Expr
			if t != nil {
				p2, u := sc.resolve(p, t, 0)
				switch c := u.(type) {
				case *ast.MapType:
					add("range-map", expr)
					elemP, keyT, valT = p2, c.Key, c.Value
				case *ast.ArrayType:
					elemP, keyT, valT = p2, ast.NewIdent("int"), c.Elt
				case *ast.Ident:
					if c.Name != "string" {
						add("range-untyped", expr)
					}
				default:
					add("range-untyped", expr)
				}
			} else {
				maybe := false
				if sel, ok := x.X.(*ast.SelectorExpr); ok && sc.mapFields[sel.Sel.Name] {
					maybe = true
				}
				if maybe {
					add("range-map?", expr)
				} else {
					add("range-untyped", expr)
				}
			}
			if x.Tok == token.DEFINE {
				if id, ok := x.Key.(*ast.Ident); ok {
					sc.bind(env, id.Name, elemP, keyT)
				}
				if id, ok := x.Value.(*ast.Ident); ok {
					sc.bind(env, id.Name, elemP, valT)
				}
			}
		case *ast.CallExpr:
			// files opened for writing: the history of the -out directory reaches the output through
			// an open without truncation (no O_TRUNC, O_APPEND) or a positional write
			if sel, ok := x.Fun.(*ast.SelectorExpr); ok {
				q := sel.Sel.Name
				if id, ok := sel.X.(*ast.Ident); ok {
					q = id.Name + "." + q
				}
				switch {
				case q == "os.OpenFile" && len(x.Args) >= 2:
					flags := c19ExprString(sc.fset, x.Args[1])
					if strings.Contains(flags, "O_RDONLY") && !strings.Contains(flags, "O_CREATE") {
						break
					}
					if strings.Contains(flags, "O_TRUNC") && !strings.Contains(flags, "O_APPEND") {
						add("file-open", "os.OpenFile("+flags+")")
					} else {
						add("file-open-notrunc", "os.OpenFile("+flags+")")
					}
				case q == "os.Create" || q == "ioutil.WriteFile" || q == "os.WriteFile":
					add("file-open", q)
				case sel.Sel.Name == "WriteAt" || sel.Sel.Name == "Seek" || sel.Sel.Name == "Truncate":
					add("file-positional", "."+sel.Sel.Name)
				}
			}
		case *ast.SelectorExpr:
			if id, ok := x.X.(*ast.Ident); ok {
				q := id.Name + "." + x.Sel.Name
				switch q {
				case "time.Now", "globals.Now":
					add("clock", q)
				case "filepath.Abs", "os.Getwd", "os.Hostname", "os.Getenv", "os.Environ", "os.UserHomeDir", "os.Executable", "os.LookupEnv", "os.Getpid", "os.TempDir", "imports.Process":
					add("env", q)
				case "sort.Sort", "sort.Stable", "sort.Slice", "sort.SliceStable", "sort.Strings", "sort.Ints", "sort.Float64s":
					add("sort", q)
				case "yaml.Marshal", "json.Marshal", "json.MarshalIndent", "json.NewEncoder":
					add("marshal", q) // a library serialises Go maps: its key order is the library's
				}
			}
		case *ast.Ident:
			if pk.name == "globals" && x.Name == "Now" && x.Obj != nil && x.Obj.Kind == ast.Var {
				// uses of Now inside package globals itself (Reset)
				add("clock", "globals.Now")
			}
		case *ast.BasicLit:
			if x.Kind == token.STRING && strings.Contains(x.Value, "range") {
				for _, m := range c19TmplRange.FindAllStringSubmatch(x.Value, -1) {
					add("tmpl-range", strings.Join(strings.Fields(m[1]), ""))
				}
			}
		}
		return true
	})
}

// c19LoadExpected reads known/c19_census_expected.json: key -> {pattern, note}.
func c19LoadExpected(path string) (map[string]c19Expect, error) {
	b, err := os.ReadFile(path)
	if err != nil {
		return nil, err
	}
	m := map[string]c19Expect{}
	if err := json.Unmarshal(b, &m); err != nil {
		return nil, err
	}
	return m, nil
}

type c19Row struct {
	Key, Kind, Pattern, Status string // Status: ok | new | vanished
}

// c19Merge ties the current sites to the committed expectation.
func c19Merge(sites []c19Site, exp map[string]c19Expect) []c19Row {
	var rows []c19Row
	seen := map[string]bool{}
	for _, s := range sites {
		seen[s.Key] = true
		if e, ok := exp[s.Key]; ok {
			if _, known := c19Patterns[e.Pattern]; known && e.Pattern != "unclassified" && e.Pattern != "vanished" {
				rows = append(rows, c19Row{s.Key, s.Kind, e.Pattern, "ok"})
				continue
			}
		}
		rows = append(rows, c19Row{s.Key, s.Kind, "unclassified", "new"})
	}
	keys := make([]string, 0, len(exp))
	for k := range exp {
		keys = append(keys, k)
	}
	sort.Strings(keys)
	for _, k := range keys {
		if !seen[k] && !exp[k].Optional {
			kind := "?"
			if i := strings.Index(k, "::"); i >= 0 {
				rest := k[i+2:]
				if j := strings.Index(rest, "::"); j >= 0 {
					kind = rest[j+2:]
					if c := strings.IndexByte(kind, ':'); c >= 0 {
						kind = kind[:c]
					}
				}
			}
			rows = append(rows, c19Row{k, kind, "vanished", "vanished"})
		}
	}
	return rows
}

func c19LeanString(s string) string {
	s = strings.ReplaceAll(s, "\\", "\\\\")
	s = strings.ReplaceAll(s, "\"", "\\\"")
	return "\"" + s + "\""
}

// c19CensusLean renders lean/FV/Generated/Census19.lean.
func c19CensusLean(rows []c19Row) string {
	var b strings.Builder
	b.WriteString("-- GENERATED by harness/cc/census19.go from /repo and known/c19_census_expected.json on every check. Do not edit.\n")
	b.WriteString("import FV.Model.Determinism\n")
	b.WriteString("namespace FV.Census19\nopen FV.Determinism\n")
	b.WriteString("/-- every site of variation found in /repo/compiler/** and /repo/main.go, with the model pattern the committed expectation assigns to it (`unclassified`: new or changed site, `vanished`: expected site no longer in the source) -/\n")
	b.WriteString("def sites : List Site := [\n")
	for i, r := range rows {
		sep := ","
		if i == len(rows)-1 {
			sep = ""
		}
		fmt.Fprintf(&b, "  ⟨%s, %s, Pattern.%s⟩%s\n", c19LeanString(r.Key), c19LeanString(r.Kind), c19Patterns[r.Pattern], sep)
	}
	b.WriteString("]\nend FV.Census19\n")
	return b.String()
}
