package main

// C10 — renderer: prints a model as IDL text in a random lexical style. It is a transcription of
// grammar.peg's token sequences; between tokens it emits what the rule allows there:
//   gap kind 1 = WS (spaces, tabs, CR), 2 = `_` (WS and /* comments without a newline */),
//   3 = `__` (additionally newlines, // and # comments, multi-line comments).

import (
	"strconv"
	"strings"
)

type pxStyle struct {
	r        *Rng
	comments int    // probability (%) of a comment inside a gap that allows one
	space    int    // 0 dense, 1 normal, 2 airy
	sep      int    // list separators: 0 ',', 1 ';', 2 none, 3 mixed
	eos      int    // statement ends: 0 ';', 1 newline, 2 mixed
	quote    int    // 0 "..", 1 '..', 2 mixed
	nl       string // "\n" or "\r\n"
	sameLine bool   // FINDING CLASS same-line-statements: several statements on a line without ';'
	pfxCmt   bool   // FINDING CLASS prefix-comment: a comment between `prefix` and its first token
}

func pxNewStyle(r *Rng) *pxStyle {
	s := &pxStyle{r: r, comments: []int{0, 0, 10, 30, 60}[r.Intn(5)], space: r.Intn(3), sep: r.Intn(4), eos: r.Intn(3), quote: r.Intn(3), nl: "\n"}
	if r.Chance(15) {
		s.nl = "\r\n"
	}
	return s
}

var pxCommentTexts = []string{"", " ", "x", " struct X { 1: i32 a }", " \"quoted\" 'single'", " // nested", " # hash", " /* open", " ;,;", " }", " {",
	" TODO(bob): fix", " 日本語 é", "*", "**", " @see", " enum E { A = 1 }", "/", " include \"x.frugal\"", "\t tab", " a*b", " */2 ok" /* cut below */, "=", " ) (", " throws", " prefix a.b"}

type pxW struct {
	b    strings.Builder
	st   *pxStyle
	pend int
	last byte
}

func pxWordish(c byte) bool {
	return c >= 'a' && c <= 'z' || c >= 'A' && c <= 'Z' || c >= '0' && c <= '9' || c == '_' || c == '.' || c == '+' || c == '-'
}

func (w *pxW) gap(k int) {
	if k > w.pend {
		w.pend = k
	}
}

func (w *pxW) cmtText(noNewline bool) string {
	t := pxCommentTexts[w.st.r.Intn(len(pxCommentTexts))]
	t = strings.ReplaceAll(t, "*/", "* /")
	if strings.HasPrefix(t, "*@") {
		t = " " + t
	}
	if !noNewline && w.st.r.Chance(30) {
		t += w.st.nl + " * more" + w.st.nl
	}
	return t
}

// gapText produces a (possibly empty) piece of text that gap kind k accepts.
func (w *pxW) gapText(k int) string {
	r := w.st.r
	var b strings.Builder
	n := 0
	switch w.st.space {
	case 0:
		if r.Chance(15) {
			n = 1
		}
	case 1:
		n = r.Pick(0, 1, 1, 1, 2)
	case 2:
		n = 1 + r.Intn(3)
	}
	for i := 0; i < n; i++ {
		c := r.Intn(100)
		switch {
		case k >= 2 && c < w.st.comments/2:
			b.WriteString("/*" + w.cmtText(true) + "*/")
		case k >= 3 && c < w.st.comments:
			switch r.Intn(4) {
			case 0:
				b.WriteString("//" + strings.ReplaceAll(w.cmtText(true), "\r", "") + w.st.nl)
			case 1:
				b.WriteString("#" + strings.ReplaceAll(w.cmtText(true), "\r", "") + w.st.nl)
			case 2:
				b.WriteString("/*" + w.cmtText(false) + "*/")
			case 3:
				b.WriteString("/** thrift-style doc" + w.cmtText(false) + "*/")
			}
		case k >= 3 && c < w.st.comments+25:
			b.WriteString(w.st.nl)
			if w.st.space > 0 {
				b.WriteString(strings.Repeat(" ", r.Intn(5)))
			}
		case c > 95:
			b.WriteString("\t")
		case c > 93 && k >= 1:
			b.WriteString("\r")
		default:
			b.WriteString(" ")
		}
	}
	return b.String()
}

func (w *pxW) flushGap(next byte) {
	if w.pend == 0 {
		return
	}
	t := w.gapText(w.pend)
	if t == "" && pxWordish(w.last) && pxWordish(next) {
		t = " "
	}
	// a gap that starts with '/' or '#' directly after such a character could join into a comment opener
	if t != "" && (w.last == '/' || w.last == '*') && (t[0] == '/' || t[0] == '*') {
		t = " " + t
	}
	w.raw(t)
	w.pend = 0
}

func (w *pxW) raw(s string) {
	if s == "" {
		return
	}
	w.b.WriteString(s)
	w.last = s[len(s)-1]
}

func (w *pxW) tok(s string) {
	w.flushGap(s[0])
	w.raw(s)
}

// must: a non-empty gap of kind k made of plain whitespace first.
func (w *pxW) must(k int) {
	w.pend = 0
	w.raw(" ")
	w.gap(k)
}

// ---------------------------------------------------------------- tokens

func (w *pxW) lit(s string) {
	q := w.st.quote
	if q == 2 {
		q = w.st.r.Intn(2)
	}
	var b strings.Builder
	qc := byte('"')
	if q == 1 {
		qc = '\''
	}
	b.WriteByte(qc)
	for _, c := range s {
		switch {
		case c == rune(qc):
			b.WriteByte('\\')
			b.WriteRune(c)
		case c == '\\':
			b.WriteString(`\\`)
		case c == '\n':
			b.WriteString(`\n`)
		case c == '\t':
			if w.st.r.Bool() {
				b.WriteString(`\t`)
			} else {
				b.WriteRune(c)
			}
		default:
			b.WriteRune(c)
		}
	}
	b.WriteByte(qc)
	w.tok(b.String())
}

func (w *pxW) intTok(v int64) {
	s := strconv.FormatInt(v, 10)
	r := w.st.r
	if v >= 0 && r.Chance(8) {
		s = "+" + s
	} else if v >= 0 && r.Chance(4) {
		s = "00" + s
	} else if v < 0 && r.Chance(4) {
		s = "-0" + s[1:]
	}
	w.tok(s)
}

func (w *pxW) doubleTok(c *pxConst) {
	r := w.st.r
	d, e := c.Digits, c.Exp
	var m string
	switch {
	case e >= 0 && e <= 5 && r.Bool():
		m = d + strings.Repeat("0", e) + "."
		if r.Bool() {
			m += strings.Repeat("0", 1+r.Intn(2))
		}
		e = 0
	case e < 0 && -e <= len(d)+4 && r.Bool():
		if -e < len(d) {
			m = d[:len(d)+e] + "." + d[len(d)+e:]
		} else {
			m = "." + strings.Repeat("0", -e-len(d)) + d
			if r.Bool() {
				m = "0" + m
			}
		}
		e = 0
	default:
		k := r.Intn(len(d) + 1)
		m = d[:len(d)-k] + "." + d[len(d)-k:]
		e += k
		if m == "." {
			m = "0."
		}
	}
	if m[0] == '.' && len(m) == 1 {
		m = "0."
	}
	s := m
	if e != 0 || r.Chance(10) {
		es := strconv.Itoa(e)
		if e >= 0 && r.Bool() {
			es = "+" + es
		}
		s += string("eE"[r.Intn(2)]) + es
	}
	if c.Neg {
		s = "-" + s
	} else if r.Chance(10) {
		s = "+" + s
	}
	w.tok(s)
}

func (w *pxW) sepTok() {
	k := w.st.sep
	if k == 3 {
		k = w.st.r.Intn(3)
	}
	switch k {
	case 0:
		w.tok(",")
	case 1:
		w.tok(";")
	}
}

func (w *pxW) constVal(c *pxConst) {
	switch c.Kind {
	case 's':
		w.lit(c.S)
	case 'b':
		if c.B {
			w.tok("true")
		} else {
			w.tok("false")
		}
	case 'd':
		w.doubleTok(c)
	case 'i':
		w.intTok(c.I)
	case 'r':
		w.tok(c.S)
	case 'l':
		w.tok("[")
		w.gap(3)
		for _, x := range c.L {
			w.constVal(x)
			w.gap(3)
			w.sepTok()
			w.gap(3)
		}
		w.tok("]")
	case 'm':
		w.tok("{")
		w.gap(3)
		for i, kv := range c.M {
			w.constVal(kv[0])
			w.gap(3)
			w.tok(":")
			w.gap(3)
			w.constVal(kv[1])
			w.gap(3)
			if i < len(c.M)-1 || w.st.r.Bool() {
				w.tok(",")
			}
			w.gap(3)
		}
		w.tok("}")
	}
}

// anns renders `annotations:TypeAnnotations?`; the caller has already emitted the gap before it.
func (w *pxW) anns(a []pxAnn) {
	if len(a) == 0 {
		if w.st.r.Chance(4) {
			w.tok("(")
			w.gap(3)
			w.tok(")")
		}
		return
	}
	w.tok("(")
	w.gap(3)
	for _, x := range a {
		w.tok(x.Name)
		w.gap(2)
		if x.Value != "" || w.st.r.Chance(30) {
			w.tok("=")
			w.gap(3)
			w.lit(x.Value)
		}
		w.sepTok()
		w.gap(3)
	}
	w.tok(")")
}

func (w *pxW) typ(t *pxType) {
	switch t.Kind {
	case pxTBase:
		w.tok(t.Name)
		w.gap(2)
		w.anns(t.Anns)
	case pxTNamed:
		w.tok(t.Name)
	case pxTList, pxTSet:
		if t.Kind == pxTList {
			w.tok("list<")
		} else {
			w.tok("set<")
		}
		w.gap(1)
		w.typ(t.V)
		w.gap(1)
		w.tok(">")
		w.gap(2)
		w.anns(t.Anns)
	case pxTMap:
		w.tok("map<")
		w.gap(1)
		w.typ(t.K)
		w.gap(1)
		w.tok(",")
		w.gap(1)
		w.typ(t.V)
		w.gap(1)
		w.tok(">")
		w.gap(2)
		w.anns(t.Anns)
	}
}

// doc renders `docstr:(DocString __)?`.
func (w *pxW) doc(d []string) {
	if d == nil {
		return
	}
	r := w.st.r
	var b strings.Builder
	b.WriteString("/**@")
	if len(d) == 1 && d[0] == "" {
		b.WriteString([]string{"", " ", "\n "}[r.Intn(3)])
	} else {
		// line ends inside a doc comment are always "\n": the action splits on "\n" only and
		// trims '*' and ' ' (not tabs) from the left of every line
		b.WriteString([]string{"", " ", "\n * ", "  "}[r.Intn(4)])
		lead := []string{" * ", "* ", "", "   ", " ** "}[r.Intn(5)]
		for i, l := range d {
			if i > 0 {
				b.WriteString("\n")
				if l == "" {
					b.WriteString(strings.TrimRight(lead, " \t"))
				} else {
					b.WriteString(lead)
				}
			}
			b.WriteString(l)
		}
		b.WriteString([]string{"", " ", "\n ", "\n"}[r.Intn(4)])
	}
	b.WriteString("*/")
	w.tok(b.String())
	w.gap(3)
}

func (w *pxW) field(f *pxField) {
	w.doc(f.Doc)
	s := strconv.Itoa(f.ID)
	if f.ID >= 0 && w.st.r.Chance(5) {
		s = "+" + s
	}
	w.tok(s)
	w.gap(2)
	w.tok(":")
	w.gap(2)
	switch f.Mod {
	case pxRequired:
		w.tok("required")
	case pxOptional:
		w.tok("optional")
	}
	w.gap(2)
	w.typ(f.Type)
	w.gap(2)
	w.tok(f.Name)
	w.gap(3)
	if f.Default != nil {
		w.tok("=")
		w.gap(2)
		w.constVal(f.Default)
	}
	w.gap(2)
	w.anns(f.Anns)
	w.sepTok()
}

func (w *pxW) fieldList(fs []*pxField) {
	for _, f := range fs {
		w.field(f)
		w.gap(3)
	}
}

func (w *pxW) enum(e *pxEnum) {
	w.tok("enum")
	w.gap(2)
	w.tok(e.Name)
	w.gap(3)
	w.tok("{")
	w.gap(3)
	for _, v := range e.Values {
		w.doc(v.Doc)
		w.tok(v.Name)
		w.gap(2)
		if v.Explicit {
			w.tok("=")
			w.gap(2)
			w.intTok(int64(v.Value))
		}
		w.gap(2)
		w.anns(v.Anns)
		w.sepTok()
		w.gap(3)
	}
	w.tok("}")
	w.gap(2)
	w.anns(e.Anns)
}

func (w *pxW) structLike(s *pxStruct) {
	w.tok(s.Kind)
	w.gap(2)
	w.tok(s.Name)
	w.gap(3)
	w.tok("{")
	w.gap(3)
	w.fieldList(s.Fields)
	w.tok("}")
	w.gap(2)
	w.anns(s.Anns)
}

func (w *pxW) typedef(t *pxTypedef) {
	w.tok("typedef")
	w.gap(2)
	w.typ(t.Type)
	w.gap(2)
	w.tok(t.Name)
	w.gap(2)
	w.anns(t.Anns)
}

func (w *pxW) constant(c *pxConstant) {
	w.tok("const")
	w.gap(2)
	w.typ(c.Type)
	w.gap(2)
	w.tok(c.Name)
	w.gap(2)
	w.tok("=")
	w.gap(2)
	w.constVal(c.Value)
	w.gap(2)
	w.anns(c.Anns)
}

func (w *pxW) include(i *pxInclude) {
	w.tok("include")
	w.gap(2)
	w.lit(i.Path)
	w.gap(2)
	w.anns(i.Anns)
}

func (w *pxW) namespace(n *pxNamespace) {
	w.tok("namespace")
	w.gap(2)
	w.tok(n.Scope)
	w.must(2)
	w.tok(n.Value)
	w.gap(2)
	w.anns(n.Anns)
}

func (w *pxW) method(m *pxMethod) {
	w.doc(m.Doc)
	if m.Oneway {
		w.tok("oneway")
		w.gap(3)
	}
	if m.Ret == nil {
		w.tok("void")
	} else {
		w.typ(m.Ret)
	}
	w.gap(3)
	w.tok(m.Name)
	w.gap(2)
	w.tok("(")
	w.gap(3)
	w.fieldList(m.Args)
	w.tok(")")
	w.gap(3)
	if m.HasThr || len(m.Throws) > 0 {
		w.tok("throws")
		w.gap(3)
		w.tok("(")
		w.gap(3)
		w.fieldList(m.Throws)
		w.tok(")")
	}
	w.gap(2)
	w.anns(m.Anns)
	w.sepTok()
}

func (w *pxW) service(s *pxService) {
	w.tok("service")
	w.gap(2)
	w.tok(s.Name)
	w.gap(2)
	if s.Extends != "" {
		w.tok("extends")
		w.gap(3)
		w.tok(s.Extends)
		w.gap(3)
	}
	w.gap(3)
	w.tok("{")
	w.gap(3)
	for _, m := range s.Methods {
		w.method(m)
		w.gap(3)
	}
	w.tok("}")
	w.gap(2)
	w.anns(s.Anns)
}

func (w *pxW) scope(s *pxScope) {
	w.tok("scope")
	w.gap(3)
	w.tok(s.Name)
	w.gap(3)
	if s.HasPfx {
		w.tok("prefix")
		// only plain whitespace between `prefix` and the first token (a comment here is the
		// recorded finding prefix-comment); a prefix word runs up to the next whitespace
		w.pend = 0
		w.raw([]string{" ", "  ", "\t", w.st.nl + "  "}[w.st.r.Intn(4)])
		if w.st.pfxCmt {
			w.raw("/* topic */ ")
		}
		p, _ := pxPrefixString(s)
		w.raw(p)
		w.raw([]string{" ", "\t", w.st.nl}[w.st.r.Intn(3)])
	}
	w.gap(3)
	w.tok("{")
	w.gap(3)
	for _, o := range s.Ops {
		w.doc(o.Doc)
		w.tok(o.Name)
		w.gap(2)
		w.tok(":")
		w.gap(3)
		w.typ(o.Type)
		w.gap(2)
		w.anns(o.Anns)
		w.sepTok()
		w.gap(3)
	}
	w.tok("}")
	w.gap(2)
	w.anns(s.Anns)
}

// eos renders EOS (after the `_ annotations?` of the statement). last: nothing follows.
func (w *pxW) eos(last bool) {
	r := w.st.r
	k := w.st.eos
	if k == 2 {
		k = r.Intn(2)
	}
	if w.st.sameLine && !last {
		w.pend = 0
		w.raw(" ")
		return
	}
	if last && r.Chance(35) {
		// `__ EOF`
		w.gap(3)
		w.flushGap(0)
		return
	}
	if k == 0 {
		w.gap(3)
		w.tok(";")
		return
	}
	// `_ SingleLineComment? EOL`
	w.gap(2)
	w.flushGap(0)
	if r.Intn(100) < w.st.comments {
		if r.Bool() {
			w.raw("//" + strings.ReplaceAll(w.cmtText(true), "\r", ""))
		} else {
			w.raw("#" + strings.ReplaceAll(w.cmtText(true), "\r", ""))
		}
	}
	w.raw(w.st.nl)
}

// pxRenderFile prints the file; declarations of different kinds are interleaved at random
// (the order within a kind is kept: it is part of the parser's result).
func pxRenderFile(f *pxFile, st *pxStyle) string {
	w := &pxW{st: st}
	r := st.r
	type item struct {
		doc []string
		fn  func()
	}
	var qs [][]item
	add := func(its []item) {
		if len(its) > 0 {
			qs = append(qs, its)
		}
	}
	var its []item
	for _, x := range f.Includes {
		x := x
		its = append(its, item{nil, func() { w.include(x) }})
	}
	add(its)
	its = nil
	for _, x := range f.Namespaces {
		x := x
		its = append(its, item{nil, func() { w.namespace(x) }})
	}
	add(its)
	its = nil
	for _, x := range f.Typedefs {
		x := x
		its = append(its, item{x.Doc, func() { w.typedef(x) }})
	}
	add(its)
	its = nil
	for _, x := range f.Constants {
		x := x
		its = append(its, item{x.Doc, func() { w.constant(x) }})
	}
	add(its)
	its = nil
	for _, x := range f.Enums {
		x := x
		its = append(its, item{x.Doc, func() { w.enum(x) }})
	}
	add(its)
	for _, kind := range []string{"struct", "exception", "union"} {
		its = nil
		for _, x := range f.Structs {
			x := x
			if x.Kind == kind {
				its = append(its, item{x.Doc, func() { w.structLike(x) }})
			}
		}
		add(its)
	}
	its = nil
	for _, x := range f.Services {
		x := x
		its = append(its, item{x.Doc, func() { w.service(x) }})
	}
	add(its)
	its = nil
	for _, x := range f.Scopes {
		x := x
		its = append(its, item{x.Doc, func() { w.scope(x) }})
	}
	add(its)
	grouped := r.Chance(30) // Thrift's conventional order: headers first, then definitions
	total := 0
	for _, q := range qs {
		total += len(q)
	}
	w.gap(3)
	for n := 0; n < total; n++ {
		k := 0
		if !grouped {
			k = r.Intn(len(qs))
		}
		it := qs[k][0]
		qs[k] = qs[k][1:]
		if len(qs[k]) == 0 {
			qs = append(qs[:k], qs[k+1:]...)
		}
		w.doc(it.doc)
		it.fn()
		w.eos(n == total-1)
		w.gap(3)
	}
	w.flushGap(0)
	return w.b.String()
}

// pxRenderProgram renders the main file and every file reachable through includes; the key is
// the file's path relative to the root of the tree (pxFile.Name). A file reached twice is rendered once.
func pxRenderProgram(f *pxFile, r *Rng, mk func(*Rng) *pxStyle) map[string]string {
	out := map[string]string{}
	var walk func(f *pxFile)
	walk = func(f *pxFile) {
		if _, ok := out[f.Name]; ok {
			return
		}
		out[f.Name] = pxRenderFile(f, mk(r))
		for _, i := range f.Includes {
			if i.File != nil {
				walk(i.File)
			}
		}
	}
	walk(f)
	return out
}

// pxFragment renders one syntactic fragment with a fresh writer.
func pxFragment(st *pxStyle, fn func(w *pxW)) string {
	w := &pxW{st: st}
	fn(w)
	w.pend = 0
	return w.b.String()
}
