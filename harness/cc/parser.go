package main

// C10 — the parser represents every declaration exactly.
//
// This file: the harness-side IDL *model* (px* types), its canonical dump, and the
// canonical dump of the real parser's result (*parser.Frugal).  Equality of the two dumps
// for `parse(render(model))` is the property oracle; it does not involve the Lean model.
// The same dump format is produced by lean/Driver/Peg.lean from the Lean PEG interpreter.
//
// Canonical dump (no spaces):
//   deep   := file Q[name@hex(origin path)=deep,..]   (per include edge, sorted by include name)
//   file   := I[inc,..]N[ns,..]T[td,..]C[const,..]E[enum,..]S[st,..]X[exc,..]U[union,..]V[svc,..]P[scope,..]
//   hex    := lower-case hex of the UTF-8 bytes, "-" when empty
//   anns   := "" | (name=hex,name=hex)
//   doc    := "" | @hex(lines joined by \n)@
//   type   := name anns | list<type> anns | set<type> anns | map<type,type> anns
//   cv     := s:hex | b:true | b:false | d:decimal | i:int | r:identifier | l[cv,..] | m{cv=cv,..}
//   inc    := name=hex(value) anns           ns := scope=value anns
//   td     := doc name|type|anns             const := doc name|type|cv|anns
//   enum   := doc name{ev,..}anns            ev := doc name=int anns
//   st     := doc name{field;..}anns         field := doc id:mod:name:type:cv-or-~:anns   (mod r|o|d)
//   svc    := doc name<extends{method;..}anns
//   method := doc name:o-or-t:ret|{field;..}|{field;..}|anns          (ret = type | void)
//   scope  := doc name|hex(prefix)|var,var|{op;..}anns  (sorted by name)   op := doc name:type|anns

import (
	"fmt"
	"sort"
	"strconv"
	"strings"

	"github.com/Workiva/frugal/compiler/parser"
)

// ---------------------------------------------------------------- model

type pxAnn struct{ Name, Value string }

const (
	pxTBase = iota
	pxTNamed
	pxTList
	pxTSet
	pxTMap
)

type pxType struct {
	Kind int
	Name string // base or named
	K, V *pxType
	Anns []pxAnn // base and container types only (the grammar has no annotations on a named type)
}

// pxConst is a constant value. Kind: 's' string, 'b' bool, 'd' double, 'i' int, 'r' identifier, 'l' list, 'm' map.
type pxConst struct {
	Kind byte
	S    string
	B    bool
	I    int64
	// double: (-1)^Neg * Digits * 10^Exp, Digits a decimal digit string (<= 15 significant digits)
	Neg    bool
	Digits string
	Exp    int
	L      []*pxConst
	M      [][2]*pxConst
}

const (
	pxRequired = 0
	pxOptional = 1
	pxDefault  = 2
)

type pxField struct {
	Doc     []string
	ID      int
	Name    string
	Mod     int
	Type    *pxType
	Default *pxConst
	Anns    []pxAnn
}

type pxStruct struct {
	Doc    []string
	Kind   string // struct | exception | union
	Name   string
	Fields []*pxField
	Anns   []pxAnn
}

type pxEnumValue struct {
	Doc      []string
	Name     string
	Explicit bool
	Value    int // meaningful when Explicit
	Anns     []pxAnn
}

type pxEnum struct {
	Doc    []string
	Name   string
	Values []*pxEnumValue
	Anns   []pxAnn
}

type pxTypedef struct {
	Doc  []string
	Name string
	Type *pxType
	Anns []pxAnn
}

type pxConstant struct {
	Doc   []string
	Name  string
	Type  *pxType
	Value *pxConst
	Anns  []pxAnn
}

type pxInclude struct {
	Path string
	Anns []pxAnn
	File *pxFile
}

type pxNamespace struct {
	Scope, Value string
	Anns         []pxAnn
}

type pxMethod struct {
	Doc    []string
	Name   string
	Oneway bool
	Ret    *pxType // nil = void
	Args   []*pxField
	Throws []*pxField
	HasThr bool // `throws ( )` written even when empty
	Anns   []pxAnn
}

type pxService struct {
	Doc     []string
	Name    string
	Extends string
	Methods []*pxMethod
	Anns    []pxAnn
}

type pxOp struct {
	Doc  []string
	Name string
	Type *pxType
	Anns []pxAnn
}

// pxPTok is one '.'-separated piece of a scope prefix.
type pxPTok struct {
	Var  bool
	Text string
}

type pxScope struct {
	Doc    []string
	Name   string
	HasPfx bool
	Prefix []pxPTok
	Ops    []*pxOp
	Anns   []pxAnn
}

type pxFile struct {
	Name       string // file name, e.g. main.frugal
	Includes   []*pxInclude
	Namespaces []*pxNamespace
	Typedefs   []*pxTypedef
	Constants  []*pxConstant
	Enums      []*pxEnum
	Structs    []*pxStruct // all three kinds, in source order per kind
	Services   []*pxService
	Scopes     []*pxScope
}

// ---------------------------------------------------------------- dump of the model (what the parser must produce)

func pxHex(s string) string { return hx([]byte(s)) }

func pxDumpAnns(a []pxAnn) string {
	if len(a) == 0 {
		return ""
	}
	p := make([]string, len(a))
	for i, x := range a {
		p[i] = x.Name + "=" + pxHex(x.Value)
	}
	return "(" + strings.Join(p, ",") + ")"
}

func pxDumpDoc(d []string) string {
	if d == nil {
		return ""
	}
	return "@" + pxHex(strings.Join(d, "\n")) + "@"
}

func pxDumpType(t *pxType) string {
	switch t.Kind {
	case pxTList:
		return "list<" + pxDumpType(t.V) + ">" + pxDumpAnns(t.Anns)
	case pxTSet:
		return "set<" + pxDumpType(t.V) + ">" + pxDumpAnns(t.Anns)
	case pxTMap:
		return "map<" + pxDumpType(t.K) + "," + pxDumpType(t.V) + ">" + pxDumpAnns(t.Anns)
	}
	return t.Name + pxDumpAnns(t.Anns)
}

// pxDecimal is the canonical decimal rendering of (-1)^neg * digits * 10^exp
// (what strconv.FormatFloat(v,'f',-1,64) prints for a value with <= 15 significant digits).
func pxDecimal(neg bool, digits string, exp int) string {
	d := strings.TrimLeft(digits, "0")
	for len(d) > 0 && d[len(d)-1] == '0' {
		d = d[:len(d)-1]
		exp++
	}
	sign := ""
	if neg {
		sign = "-"
	}
	if d == "" {
		return sign + "0"
	}
	if exp >= 0 {
		return sign + d + strings.Repeat("0", exp)
	}
	n := len(d)
	if n > -exp {
		return sign + d[:n+exp] + "." + d[n+exp:]
	}
	return sign + "0." + strings.Repeat("0", -exp-n) + d
}

func pxDumpConst(c *pxConst) string {
	switch c.Kind {
	case 's':
		return "s:" + pxHex(c.S)
	case 'b':
		if c.B {
			return "b:true"
		}
		return "b:false"
	case 'd':
		return "d:" + pxDecimal(c.Neg, c.Digits, c.Exp)
	case 'i':
		return "i:" + strconv.FormatInt(c.I, 10)
	case 'r':
		return "r:" + c.S
	case 'l':
		p := make([]string, len(c.L))
		for i, x := range c.L {
			p[i] = pxDumpConst(x)
		}
		return "l[" + strings.Join(p, ",") + "]"
	case 'm':
		p := make([]string, len(c.M))
		for i, kv := range c.M {
			p[i] = pxDumpConst(kv[0]) + "=" + pxDumpConst(kv[1])
		}
		return "m{" + strings.Join(p, ",") + "}"
	}
	return "?"
}

// forceOpt: union fields and throws fields are optional whatever was written.
func pxDumpField(f *pxField, forceOpt bool) string {
	mod := "rod"[f.Mod : f.Mod+1]
	if forceOpt {
		mod = "o"
	}
	def := "~"
	if f.Default != nil {
		def = pxDumpConst(f.Default)
	}
	return fmt.Sprintf("%s%d:%s:%s:%s:%s:%s", pxDumpDoc(f.Doc), f.ID, mod, f.Name, pxDumpType(f.Type), def, pxDumpAnns(f.Anns))
}

func pxDumpFields(fs []*pxField, forceOpt bool) string {
	p := make([]string, len(fs))
	for i, f := range fs {
		p[i] = pxDumpField(f, forceOpt)
	}
	return "{" + strings.Join(p, ";") + "}"
}

func pxDumpStruct(s *pxStruct) string {
	return pxDumpDoc(s.Doc) + s.Name + pxDumpFields(s.Fields, s.Kind == "union") + pxDumpAnns(s.Anns)
}

// pxEnumNumbers is Thrift's rule: an explicit value is taken as written, an implicit one is
// the previous value + 1 (0 for the first).
func pxEnumNumbers(vs []*pxEnumValue) []int {
	out := make([]int, len(vs))
	prev := -1
	for i, v := range vs {
		if v.Explicit {
			prev = v.Value
		} else {
			prev = prev + 1
		}
		out[i] = prev
	}
	return out
}

func pxDumpEnum(e *pxEnum) string {
	nums := pxEnumNumbers(e.Values)
	p := make([]string, len(e.Values))
	for i, v := range e.Values {
		p[i] = fmt.Sprintf("%s%s=%d%s", pxDumpDoc(v.Doc), v.Name, nums[i], pxDumpAnns(v.Anns))
	}
	return pxDumpDoc(e.Doc) + e.Name + "{" + strings.Join(p, ",") + "}" + pxDumpAnns(e.Anns)
}

func pxDumpMethod(m *pxMethod) string {
	ow := "t"
	if m.Oneway {
		ow = "o"
	}
	ret := "void"
	if m.Ret != nil {
		ret = pxDumpType(m.Ret)
	}
	return pxDumpDoc(m.Doc) + m.Name + ":" + ow + ":" + ret + "|" + pxDumpFields(m.Args, false) + "|" + pxDumpFields(m.Throws, true) + "|" + pxDumpAnns(m.Anns)
}

func pxDumpService(s *pxService) string {
	p := make([]string, len(s.Methods))
	for i, m := range s.Methods {
		p[i] = pxDumpMethod(m)
	}
	return pxDumpDoc(s.Doc) + s.Name + "<" + s.Extends + "{" + strings.Join(p, ";") + "}" + pxDumpAnns(s.Anns)
}

func pxPrefixString(s *pxScope) (string, []string) {
	if !s.HasPfx {
		return "", nil
	}
	var parts, vars []string
	for _, t := range s.Prefix {
		if t.Var {
			parts = append(parts, "{"+t.Text+"}")
			vars = append(vars, t.Text)
		} else {
			parts = append(parts, t.Text)
		}
	}
	return strings.Join(parts, "."), vars
}

func pxDumpScope(s *pxScope) string {
	p := make([]string, len(s.Ops))
	for i, o := range s.Ops {
		p[i] = pxDumpDoc(o.Doc) + o.Name + ":" + pxDumpType(o.Type) + "|" + pxDumpAnns(o.Anns)
	}
	pfx, vars := pxPrefixString(s)
	return pxDumpDoc(s.Doc) + s.Name + "|" + pxHex(pfx) + "|" + strings.Join(vars, ",") + "|{" + strings.Join(p, ";") + "}" + pxDumpAnns(s.Anns)
}

func pxIncludeName(path string) string {
	name := path
	if i := strings.LastIndex(name, "/"); i >= 0 {
		name = name[i+1:]
	}
	if ix := strings.LastIndex(name, "."); ix > 0 {
		name = name[:ix]
	}
	return name
}

func pxSection(tag string, items []string) string { return tag + "[" + strings.Join(items, ",") + "]" }

// pxDumpFile: deep also dumps the files reached through includes (Q[name=<file>,..], sorted).
func pxDumpFile(f *pxFile, deep bool) string {
	var b strings.Builder
	var it []string
	for _, i := range f.Includes {
		it = append(it, pxIncludeName(i.Path)+"="+pxHex(i.Path)+pxDumpAnns(i.Anns))
	}
	b.WriteString(pxSection("I", it))
	it = nil
	for _, n := range f.Namespaces {
		it = append(it, n.Scope+"="+n.Value+pxDumpAnns(n.Anns))
	}
	b.WriteString(pxSection("N", it))
	it = nil
	for _, t := range f.Typedefs {
		it = append(it, pxDumpDoc(t.Doc)+t.Name+"|"+pxDumpType(t.Type)+"|"+pxDumpAnns(t.Anns))
	}
	b.WriteString(pxSection("T", it))
	it = nil
	for _, c := range f.Constants {
		it = append(it, pxDumpDoc(c.Doc)+c.Name+"|"+pxDumpType(c.Type)+"|"+pxDumpConst(c.Value)+"|"+pxDumpAnns(c.Anns))
	}
	b.WriteString(pxSection("C", it))
	it = nil
	for _, e := range f.Enums {
		it = append(it, pxDumpEnum(e))
	}
	b.WriteString(pxSection("E", it))
	for _, k := range [][2]string{{"struct", "S"}, {"exception", "X"}, {"union", "U"}} {
		it = nil
		for _, s := range f.Structs {
			if s.Kind == k[0] {
				it = append(it, pxDumpStruct(s))
			}
		}
		b.WriteString(pxSection(k[1], it))
	}
	it = nil
	for _, s := range f.Services {
		it = append(it, pxDumpService(s))
	}
	b.WriteString(pxSection("V", it))
	sc := append([]*pxScope{}, f.Scopes...)
	sort.SliceStable(sc, func(i, j int) bool { return sc[i].Name < sc[j].Name })
	it = nil
	for _, s := range sc {
		it = append(it, pxDumpScope(s))
	}
	b.WriteString(pxSection("P", it))
	if deep {
		// per include edge: the include name, the ORIGIN (path of the file the edge resolves to,
		// relative to the root of the tree) and the deep dump of exactly that file
		it = nil
		incs := append([]*pxInclude{}, f.Includes...)
		sort.SliceStable(incs, func(i, j int) bool { return pxIncludeName(incs[i].Path) < pxIncludeName(incs[j].Path) })
		for _, i := range incs {
			if i.File != nil {
				it = append(it, pxIncludeName(i.Path)+"@"+pxHex(i.File.Name)+"="+pxDumpFile(i.File, true))
			}
		}
		b.WriteString(pxSection("Q", it))
	}
	return b.String()
}

// ---------------------------------------------------------------- dump of the real parser's result

func pxRAnns(a parser.Annotations) string {
	if len(a) == 0 {
		return ""
	}
	p := make([]string, len(a))
	for i, x := range a {
		p[i] = x.Name + "=" + pxHex(x.Value)
	}
	return "(" + strings.Join(p, ",") + ")"
}

func pxRDoc(d []string) string {
	if d == nil {
		return ""
	}
	return "@" + pxHex(strings.Join(d, "\n")) + "@"
}

func pxRType(t *parser.Type) string {
	if t == nil {
		return "<nil>"
	}
	switch {
	case t.Name == "list" && t.ValueType != nil && t.KeyType == nil:
		return "list<" + pxRType(t.ValueType) + ">" + pxRAnns(t.Annotations)
	case t.Name == "set" && t.ValueType != nil && t.KeyType == nil:
		return "set<" + pxRType(t.ValueType) + ">" + pxRAnns(t.Annotations)
	case t.Name == "map" && t.ValueType != nil && t.KeyType != nil:
		return "map<" + pxRType(t.KeyType) + "," + pxRType(t.ValueType) + ">" + pxRAnns(t.Annotations)
	}
	s := t.Name + pxRAnns(t.Annotations)
	if t.KeyType != nil || t.ValueType != nil {
		s += "!children"
	}
	return s
}

func pxRConst(v interface{}) string {
	switch x := v.(type) {
	case string:
		return "s:" + pxHex(x)
	case bool:
		if x {
			return "b:true"
		}
		return "b:false"
	case float64:
		return "d:" + strconv.FormatFloat(x, 'f', -1, 64)
	case int64:
		return "i:" + strconv.FormatInt(x, 10)
	case parser.Identifier:
		return "r:" + string(x)
	case []interface{}:
		p := make([]string, len(x))
		for i, e := range x {
			p[i] = pxRConst(e)
		}
		return "l[" + strings.Join(p, ",") + "]"
	case []parser.KeyValue:
		p := make([]string, len(x))
		for i, kv := range x {
			p[i] = pxRConst(kv.Key) + "=" + pxRConst(kv.Value)
		}
		return "m{" + strings.Join(p, ",") + "}"
	case nil:
		return "~"
	}
	return fmt.Sprintf("?%T", v)
}

func pxRField(f *parser.Field) string {
	mod := "?"
	switch f.Modifier {
	case parser.Required:
		mod = "r"
	case parser.Optional:
		mod = "o"
	case parser.Default:
		mod = "d"
	}
	return fmt.Sprintf("%s%d:%s:%s:%s:%s:%s", pxRDoc(f.Comment), f.ID, mod, f.Name, pxRType(f.Type), pxRConst(f.Default), pxRAnns(f.Annotations))
}

func pxRFields(fs []*parser.Field) string {
	p := make([]string, len(fs))
	for i, f := range fs {
		p[i] = pxRField(f)
	}
	return "{" + strings.Join(p, ";") + "}"
}

func pxRStructs(tag string, ss []*parser.Struct, want parser.StructType) string {
	var it []string
	for _, s := range ss {
		x := pxRDoc(s.Comment) + s.Name + pxRFields(s.Fields) + pxRAnns(s.Annotations)
		if s.Type != want {
			x += "!kind"
		}
		it = append(it, x)
	}
	return pxSection(tag, it)
}

func pxRDumpRoot(f *parser.Frugal, deep bool, root string) string {
	var b strings.Builder
	var it []string
	for _, i := range f.Includes {
		it = append(it, i.Name+"="+pxHex(i.Value)+pxRAnns(i.Annotations))
	}
	b.WriteString(pxSection("I", it))
	it = nil
	for _, n := range f.Namespaces {
		it = append(it, n.Scope+"="+n.Value+pxRAnns(n.Annotations))
	}
	b.WriteString(pxSection("N", it))
	it = nil
	for _, t := range f.Typedefs {
		it = append(it, pxRDoc(t.Comment)+t.Name+"|"+pxRType(t.Type)+"|"+pxRAnns(t.Annotations))
	}
	b.WriteString(pxSection("T", it))
	it = nil
	for _, c := range f.Constants {
		it = append(it, pxRDoc(c.Comment)+c.Name+"|"+pxRType(c.Type)+"|"+pxRConst(c.Value)+"|"+pxRAnns(c.Annotations))
	}
	b.WriteString(pxSection("C", it))
	it = nil
	for _, e := range f.Enums {
		p := make([]string, len(e.Values))
		for i, v := range e.Values {
			p[i] = fmt.Sprintf("%s%s=%d%s", pxRDoc(v.Comment), v.Name, v.Value, pxRAnns(v.Annotations))
		}
		it = append(it, pxRDoc(e.Comment)+e.Name+"{"+strings.Join(p, ",")+"}"+pxRAnns(e.Annotations))
	}
	b.WriteString(pxSection("E", it))
	b.WriteString(pxRStructs("S", f.Structs, parser.StructTypeStruct))
	b.WriteString(pxRStructs("X", f.Exceptions, parser.StructTypeException))
	b.WriteString(pxRStructs("U", f.Unions, parser.StructTypeUnion))
	it = nil
	for _, s := range f.Services {
		p := make([]string, len(s.Methods))
		for i, m := range s.Methods {
			ow := "t"
			if m.Oneway {
				ow = "o"
			}
			ret := "void"
			if m.ReturnType != nil {
				ret = pxRType(m.ReturnType)
			}
			p[i] = pxRDoc(m.Comment) + m.Name + ":" + ow + ":" + ret + "|" + pxRFields(m.Arguments) + "|" + pxRFields(m.Exceptions) + "|" + pxRAnns(m.Annotations)
		}
		it = append(it, pxRDoc(s.Comment)+s.Name+"<"+s.Extends+"{"+strings.Join(p, ";")+"}"+pxRAnns(s.Annotations))
	}
	b.WriteString(pxSection("V", it))
	sc := append([]*parser.Scope{}, f.Scopes...)
	sort.SliceStable(sc, func(i, j int) bool { return sc[i].Name < sc[j].Name })
	it = nil
	for _, s := range sc {
		p := make([]string, len(s.Operations))
		for i, o := range s.Operations {
			p[i] = pxRDoc(o.Comment) + o.Name + ":" + pxRType(o.Type) + "|" + pxRAnns(o.Annotations)
		}
		pfx, vars := "", []string(nil)
		if s.Prefix != nil {
			pfx, vars = s.Prefix.String, s.Prefix.Variables
		}
		it = append(it, pxRDoc(s.Comment)+s.Name+"|"+pxHex(pfx)+"|"+strings.Join(vars, ",")+"|{"+strings.Join(p, ";")+"}"+pxRAnns(s.Annotations))
	}
	b.WriteString(pxSection("P", it))
	if deep {
		keys := make([]string, 0, len(f.ParsedIncludes))
		for k := range f.ParsedIncludes {
			keys = append(keys, k)
		}
		sort.Strings(keys)
		it = nil
		for _, k := range keys {
			inc := f.ParsedIncludes[k]
			it = append(it, k+"@"+pxHex(strings.TrimPrefix(inc.File, root))+"="+pxRDumpRoot(inc, true, root))
		}
		b.WriteString(pxSection("Q", it))
	}
	return b.String()
}

// pxRDump: shallow dump (deep=false), or deep dump of a program whose main file has the
// root-relative path mainRel (the root is what precedes it in the parsed file's path).
func pxRDump(f *parser.Frugal, deep bool) string { return pxRDumpRoot(f, deep, "") }

func pxRDumpDeep(f *parser.Frugal, mainRel string) string {
	return pxRDumpRoot(f, true, strings.TrimSuffix(f.File, mainRel))
}
