package main

// C11: generator of random VALID multi-file IDL programs (and of single
// semantic invalidities injected into them). The program is kept as a small
// tree so that it can be rendered as IDL text (for the real compiler) and as a
// token list (for the Lean model, op `val`).
//
// Classes that are EXCLUDED from the valid stream because they are recorded
// known findings (KNOWN_FINDINGS.txt) are marked `excluded:` below.

import (
	"fmt"
	"sort"
	"strconv"
	"strings"
)

type c11GTy struct {
	name string // base type name, "list", "set", "map", or a (possibly include-qualified) custom name
	k, v *c11GTy
}

func c11TBase(n string) *c11GTy  { return &c11GTy{name: n} }
func c11TList(e *c11GTy) *c11GTy    { return &c11GTy{name: "list", v: e} }
func c11TSet(e *c11GTy) *c11GTy     { return &c11GTy{name: "set", v: e} }
func c11TMap(k, v *c11GTy) *c11GTy  { return &c11GTy{name: "map", k: k, v: v} }
func (t *c11GTy) isCont() bool { return t.v != nil }

func (t *c11GTy) String() string {
	switch {
	case t.name == "map" && t.k != nil:
		return "map<" + t.k.String() + ", " + t.v.String() + ">"
	case t.name == "list" && t.v != nil:
		return "list<" + t.v.String() + ">"
	case t.name == "set" && t.v != nil:
		return "set<" + t.v.String() + ">"
	}
	return t.name
}

// enc: prefix tokens for the model (`L t`, `S t`, `M k v`, `N name`).
func (t *c11GTy) enc(out *[]string) {
	switch {
	case t.name == "map" && t.k != nil:
		*out = append(*out, "M")
		t.k.enc(out)
		t.v.enc(out)
	case t.name == "list" && t.v != nil:
		*out = append(*out, "L")
		t.v.enc(out)
	case t.name == "set" && t.v != nil:
		*out = append(*out, "S")
		t.v.enc(out)
	default:
		*out = append(*out, "N", t.name)
	}
}

type c11GField struct {
	id   int
	name string
	mod  string // "", "required", "optional"
	t    *c11GTy
	def  string // rendered default value, "" = none
	ann  string
	doc  string
}
type c11GStruct struct {
	kind   string // struct, union, exception
	name   string
	fields []*c11GField
	doc    string
}
type c11GEnum struct {
	name string
	vals []string
	nums []int // -1 = implicit
}
type c11GTypedef struct {
	name string
	t    *c11GTy
}
type c11GConst struct {
	name string
	t    *c11GTy
	val  string // rendered
	ref  string // identifier referenced by the value ("" = literal)
}
type c11GMethod struct {
	name   string
	oneway bool
	ret    *c11GTy // nil = void
	args   []*c11GField
	excs   []*c11GField
	ann    string
	doc    string
}
type c11GService struct {
	name, ext string
	methods   []*c11GMethod
}
type c11GOp struct {
	name string
	t    *c11GTy
}
type c11GScope struct {
	name   string
	prefix string
	ops    []*c11GOp
}
type c11GFile struct {
	name       string   // base name without extension
	includes   []string // include values ("inc0.frugal")
	namespaces []string // rendered lines
	vendorWild bool     // `namespace * x (vendor)` — invalid
	typedefs   []*c11GTypedef
	enums      []*c11GEnum
	structs    []*c11GStruct
	consts     []*c11GConst
	services   []*c11GService
	scopes     []*c11GScope
}
type c11GProg struct {
	feat  map[string]bool // features that put single targets into a recorded known-finding class
	files []*c11GFile // files[0] is the main file
	extra map[string]string // extra raw files (invalid side: circular includes)
}

// ---------------------------------------------------------------- rendering

func c11RenderField(f *c11GField, sep string) string {
	s := ""
	if f.doc != "" {
		s += "    /**@ " + f.doc + " */\n"
	}
	s += "    " + strconv.Itoa(f.id) + ": "
	if f.mod != "" {
		s += f.mod + " "
	}
	s += f.t.String() + " " + f.name
	if f.def != "" {
		s += " = " + f.def
	}
	if f.ann != "" {
		s += " " + f.ann
	}
	return s + sep + "\n"
}

func c11RenderFieldsInline(fs []*c11GField) string {
	parts := []string{}
	for _, f := range fs {
		s := strconv.Itoa(f.id) + ": "
		if f.mod != "" {
			s += f.mod + " "
		}
		s += f.t.String() + " " + f.name
		if f.def != "" {
			s += " = " + f.def
		}
		parts = append(parts, s)
	}
	return strings.Join(parts, ", ")
}

func (f *c11GFile) render() string {
	var b strings.Builder
	for _, n := range f.namespaces {
		b.WriteString(n + "\n")
	}
	if f.vendorWild {
		b.WriteString("namespace * vend.ored (vendor=\"some/where\")\n")
	}
	for _, i := range f.includes {
		b.WriteString("include \"" + i + "\"\n")
	}
	b.WriteString("\n")
	for _, t := range f.typedefs {
		b.WriteString("typedef " + t.t.String() + " " + t.name + "\n")
	}
	for _, e := range f.enums {
		b.WriteString("enum " + e.name + " {\n")
		for i, v := range e.vals {
			b.WriteString("    " + v)
			if e.nums[i] >= 0 {
				b.WriteString(" = " + strconv.Itoa(e.nums[i]))
			}
			b.WriteString(",\n")
		}
		b.WriteString("}\n")
	}
	for _, c := range f.consts {
		b.WriteString("const " + c.t.String() + " " + c.name + " = " + c.val + "\n")
	}
	for _, s := range f.structs {
		if s.doc != "" {
			b.WriteString("/**@ " + s.doc + " */\n")
		}
		b.WriteString(s.kind + " " + s.name + " {\n")
		for i, fl := range s.fields {
			sep := ","
			if i%3 == 2 {
				sep = ""
			}
			b.WriteString(c11RenderField(fl, sep))
		}
		b.WriteString("}\n")
	}
	for _, s := range f.services {
		b.WriteString("service " + s.name)
		if s.ext != "" {
			b.WriteString(" extends " + s.ext)
		}
		b.WriteString(" {\n")
		for _, m := range s.methods {
			if m.doc != "" {
				b.WriteString("    /**@ " + m.doc + " */\n")
			}
			b.WriteString("    ")
			if m.oneway {
				b.WriteString("oneway ")
			}
			if m.ret == nil {
				b.WriteString("void ")
			} else {
				b.WriteString(m.ret.String() + " ")
			}
			b.WriteString(m.name + "(" + c11RenderFieldsInline(m.args) + ")")
			if len(m.excs) > 0 {
				b.WriteString(" throws (" + c11RenderFieldsInline(m.excs) + ")")
			}
			if m.ann != "" {
				b.WriteString(" " + m.ann)
			}
			b.WriteString(",\n")
		}
		b.WriteString("}\n")
	}
	for _, s := range f.scopes {
		b.WriteString("scope " + s.name)
		if s.prefix != "" {
			b.WriteString(" prefix " + s.prefix)
		}
		b.WriteString(" {\n")
		for _, o := range s.ops {
			b.WriteString("    " + o.name + ": " + o.t.String() + "\n")
		}
		b.WriteString("}\n")
	}
	return b.String()
}

// files returns name -> text ("<name>.frugal"), main file name first in order.
func (p *c11GProg) render() (map[string]string, []string) {
	m := map[string]string{}
	order := []string{}
	for _, f := range p.files {
		m[f.name+".frugal"] = f.render()
		order = append(order, f.name+".frugal")
	}
	keys := []string{}
	for k := range p.extra {
		keys = append(keys, k)
	}
	sort.Strings(keys)
	for _, k := range keys {
		m[k] = p.extra[k]
		order = append(order, k)
	}
	return m, order
}

// ---------------------------------------------------------------- model encoding (op `val`)

func c11EncFields(fs []*c11GField, out *[]string) {
	*out = append(*out, strconv.Itoa(len(fs)))
	for _, f := range fs {
		*out = append(*out, strconv.Itoa(f.id), f.name)
		f.t.enc(out)
	}
}

// enc renders the structural part of the program (everything `validate`,
// `UnderlyingType` and the casing helpers look at) as `/`-separated tokens.
func (p *c11GProg) enc() string {
	out := []string{strconv.Itoa(len(p.files))}
	for _, f := range p.files {
		out = append(out, "F", f.name)
		if f.vendorWild {
			out = append(out, "1")
		} else {
			out = append(out, "0")
		}
		out = append(out, strconv.Itoa(len(f.includes)))
		out = append(out, f.includes...)
		out = append(out, strconv.Itoa(len(f.typedefs)))
		for _, t := range f.typedefs {
			out = append(out, t.name)
			t.t.enc(&out)
		}
		out = append(out, strconv.Itoa(len(f.enums)))
		for _, e := range f.enums {
			out = append(out, e.name, strconv.Itoa(len(e.vals)))
			out = append(out, e.vals...)
		}
		out = append(out, strconv.Itoa(len(f.structs)))
		for _, s := range f.structs {
			out = append(out, s.kind[:1], s.name)
			c11EncFields(s.fields, &out)
		}
		out = append(out, strconv.Itoa(len(f.consts)))
		for _, c := range f.consts {
			out = append(out, c.name)
			c.t.enc(&out)
			if c.ref == "" {
				out = append(out, "-")
			} else {
				out = append(out, c.ref)
			}
		}
		out = append(out, strconv.Itoa(len(f.services)))
		for _, s := range f.services {
			ext := s.ext
			if ext == "" {
				ext = "-"
			}
			out = append(out, s.name, ext, strconv.Itoa(len(s.methods)))
			for _, m := range s.methods {
				ow := "0"
				if m.oneway {
					ow = "1"
				}
				out = append(out, m.name, ow)
				if m.ret == nil {
					out = append(out, "V")
				} else {
					m.ret.enc(&out)
				}
				c11EncFields(m.args, &out)
				c11EncFields(m.excs, &out)
			}
		}
		out = append(out, strconv.Itoa(len(f.scopes)))
		for _, s := range f.scopes {
			out = append(out, s.name, strconv.Itoa(len(s.ops)))
			for _, o := range s.ops {
				out = append(out, o.name)
				o.t.enc(&out)
			}
		}
	}
	return strings.Join(out, "/")
}

// ---------------------------------------------------------------- identifiers

var c11Words = []string{"alpha", "beta", "gamma", "delta", "omega", "item", "user", "event", "count", "total",
	"name", "value", "kind", "state", "score", "level", "point", "track", "album", "song", "price", "order",
	"entry", "node", "edge", "color", "shape", "width", "depth", "token", "topic", "reply", "query", "batch",
	"chunk", "frame", "label", "owner", "group", "role", "email", "phone", "city", "zone", "note", "flag",
	"mode", "rate", "span", "tick", "unit", "word", "zip", "api", "url", "id", "http", "uid", "json", "xml", "uuid"}

// whole identifiers that sit next to a reserved word of some target without being one
var c11Adjacent = []string{"class_", "for1", "in_", "is_ok", "type_", "func_x", "def1", "var_", "new_thing", "NewThing",
	"thing_args", "ThingResult", "self_", "this1", "super_x", "null_", "none1", "lambda_", "async_", "await1", "go_to",
	"import_", "package1", "interface_", "final_", "yield1", "pass_", "with_", "from_x", "as_", "Args", "Result", "New"}

var c11Letters = []string{"a", "b", "c", "d", "e", "g", "h", "k", "m", "n", "q", "t", "u", "w", "x", "y", "z", "A", "B", "Q", "X"}

// excluded: keyword-prefix-identifier (C10 finding): the generated parser has no word boundary after these.
var c11KeywordPrefixes = []string{"bool", "byte", "i16", "i32", "i64", "double", "string", "binary", "void", "oneway",
	"required", "optional", "true", "false"}

func c11HasKeywordPrefix(s string) bool {
	for _, k := range c11KeywordPrefixes {
		if strings.HasPrefix(s, k) {
			return true
		}
	}
	return false
}

func c11Canon(s string) string { return strings.ToLower(strings.Replace(s, "_", "", -1)) }

func c11UpFirst(s string) string {
	if s == "" {
		return s
	}
	return strings.ToUpper(s[:1]) + s[1:]
}

type c11Namer struct {
	r         *Rng
	used      map[string]bool
	typeNames bool // names of types and throws fields: no SCREAMING_CAPS, no New…/…Args/…Result
	topLevel  bool
}

func c11NewNamer(r *Rng) *c11Namer { return &c11Namer{r: r, used: map[string]bool{}} }

// identifier-shape family: every position of underscores, digits, single letters,
// initialisms, screaming caps, reserved-word-adjacent names.
func (n *c11Namer) raw() (string, string) {
	r := n.r
	w := func() string { return c11Words[r.Intn(len(c11Words))] }
	switch r.Intn(20) {
	case 0, 1, 2:
		return w(), "lower"
	case 3, 4:
		return c11UpFirst(w()), "Title"
	case 5, 6:
		return w() + "_" + w(), "snake"
	case 7:
		return w() + c11UpFirst(w()), "camel"
	case 8:
		return c11UpFirst(w()) + c11UpFirst(w()), "Pascal"
	case 9:
		return strings.ToUpper(w() + "_" + w()), "SCREAM"
	case 10:
		return w() + strconv.Itoa(r.Intn(100)), "digit-suffix"
	case 11:
		return "_" + w(), "lead-underscore"
	case 12:
		return w() + "_", "trail-underscore"
	case 13:
		return w() + "__" + w(), "double-underscore"
	case 14:
		return "_" + w() + "_" + w() + "_", "both-underscore"
	case 15:
		return c11Letters[r.Intn(len(c11Letters))], "letter"
	case 16:
		return c11Adjacent[r.Intn(len(c11Adjacent))], "reserved-adjacent"
	case 17:
		return w() + "_" + strconv.Itoa(r.Intn(10)) + "_" + w(), "digit-word"
	case 18:
		return []string{"__", "___"}[r.Intn(2)][:2] + w() + []string{"", "__"}[r.Intn(2)], "multi-underscore"
	default:
		return []string{"New", "new_"}[r.Intn(2)] + c11UpFirst(w()) + []string{"", "Args", "Result", "_args", "_result"}[r.Intn(5)], "new-args-result"
	}
}

// fresh returns an identifier unused so far under c11Canon() (so that no two
// declarations collide after any target's case conversion).
func (n *c11Namer) fresh() string {
	for tries := 0; ; tries++ {
		s, shape := n.raw()
		if tries > 50 {
			s = s + strconv.Itoa(n.r.Intn(10000))
		}
		c := c11Canon(s)
		if c == "" || n.used[c] || c11HasKeywordPrefix(s) || c11HasKeywordPrefix(strings.ToLower(s)) {
			continue
		}
		// excluded: go-new-args-result-names — the Go generator appends `_` to names that start with
		// New or end in Args/Result in some places and not in others
		if (strings.HasPrefix(c, "new") || strings.HasSuffix(c, "args") || strings.HasSuffix(c, "result")) {
			continue
		}
		// excluded: go-screaming-caps-type-name — declared as written, referenced in camel case
		if n.typeNames && shape == "SCREAM" {
			continue
		}
		n.used[c] = true
		Stat("ident-shape:" + shape)
		return s
	}
}

func (n *c11Namer) freshUpper() string {
	for {
		s := strings.ToUpper(n.fresh())
		return s
	}
}

// ---------------------------------------------------------------- symbol tables

type c11SymKind int

const (
	c11SymTypedef c11SymKind = iota
	c11SymEnum
	c11SymStruct
	c11SymUnion
	c11SymException
)

type c11Sym struct {
	kind   c11SymKind
	name   string
	file   *c11GFile
	td     *c11GTypedef
	en     *c11GEnum
	st     *c11GStruct
	pure   bool // typedef whose right-hand side mentions only base types and containers of them
	simple bool // struct whose fields are all base types (usable across files in constants)
}

type c11FileCtx struct {
	f     *c11GFile
	syms  map[string]*c11Sym // local names
	order []*c11Sym
	incs  map[string]*c11FileCtx // include name -> ctx
	names *c11Namer
}

// resolve follows typedefs correctly (in the file that declares them): returns the
// underlying type and the context it has to be read in.
func (c *c11FileCtx) resolve(t *c11GTy) (*c11GTy, *c11FileCtx, *c11Sym) {
	cur, ctx := t, c
	for hops := 0; hops < 1000; hops++ {
		if cur.isCont() || c11IsBaseName(cur.name) {
			return cur, ctx, nil
		}
		name, cx := cur.name, ctx
		if i := strings.Index(name, "."); i >= 0 {
			cx = ctx.incs[name[:i]]
			name = name[i+1:]
			if cx == nil {
				return cur, ctx, nil
			}
		}
		s := cx.syms[name]
		if s == nil {
			return cur, ctx, nil
		}
		if s.kind != c11SymTypedef {
			return cur, cx, s
		}
		cur, ctx = s.td.t, cx
	}
	return cur, ctx, nil
}

// isEnumTy: t resolves to a declared (enum / struct / union / exception) type.
// excluded: typedef-of-enum (Java, Python generators panic), go-typedef-of-struct (Go output has no methods)
func (c *c11FileCtx) isEnumTy(t *c11GTy) bool {
	_, _, s := c.resolve(t)
	return s != nil
}

// hidesQualified: t mentions a LOCAL typedef whose expansion mentions an include-qualified type.
// excluded (in service method signatures and scope operations): go-service-import-through-typedef —
// the imports of a service/scope file are computed from the type names as written.
func (c *c11FileCtx) hidesQualified(t *c11GTy, viaTypedef bool, depth int) bool {
	if depth > 200 {
		return false
	}
	if t.isCont() {
		return (t.k != nil && c.hidesQualified(t.k, viaTypedef, depth+1)) || c.hidesQualified(t.v, viaTypedef, depth+1)
	}
	if strings.Contains(t.name, ".") {
		return viaTypedef
	}
	if s := c.syms[t.name]; s != nil && s.kind == c11SymTypedef {
		return c.hidesQualified(s.td.t, true, depth+1)
	}
	return false
}

var c11BaseNames = []string{"bool", "byte", "i16", "i32", "i64", "double", "string", "binary"}

func c11IsBaseName(n string) bool {
	for _, b := range c11BaseNames {
		if b == n {
			return true
		}
	}
	return n == "i8"
}

// comparable in Go: usable as map key / set element. excluded: go-noncomparable-container-key
// (binary, list, set, map as key or set element; also typedefs of them).
func (c *c11FileCtx) goComparable(t *c11GTy) bool {
	u, _, s := c.resolve(t)
	if u.isCont() || u.name == "binary" {
		return false
	}
	if s != nil && (s.kind == c11SymStruct || s.kind == c11SymUnion || s.kind == c11SymException) {
		return true // pointer keys: compiles
	}
	return true
}

// ---------------------------------------------------------------- program generation

type c11GenCfg struct {
	maxFiles, maxDecl, maxFields, maxChain int
}

type c11ProgGen struct {
	r    *Rng
	cfg  c11GenCfg
	ctxs []*c11FileCtx
	feat map[string]bool
	inConst bool // the value is (part of) a `const` definition
}

func (g *c11ProgGen) baseTy() *c11GTy {
	r := g.r
	// excluded: i8-base-type (known to validate, unknown to the Java and Python generators)
	return c11TBase(c11BaseNames[r.Intn(len(c11BaseNames))])
}

// candidates: named types usable from ctx c (local, or qualified through a direct include).
// excluded: typedef-second-hop-in-include — a typedef reached through an include is only
// referenced when its right-hand side is `pure` (no named type anywhere in it).
func (g *c11ProgGen) namedTy(c *c11FileCtx, want func(*c11Sym) bool) *c11GTy {
	type cand struct {
		n string
		s *c11Sym
	}
	cs := []cand{}
	for _, s := range c.order {
		if want == nil || want(s) {
			cs = append(cs, cand{s.name, s})
		}
	}
	incNames := make([]string, 0, len(c.incs))
	for n := range c.incs {
		incNames = append(incNames, n)
	}
	sort.Strings(incNames)
	for _, in := range incNames {
		for _, s := range c.incs[in].order {
			if s.kind == c11SymTypedef && !s.pure {
				continue
			}
			if want == nil || want(s) {
				cs = append(cs, cand{in + "." + s.name, s})
			}
		}
	}
	if len(cs) == 0 {
		return nil
	}
	k := cs[g.r.Intn(len(cs))]
	return &c11GTy{name: k.n}
}

func (g *c11ProgGen) anyTy(c *c11FileCtx, depth int) *c11GTy {
	r := g.r
	switch x := r.Intn(10); {
	case x < 4 || depth <= 0 && x < 7:
		return g.baseTy()
	case x < 7:
		if t := g.namedTy(c, nil); t != nil {
			return t
		}
		return g.baseTy()
	case x == 7:
		return c11TList(g.anyTy(c, depth-1))
	case x == 8:
		return c11TSet(g.keyTy(c, depth-1))
	default:
		return c11TMap(g.keyTy(c, depth-1), g.anyTy(c, depth-1))
	}
}

// keyTy: a type usable as a Go map key.
func (g *c11ProgGen) keyTy(c *c11FileCtx, depth int) *c11GTy {
	for i := 0; i < 8; i++ {
		t := g.anyTy(c, 0)
		if c.goComparable(t) {
			return t
		}
	}
	return c11TBase("string")
}

func c11IsPureTy(t *c11GTy) bool {
	if t.isCont() {
		if t.k != nil && !c11IsPureTy(t.k) {
			return false
		}
		return c11IsPureTy(t.v)
	}
	return c11IsBaseName(t.name)
}

func (c *c11FileCtx) add(s *c11Sym) {
	c.syms[s.name] = s
	c.order = append(c.order, s)
}

var c11Docs = []string{"A docstring.", "Deprecated: do not use; see \"the other one\".", "Second line\n     * continues here.", "100% of 'quotes' and $dollars"}

func (g *c11ProgGen) fields(c *c11FileCtx, n int, kind string, defaults bool) []*c11GField {
	r := g.r
	fn := c11NewNamer(r)
	fs := []*c11GField{}
	id := 0
	for i := 0; i < n; i++ {
		id += 1 + r.Intn(3)
		if r.Chance(3) && id < 2000 {
			id += 1000 + r.Intn(28000) // field ids are i16
		}
		f := &c11GField{id: id, name: fn.fresh(), t: g.anyTy(c, 2)}
		for tries := 0; kind == "args" && c.hidesQualified(f.t, false, 0); tries++ {
			f.t = g.anyTy(c, 2)
			if tries > 20 {
				f.t = c11TBase("i32")
			}
		}
		if kind != "union" && kind != "args" && kind != "throws" {
			f.mod = []string{"", "", "required", "optional"}[r.Intn(4)]
		} else if kind == "args" && r.Chance(15) {
			f.mod = []string{"required", "optional"}[r.Intn(2)]
		}
		if defaults && kind != "union" && r.Chance(35) {
			f.def = g.value(c, f.t, 2)
		}
		if r.Chance(8) && kind != "throws" {
			f.ann = "(deprecated=\"use something else\")"
		}
		if r.Chance(10) && kind != "args" && kind != "throws" {
			f.doc = c11Docs[r.Intn(len(c11Docs))]
		}
		fs = append(fs, f)
	}
	return fs
}

// value renders a constant of type t ("" if none can be built).
func (g *c11ProgGen) value(c *c11FileCtx, t *c11GTy, depth int) string {
	r := g.r
	u, uc, s := c.resolve(t)
	if s != nil {
		switch s.kind {
		case c11SymEnum:
			if len(s.en.vals) == 0 {
				return ""
			}
			i := r.Intn(len(s.en.vals))
			if r.Chance(30) {
				// numeric form: the value's number
				num := 0
				next := 0
				for j := 0; j <= i; j++ {
					v := s.en.nums[j]
					if v < 0 {
						v = next
					}
					if v >= next {
						next = v + 1
					}
					num = v
				}
				return strconv.Itoa(num)
			}
			q := s.en.name + "." + s.en.vals[i]
			if uc != c {
				// qualify with the include name as seen from c (direct includes only)
				for in, ic := range c.incs {
					if ic == uc {
						return in + "." + q
					}
				}
				return ""
			}
			return q
		case c11SymStruct:
			if uc != c && !s.simple {
				return ""
			}
			if depth <= 0 {
				return "{}"
			}
			parts := []string{}
			for _, f := range s.st.fields {
				// excluded: go-struct-constant-optional-field (pointer field initialised with a value)
				if !r.Chance(60) || f.mod == "optional" {
					continue
				}
				fu, _, fs := uc.resolve(f.t)
				if fs != nil || !c11IsPureTy(fu) {
					if uc != c || fs == nil || fs.kind != c11SymEnum {
						continue
					}
				}
				v := g.valueIn(c, uc, f.t, depth-1)
				if v == "" {
					continue
				}
				parts = append(parts, "\""+f.name+"\": "+v)
			}
			return "{" + strings.Join(parts, ", ") + "}"
		default:
			return "" // union / exception constants: FindStruct only looks at structs
		}
	}
	if u.isCont() {
		n := r.Intn(4)
		if depth <= 0 {
			n = 0
		}
		switch u.name {
		case "list":
			parts := []string{}
			for i := 0; i < n; i++ {
				v := g.valueIn(c, uc, u.v, depth-1)
				if v == "" {
					return ""
				}
				parts = append(parts, v)
			}
			return "[" + strings.Join(parts, ", ") + "]"
		case "set":
			seen := map[string]bool{}
			parts := []string{}
			for i := 0; i < n; i++ {
				v := g.valueIn(c, uc, u.v, 0)
				if v == "" || strings.HasPrefix(v, "{") || strings.HasPrefix(v, "[") {
					return "[]"
				}
				if seen[v] {
					continue
				}
				seen[v] = true
				parts = append(parts, v)
			}
			return "[" + strings.Join(parts, ", ") + "]"
		default:
			seen := map[string]bool{}
			parts := []string{}
			for i := 0; i < n; i++ {
				k := g.valueIn(c, uc, u.k, 0)
				v := g.valueIn(c, uc, u.v, depth-1)
				if k == "" || v == "" || strings.HasPrefix(k, "{") || strings.HasPrefix(k, "[") {
					return "{}"
				}
				if seen[k] {
					continue
				}
				seen[k] = true
				if !strings.HasPrefix(k, "\"") && !strings.HasPrefix(k, "'") {
					g.feat["nonstring-map-key-value"] = true
				}
				parts = append(parts, k+": "+v)
			}
			return "{" + strings.Join(parts, ", ") + "}"
		}
	}
	switch u.name {
	case "bool":
		return []string{"true", "false"}[r.Intn(2)]
	case "byte", "i8":
		return strconv.Itoa(r.Pick(0, 1, -1, 127, -128, r.Intn(100)))
	case "i16":
		return strconv.Itoa(r.Pick(0, 7, -7, 32767, -32768, r.Intn(30000)))
	case "i32":
		return strconv.Itoa(r.Pick(0, 42, -42, 2147483647, -2147483648, r.Intn(1<<30)))
	case "i64":
		return []string{"0", "5", "-5", "9223372036854775807", "-9223372036854775808", "9007199254740992", strconv.Itoa(r.Intn(1 << 40))}[r.Intn(7)]
	case "double":
		return []string{"0.0", "1.5", "-2.25", "3.", ".5", "1.5e3", "-1.0E-2", "7", "-3"}[r.Intn(9)]
	case "string":
		return c11Strings[r.Intn(len(c11Strings))]
	case "binary":
		// excluded: binary-constant-not-escaped — only plain characters
		return c11PlainStrings[r.Intn(len(c11PlainStrings))]
	}
	return ""
}

var c11PlainStrings = []string{`""`, `"hello"`, `'world'`, `"two words"`, `"x y z 123"`, `"a-b_c.d"`}

var c11Strings = []string{`""`, `"hello"`, `'world'`, `"two words"`, `"it's"`, `'say "hi"'`, `"tab\there"`, `"a\\b"`, `"100%"`, `"x y z 123"`, `'q\'uote'`}

// valueIn: value of type t (read in context tc) written in file c: named types of another
// file are only used when they are reachable with the same spelling, i.e. tc == c, or t is pure.
func (g *c11ProgGen) valueIn(c, tc *c11FileCtx, t *c11GTy, depth int) string {
	if tc == c {
		return g.value(c, t, depth)
	}
	u, _, s := tc.resolve(t)
	if s == nil && c11IsPureTy(u) {
		return g.value(tc, u, depth)
	}
	return ""
}

func (g *c11ProgGen) genFile(idx int, name string, incs []*c11FileCtx) *c11FileCtx {
	r := g.r
	f := &c11GFile{name: name}
	c := &c11FileCtx{f: f, syms: map[string]*c11Sym{}, incs: map[string]*c11FileCtx{}, names: c11NewNamer(r)}
	c.names.typeNames = true
	c.names.topLevel = true
	for _, ic := range incs {
		f.includes = append(f.includes, ic.f.name+".frugal")
		c.incs[ic.f.name] = ic
	}
	// namespaces
	if r.Chance(30) {
		f.namespaces = append(f.namespaces, "namespace java "+name+".jv"+strconv.Itoa(r.Intn(9)))
	}
	if r.Chance(20) {
		f.namespaces = append(f.namespaces, "namespace py "+name+"_py.gen")
	}
	if r.Chance(20) {
		f.namespaces = append(f.namespaces, "namespace go "+name+"_go.sub"+strconv.Itoa(idx))
	}
	if r.Chance(15) {
		f.namespaces = append(f.namespaces, "namespace dart "+name+"_dart")
	}
	if r.Chance(10) {
		f.namespaces = append(f.namespaces, "namespace * "+name+"_any")
	}
	nd := 1 + r.Intn(g.cfg.maxDecl)
	// enums first, then an interleaving of typedefs and struct-likes (types may only
	// reference what exists already; IDL allows forward references but acyclicity is simplest this way)
	for i := 0; i < 1+r.Intn(2); i++ {
		e := &c11GEnum{name: c.names.fresh()}
		vn := c11NewNamer(r)
		nv := 1 + r.Intn(5)
		num := 0
		for j := 0; j < nv; j++ {
			v := vn.fresh()
			if r.Chance(70) {
				v = strings.ToUpper(v)
			}
			e.vals = append(e.vals, v)
			if r.Chance(50) {
				num += 1 + r.Intn(4)
				e.nums = append(e.nums, num)
			} else {
				e.nums = append(e.nums, -1)
				num++
			}
		}
		f.enums = append(f.enums, e)
		c.add(&c11Sym{kind: c11SymEnum, name: e.name, file: f, en: e})
	}
	for i := 0; i < nd; i++ {
		switch x := r.Intn(10); {
		case x < 3:
			t := g.anyTy(c, 2)
			// excluded: typedef-of-enum (Java and Python generators panic on a field of such a type)
			for tries := 0; tries < 20 && c.isEnumTy(t); tries++ {
				t = g.anyTy(c, 2)
			}
			if c.isEnumTy(t) {
				t = c11TBase("i32")
			}
			td := &c11GTypedef{name: c.names.fresh(), t: t}
			f.typedefs = append(f.typedefs, td)
			c.add(&c11Sym{kind: c11SymTypedef, name: td.name, file: f, td: td, pure: c11IsPureTy(t)})
			Stat("typedef-shape:single")
		case x == 3:
			// typedef-shape family: a long acyclic chain, declared in a shuffled order
			n := 2 + r.Intn(g.cfg.maxChain)
			var prev *c11GTy = g.anyTy(c, 1)
			if c.isEnumTy(prev) {
				prev = c11TBase("i64")
			}
			pure := c11IsPureTy(prev)
			chain := []*c11GTypedef{}
			for j := 0; j < n; j++ {
				td := &c11GTypedef{name: c.names.fresh(), t: prev}
				chain = append(chain, td)
				c.add(&c11Sym{kind: c11SymTypedef, name: td.name, file: f, td: td, pure: pure && j == 0})
				prev = &c11GTy{name: td.name}
			}
			if r.Bool() {
				for a, b := 0, len(chain)-1; a < b; a, b = a+1, b-1 {
					chain[a], chain[b] = chain[b], chain[a]
				}
			}
			f.typedefs = append(f.typedefs, chain...)
			Stat("typedef-shape:chain")
			StatN("typedef-chain-hops", n)
		default:
			kind := []string{"struct", "struct", "struct", "union", "exception"}[r.Intn(5)]
			s := &c11GStruct{kind: kind, name: c.names.fresh()}
			nf := r.Intn(g.cfg.maxFields + 1)
			if kind == "union" && nf == 0 {
				nf = 1
			}
			s.fields = g.fields(c, nf, kind, true)
			if r.Chance(15) {
				s.doc = c11Docs[r.Intn(len(c11Docs))]
			}
			f.structs = append(f.structs, s)
			k := c11SymStruct
			if kind == "union" {
				k = c11SymUnion
			} else if kind == "exception" {
				k = c11SymException
			}
			simple := true
			for _, fl := range s.fields {
				if !c11IsPureTy(fl.t) {
					simple = false
				}
			}
			c.add(&c11Sym{kind: k, name: s.name, file: f, st: s, simple: simple})
		}
	}
	// constants of every type
	nc := r.Intn(6)
	for i := 0; i < nc; i++ {
		t := g.anyTy(c, 2)
		g.inConst = true
		v := g.value(c, t, 2)
		g.inConst = false
		if v == "" {
			continue
		}
		k := &c11GConst{name: c.names.fresh(), t: t, val: v}
		if r.Chance(25) {
			k.name = strings.ToUpper(k.name)
		}
		// reference to an earlier constant of the same declared type
		// excluded: java-container-constant-reference — only constants of base types refer to others
		if r.Chance(30) && !t.isCont() && c11IsBaseName(t.name) {
			for _, o := range f.consts {
				if o.t.String() == t.String() {
					k.val, k.ref = o.name, o.name
					break
				}
			}
		}
		f.consts = append(f.consts, k)
	}
	// services
	excs := func() []*c11Sym {
		out := []*c11Sym{}
		for _, s := range c.order {
			if s.kind == c11SymException {
				out = append(out, s)
			}
		}
		return out
	}()
	ns := r.Intn(3)
	for i := 0; i < ns; i++ {
		s := &c11GService{name: c.names.fresh()}
		// extends: an earlier local service or a service of a direct include
		if r.Chance(50) {
			cands := []string{}
			// excluded: go-extends-service-name-case — the parent is referenced as F<name as written>Client
			for _, o := range f.services {
				if c11GoStable(o.name) {
					cands = append(cands, o.name)
				}
			}
			for _, ic := range incs {
				for _, o := range ic.f.services {
					if c11GoStable(o.name) {
						cands = append(cands, ic.f.name+"."+o.name)
					}
				}
			}
			if len(cands) > 0 {
				s.ext = cands[r.Intn(len(cands))]
				Stat("service-extends")
				if strings.Contains(s.ext, ".") {
					Stat("service-extends-include")
				}
			}
		}
		mn := c11NewNamer(r)
		// a service may not redefine a method of a service it extends (directly or not)
		ac, an := c, s.ext
		for hops := 0; an != "" && hops < 50; hops++ {
			if i := strings.Index(an, "."); i >= 0 {
				ac, an = ac.incs[an[:i]], an[i+1:]
				if ac == nil {
					break
				}
			}
			var as *c11GService
			for _, o := range ac.f.services {
				if o.name == an {
					as = o
				}
			}
			if as == nil {
				break
			}
			for _, m := range as.methods {
				mn.used[c11Canon(m.name)] = true
			}
			an = as.ext
		}
		nm := 1 + r.Intn(4)
		if r.Chance(6) {
			nm = 0
		}
		if nm == 0 {
			g.feat["empty-service"] = true
		}
		for j := 0; j < nm; j++ {
			m := &c11GMethod{name: mn.fresh()}
			// assumption: a method is not named like a member of the generated client (c, methods)
			for strings.ToLower(m.name) == "c" || strings.ToLower(m.name) == "methods" {
				m.name = mn.fresh()
			}
			m.args = g.fields(c, r.Intn(4), "args", false)
			if r.Chance(20) {
				m.oneway = true
			} else {
				if r.Chance(70) {
					m.ret = g.anyTy(c, 2)
					if c.hidesQualified(m.ret, false, 0) {
						m.ret = c11TBase("string")
					}
				}
				if len(excs) > 0 && r.Chance(40) {
					ne := 1 + r.Intn(2)
					en := c11NewNamer(r)
					en.typeNames = true // excluded: go-screaming-caps-name (throws fields)
					usedExc := map[string]bool{}
					for k := 0; k < ne; k++ {
						e := excs[r.Intn(len(excs))]
						// excluded: go-duplicate-exception-type (duplicate case in the generated type switch)
						if usedExc[e.name] {
							continue
						}
						usedExc[e.name] = true
						m.excs = append(m.excs, &c11GField{id: k + 1, name: en.fresh(), t: &c11GTy{name: e.name}})
					}
				}
			}
			if r.Chance(10) {
				m.ann = "(deprecated=\"don't use this; use \\\"something else\\\"\")"
			}
			if r.Chance(15) {
				m.doc = c11Docs[r.Intn(len(c11Docs))]
			}
			s.methods = append(s.methods, m)
		}
		f.services = append(f.services, s)
	}
	// scopes
	nsc := r.Intn(3)
	for i := 0; i < nsc; i++ {
		s := &c11GScope{name: c.names.fresh()}
		if r.Chance(60) {
			// excluded: prefix-token-format-chars — static tokens stay within [A-Za-z0-9_-]
			toks := []string{}
			vn := c11NewNamer(r)
			for k := 0; k < 1+r.Intn(3); k++ {
				if r.Chance(40) {
					toks = append(toks, "{"+c11PrefixVar(r, vn)+"}")
				} else {
					toks = append(toks, []string{"foo", "bar-baz", "v1", "a_b", "X9"}[r.Intn(5)])
				}
			}
			s.prefix = strings.Join(toks, ".")
		}
		on := c11NewNamer(r)
		for k := 0; k < r.Intn(4); k++ {
			var t *c11GTy
			if r.Chance(70) {
				t = g.namedTy(c, func(s *c11Sym) bool { return s.kind == c11SymStruct || s.kind == c11SymUnion })
			}
			if t == nil {
				t = g.anyTy(c, 1)
			}
			if c.hidesQualified(t, false, 0) {
				t = c11TBase("i64")
			}
			s.ops = append(s.ops, &c11GOp{name: on.fresh(), t: t})
		}
		f.scopes = append(f.scopes, s)
	}
	return c
}

// c11PrefixVar: the grammar's own rule for a prefix variable is ^[A-Za-z]+[A-Za-z0-9] (>= 2 chars).
func c11PrefixVar(r *Rng, n *c11Namer) string {
	for {
		w := c11Words[r.Intn(len(c11Words))]
		if r.Bool() {
			w += c11UpFirst(c11Words[r.Intn(len(c11Words))])
		}
		if r.Chance(20) {
			w += strconv.Itoa(r.Intn(10))
		}
		// assumption: a prefix variable does not carry the name of a local of the generated code
		if len(w) < 2 || n.used[c11Canon(w)] || w == "topic" || w == "prefix" || w == "op" {
			continue
		}
		n.used[c11Canon(w)] = true
		return w
	}
}

var c11Initialisms = map[string]bool{"API": true, "ASCII": true, "CPU": true, "CSS": true, "DNS": true, "EOF": true, "GUID": true,
	"HTML": true, "HTTP": true, "HTTPS": true, "ID": true, "IP": true, "JSON": true, "LHS": true, "QPS": true, "RAM": true, "RHS": true,
	"RPC": true, "SLA": true, "SMTP": true, "SSH": true, "TLS": true, "TTL": true, "UI": true, "UID": true, "UUID": true, "URI": true,
	"URL": true, "UTF8": true, "VM": true, "XML": true}

// c11GoStable: snakeToCamel leaves the name as written.
func c11GoStable(n string) bool {
	return n != "" && !strings.Contains(n, "_") && n[0] >= 'A' && n[0] <= 'Z' && !c11Initialisms[strings.ToUpper(n)]
}

var c11FileNames = []string{"base", "common_types", "shared2", "util", "models_v1", "core", "extra_defs", "lib9"}

// c11GenProg: files[0] is the main file; file i may include any file j > i (a DAG).
func c11GenProg(r *Rng, cfg c11GenCfg) (*c11GProg, []*c11FileCtx) {
	g := &c11ProgGen{r: r, cfg: cfg, feat: map[string]bool{}}
	nf := 1 + r.Intn(cfg.maxFiles)
	names := []string{"prog"}
	perm := r.Intn(len(c11FileNames))
	for i := 1; i < nf; i++ {
		names = append(names, c11FileNames[(perm+i)%len(c11FileNames)])
	}
	// typedef-shape family: a chain that runs through the includes, every hop include-qualified
	// (hop_chain in file i is an alias of hop_chain in file i+1); every file then includes all later
	// ones, so that each file resolves the whole chain.
	xchain := nf > 1 && r.Chance(15)
	ctxs := make([]*c11FileCtx, nf)
	for i := nf - 1; i >= 0; i-- {
		incs := []*c11FileCtx{}
		for j := i + 1; j < nf; j++ {
			if xchain || r.Chance(60) || (i == 0 && j == 1) {
				incs = append(incs, ctxs[j])
			}
		}
		ctxs[i] = g.genFile(i, names[i], incs)
	}
	if xchain {
		Stat("typedef-shape:cross-include-chain")
		StatN("typedef-cross-include-hops", nf-1)
		for i := nf - 1; i >= 1; i-- {
			t := c11TBase("i64")
			if i < nf-1 {
				t = &c11GTy{name: names[i+1] + ".hop_chain"}
			}
			ctxs[i].f.typedefs = append(ctxs[i].f.typedefs, &c11GTypedef{name: "hop_chain", t: t})
		}
		ctxs[0].f.structs = append(ctxs[0].f.structs, &c11GStruct{kind: "struct", name: "HopChainUser", fields: []*c11GField{
			{id: 1, name: "direct", t: &c11GTy{name: names[1] + ".hop_chain"}},
			{id: 2, name: "many", t: c11TList(&c11GTy{name: names[1] + ".hop_chain"}), mod: "optional"}}})
	}
	p := &c11GProg{feat: g.feat}
	for _, c := range ctxs {
		p.files = append(p.files, c.f)
	}
	return p, ctxs
}

// ---------------------------------------------------------------- invalid programs

// Invalidity kinds `validate` / `parseFrugal` ARE responsible for (read off
// compiler/parser/types.go, parser.go): each must be diagnosed (exit != 0, message, no panic).
var c11CheckedKinds = []string{"dup-service", "conflict-service", "dup-method", "conflict-method", "dup-scope", "conflict-scope",
	"dup-op", "conflict-op", "dup-include", "const-type", "const-ref", "typedef-type", "typedef-cycle", "typedef-self",
	"field-type", "dup-field-id", "ret-type", "arg-type", "exc-type", "oneway-throws", "oneway-returns", "dup-arg-id",
	"op-type", "bad-include-name", "missing-include", "circular-include", "vendor-wildcard", "include-type", "bare-container-type"}

// Kinds nothing checks before generation (recorded finding `unchecked-semantic-errors`):
// tolerated outcomes are a diagnostic, a recovered panic, or even exit 0; never crash / hang.
var c11UncheckedKinds = []string{"const-value-type", "default-value-type", "dup-struct-name", "dup-typedef-name", "dup-enum-name",
	"dup-const-name", "dup-field-name", "dup-enum-value", "extends-unknown", "const-enum-value", "dup-throws-id", "extends-cycle"}

func c11LowerFirst(s string) string { return strings.ToLower(s[:1]) + s[1:] }
func c11FlipFirst(s string) string {
	if s[:1] == strings.ToLower(s[:1]) {
		return strings.ToUpper(s[:1]) + s[1:]
	}
	return c11LowerFirst(s)
}

// c11Inject makes exactly one invalidity of the given kind in file fi of p; false if not applicable.
func c11Inject(r *Rng, p *c11GProg, kind string) bool {
	f := p.files[r.Intn(len(p.files))]
	main := p.files[0]
	unknown := &c11GTy{name: "NoSuchType" + strconv.Itoa(r.Intn(100))}
	switch kind {
	case "dup-service", "conflict-service":
		if len(f.services) == 0 {
			f.services = append(f.services, &c11GService{name: "SvcOne"})
		}
		s := f.services[r.Intn(len(f.services))]
		n := s.name
		if kind == "conflict-service" {
			n = c11FlipFirst(n)
			if n == s.name {
				return false
			}
		}
		f.services = append(f.services, &c11GService{name: n})
	case "dup-method", "conflict-method":
		if len(f.services) == 0 {
			f.services = append(f.services, &c11GService{name: "SvcOne"})
		}
		s := f.services[r.Intn(len(f.services))]
		if len(s.methods) == 0 {
			s.methods = append(s.methods, &c11GMethod{name: "ping"})
		}
		n := s.methods[r.Intn(len(s.methods))].name
		if kind == "conflict-method" {
			if c11FlipFirst(n) == n {
				return false
			}
			n = c11FlipFirst(n)
		}
		s.methods = append(s.methods, &c11GMethod{name: n})
	case "dup-scope", "conflict-scope":
		if len(f.scopes) == 0 {
			f.scopes = append(f.scopes, &c11GScope{name: "ScopeOne"})
		}
		n := f.scopes[r.Intn(len(f.scopes))].name
		if kind == "conflict-scope" {
			if c11FlipFirst(n) == n {
				return false
			}
			n = c11FlipFirst(n)
		}
		f.scopes = append(f.scopes, &c11GScope{name: n})
	case "dup-op", "conflict-op":
		if len(f.scopes) == 0 {
			f.scopes = append(f.scopes, &c11GScope{name: "ScopeOne"})
		}
		s := f.scopes[r.Intn(len(f.scopes))]
		if len(s.ops) == 0 {
			s.ops = append(s.ops, &c11GOp{name: "opOne", t: c11TBase("i32")})
		}
		n := s.ops[r.Intn(len(s.ops))].name
		if kind == "conflict-op" {
			if c11FlipFirst(n) == n {
				return false
			}
			n = c11FlipFirst(n)
		}
		s.ops = append(s.ops, &c11GOp{name: n, t: c11TBase("string")})
	case "dup-include":
		if len(f.includes) == 0 {
			return false
		}
		f.includes = append(f.includes, f.includes[r.Intn(len(f.includes))])
	case "const-type":
		f.consts = append(f.consts, &c11GConst{name: "bad_const_1", t: unknown, val: "1"})
	case "const-ref":
		f.consts = append(f.consts, &c11GConst{name: "bad_const_2", t: c11TBase("i32"), val: "no_such_constant", ref: "no_such_constant"})
	case "typedef-type":
		f.typedefs = append(f.typedefs, &c11GTypedef{name: "bad_alias", t: []*c11GTy{unknown, c11TList(unknown), c11TMap(c11TBase("i32"), unknown)}[r.Intn(3)]})
	case "typedef-self":
		f.typedefs = append(f.typedefs, &c11GTypedef{name: "selfish", t: &c11GTy{name: "selfish"}})
	case "typedef-cycle":
		n := 2 + r.Intn(4)
		for i := 0; i < n; i++ {
			f.typedefs = append(f.typedefs, &c11GTypedef{name: "cyc" + strconv.Itoa(i), t: &c11GTy{name: "cyc" + strconv.Itoa((i+1)%n)}})
		}
		if r.Bool() {
			f.structs = append(f.structs, &c11GStruct{kind: "struct", name: "UsesCycle", fields: []*c11GField{{id: 1, name: "c", t: &c11GTy{name: "cyc0"}}}})
		}
	case "field-type":
		if len(f.structs) == 0 {
			f.structs = append(f.structs, &c11GStruct{kind: "struct", name: "StOne"})
		}
		s := f.structs[r.Intn(len(f.structs))]
		s.fields = append(s.fields, &c11GField{id: 32000, name: "bad_field_zz", t: []*c11GTy{unknown, c11TSet(unknown), c11TMap(unknown, c11TBase("i32"))}[r.Intn(3)]})
	case "dup-field-id":
		if len(f.structs) == 0 {
			f.structs = append(f.structs, &c11GStruct{kind: "struct", name: "StOne"})
		}
		s := f.structs[r.Intn(len(f.structs))]
		if len(s.fields) == 0 {
			s.fields = append(s.fields, &c11GField{id: 1, name: "first_zz", t: c11TBase("i32")})
		}
		s.fields = append(s.fields, &c11GField{id: s.fields[r.Intn(len(s.fields))].id, name: "dup_id_zz", t: c11TBase("i32")})
	case "ret-type", "arg-type", "exc-type", "oneway-throws", "oneway-returns", "dup-arg-id":
		if len(f.services) == 0 {
			f.services = append(f.services, &c11GService{name: "SvcOne"})
		}
		s := f.services[r.Intn(len(f.services))]
		m := &c11GMethod{name: "bad_method_zz"}
		switch kind {
		case "ret-type":
			m.ret = unknown
		case "arg-type":
			m.args = []*c11GField{{id: 1, name: "a", t: unknown}}
		case "exc-type":
			m.excs = []*c11GField{{id: 1, name: "e", t: unknown}}
		case "oneway-throws":
			ex := ""
			for _, st := range f.structs {
				if st.kind == "exception" {
					ex = st.name
				}
			}
			if ex == "" {
				ex = "ExcZz"
				f.structs = append(f.structs, &c11GStruct{kind: "exception", name: ex})
			}
			m.oneway = true
			m.excs = []*c11GField{{id: 1, name: "e", t: &c11GTy{name: ex}}}
		case "oneway-returns":
			m.oneway = true
			m.ret = c11TBase("i32")
		case "dup-arg-id":
			m.args = []*c11GField{{id: 1, name: "a", t: c11TBase("i32")}, {id: 1, name: "b", t: c11TBase("i32")}}
		}
		s.methods = append(s.methods, m)
	case "op-type":
		if len(f.scopes) == 0 {
			f.scopes = append(f.scopes, &c11GScope{name: "ScopeOne"})
		}
		s := f.scopes[r.Intn(len(f.scopes))]
		s.ops = append(s.ops, &c11GOp{name: "bad_op_zz", t: unknown})
	case "bad-include-name":
		f.includes = append(f.includes, []string{"other.txt", "other.thriftx", "other", "x.frugal.bak"}[r.Intn(4)])
	case "missing-include":
		f.includes = append(f.includes, "does_not_exist.frugal")
	case "circular-include":
		last := p.files[len(p.files)-1]
		if len(p.files) > 1 && r.Bool() {
			last.includes = append(last.includes, main.name+".frugal")
		} else {
			last.includes = append(last.includes, last.name+".frugal")
		}
	case "vendor-wildcard":
		f.vendorWild = true
	case "bare-container-type":
		// a container keyword without element types used as a type name (`1: list x`)
		bare := &c11GTy{name: []string{"list", "set", "map"}[r.Intn(3)]}
		if r.Bool() {
			f.structs = append(f.structs, &c11GStruct{kind: "struct", name: "UsesBareContainer", fields: []*c11GField{{id: 1, name: "x", t: bare}}})
		} else {
			f.typedefs = append(f.typedefs, &c11GTypedef{name: "bare_alias", t: bare})
		}
	case "include-type":
		// a qualified type whose include is not included by this file
		f.structs = append(f.structs, &c11GStruct{kind: "struct", name: "UsesMissingInclude", fields: []*c11GField{{id: 1, name: "x", t: &c11GTy{name: "nowhere.Thing"}}}})

	// ---- kinds nobody checks
	case "const-value-type":
		f.consts = append(f.consts, &c11GConst{name: "bad_value_zz", t: c11TBase([]string{"string", "i32", "bool"}[r.Intn(3)]), val: []string{"5", "[1,2]", "{1: 2}", "1.5"}[r.Intn(4)]})
	case "default-value-type":
		f.structs = append(f.structs, &c11GStruct{kind: "struct", name: "BadDefaultZz", fields: []*c11GField{{id: 1, name: "x", t: c11TBase("string"), def: "17"}, {id: 2, name: "y", t: c11TList(c11TBase("i32")), def: "{1: 1}"}}})
	case "dup-struct-name":
		if len(f.structs) == 0 {
			return false
		}
		s := f.structs[r.Intn(len(f.structs))]
		f.structs = append(f.structs, &c11GStruct{kind: "struct", name: s.name, fields: []*c11GField{{id: 1, name: "only", t: c11TBase("i32")}}})
	case "dup-typedef-name":
		if len(f.typedefs) == 0 {
			return false
		}
		f.typedefs = append(f.typedefs, &c11GTypedef{name: f.typedefs[r.Intn(len(f.typedefs))].name, t: c11TBase("bool")})
	case "dup-enum-name":
		if len(f.enums) == 0 {
			return false
		}
		f.enums = append(f.enums, &c11GEnum{name: f.enums[0].name, vals: []string{"ZZ"}, nums: []int{-1}})
	case "dup-const-name":
		if len(f.consts) == 0 {
			return false
		}
		f.consts = append(f.consts, &c11GConst{name: f.consts[0].name, t: c11TBase("i32"), val: "3"})
	case "dup-field-name":
		if len(f.structs) == 0 {
			return false
		}
		s := f.structs[r.Intn(len(f.structs))]
		if len(s.fields) == 0 {
			return false
		}
		s.fields = append(s.fields, &c11GField{id: 31999, name: s.fields[0].name, t: c11TBase("i32")})
	case "dup-enum-value":
		if len(f.enums) == 0 || len(f.enums[0].vals) == 0 {
			return false
		}
		e := f.enums[0]
		e.vals = append(e.vals, e.vals[0])
		e.nums = append(e.nums, -1)
	case "extends-unknown":
		f.services = append(f.services, &c11GService{name: "OrphanZz", ext: []string{"NoSuchService", "nowhere.Svc"}[r.Intn(2)]})
	case "extends-cycle":
		f.services = append(f.services, &c11GService{name: "CycSvcA", ext: "CycSvcB"}, &c11GService{name: "CycSvcB", ext: "CycSvcA"})
	case "const-enum-value":
		if len(f.enums) == 0 {
			return false
		}
		f.consts = append(f.consts, &c11GConst{name: "bad_enum_zz", t: &c11GTy{name: f.enums[0].name}, val: f.enums[0].name + ".NO_SUCH_VALUE_ZZ", ref: f.enums[0].name + ".NO_SUCH_VALUE_ZZ"})
	case "dup-throws-id":
		ex := ""
		for _, st := range f.structs {
			if st.kind == "exception" {
				ex = st.name
			}
		}
		if ex == "" {
			return false
		}
		f.services = append(f.services, &c11GService{name: "ThrowsZz", methods: []*c11GMethod{{name: "m", excs: []*c11GField{{id: 1, name: "a", t: &c11GTy{name: ex}}, {id: 1, name: "b", t: &c11GTy{name: ex}}}}}})
	default:
		panic("unknown invalidity kind " + kind)
	}
	return true
}

// ---------------------------------------------------------------- text mutation (arbitrary / mutated inputs)

var c11Snippets = []string{"{", "}", "(", ")", "<", ">", ",", ";", ":", "=", "\"", "'", "/*", "*/", "/**@", "//", "#", "\n", " ",
	"struct ", "typedef ", "include ", "const ", "enum ", "service ", "scope ", "prefix ", "extends ", "throws ", "oneway ", "void ",
	"list<", "map<", "set<", "list", "map", "i32", "string", "optional ", "required ", "namespace ", "union ", "exception ",
	"-1", "0", "99999999999999999999", "1e999", ".", "..", "\x00", "\xff\xfe", "é", "{x}", "%d", "$", "\\"}

func c11MutateText(r *Rng, s string) string {
	b := []byte(s)
	n := 1 + r.Intn(3)
	for i := 0; i < n; i++ {
		if len(b) == 0 {
			b = []byte(c11Snippets[r.Intn(len(c11Snippets))])
			continue
		}
		pos := r.Intn(len(b) + 1)
		switch r.Intn(8) {
		case 0: // delete a span
			end := pos + 1 + r.Intn(12)
			if end > len(b) {
				end = len(b)
			}
			b = append(b[:pos:pos], b[end:]...)
		case 1, 2: // insert a token
			sn := c11Snippets[r.Intn(len(c11Snippets))]
			b = append(b[:pos:pos], append([]byte(sn), b[pos:]...)...)
		case 3: // flip a byte
			if pos < len(b) {
				b[pos] ^= byte(1 << uint(r.Intn(7)))
			}
		case 4: // truncate
			b = b[:pos]
		case 5: // duplicate a span
			end := pos + 1 + r.Intn(40)
			if end > len(b) {
				end = len(b)
			}
			span := append([]byte{}, b[pos:end]...)
			b = append(b[:end:end], append(span, b[end:]...)...)
		case 6: // delete one line
			ls := strings.Split(string(b), "\n")
			k := r.Intn(len(ls))
			ls = append(ls[:k], ls[k+1:]...)
			b = []byte(strings.Join(ls, "\n"))
		default: // swap two lines
			ls := strings.Split(string(b), "\n")
			x, y := r.Intn(len(ls)), r.Intn(len(ls))
			ls[x], ls[y] = ls[y], ls[x]
			b = []byte(strings.Join(ls, "\n"))
		}
	}
	return string(b)
}

func c11ArbitraryText(r *Rng) string {
	switch r.Intn(4) {
	case 0:
		return string(r.Bytes(r.Intn(200)))
	case 1:
		n := r.Intn(60)
		parts := make([]string, n)
		for i := range parts {
			parts[i] = c11Snippets[r.Intn(len(c11Snippets))]
		}
		return strings.Join(parts, "")
	case 2:
		// deep nesting: parser recursion depth
		d := 20 + r.Intn(180)
		return "struct S { 1: " + strings.Repeat("list<", d) + "i32" + strings.Repeat(">", d) + " x }\n"
	default:
		d := 20 + r.Intn(180)
		return "const list<i32> c = " + strings.Repeat("[", d) + strings.Repeat("]", d) + "\n"
	}
}

var _ = fmt.Sprintf
