package main

import "strings"

// C11 — "the only mention of an include": one program per (carrier, container position, kind of
// the included type) in which that position is the ONLY reference to the included file, so that
// the import of the include in the emitted service / scope / types file hangs on exactly that
// occurrence being found by the generators' walks over the types.

type c11SweepProg struct {
	carrier, position, kind string
	prog                    *c11GProg
}

var c11SweepCache []c11SweepProg

func c11Sweep() []c11SweepProg {
	if c11SweepCache != nil {
		return c11SweepCache
	}
	kinds := map[string]string{"enum": "Shade", "typedef": "Stamp", "struct": "Parcel"}
	type posn struct {
		name  string
		key   bool // the included type sits at a map-key / set-element position
		build func(x *c11GTy) *c11GTy
	}
	str, i32 := func() *c11GTy { return c11TBase("string") }, func() *c11GTy { return c11TBase("i32") }
	positions := []posn{
		{"plain", false, func(x *c11GTy) *c11GTy { return x }},
		{"list-elem", false, func(x *c11GTy) *c11GTy { return c11TList(x) }},
		{"set-elem", true, func(x *c11GTy) *c11GTy { return c11TSet(x) }},
		{"map-key", true, func(x *c11GTy) *c11GTy { return c11TMap(x, str()) }},
		{"map-value", false, func(x *c11GTy) *c11GTy { return c11TMap(str(), x) }},
		{"list-of-map-key", true, func(x *c11GTy) *c11GTy { return c11TList(c11TMap(x, i32())) }},
		{"map-value-list-elem", false, func(x *c11GTy) *c11GTy { return c11TMap(str(), c11TList(x)) }},
		{"map-key-of-nested-map-value", true, func(x *c11GTy) *c11GTy { return c11TMap(i32(), c11TMap(x, c11TList(str()))) }},
		{"map-value-of-map-value-of-list", false, func(x *c11GTy) *c11GTy { return c11TList(c11TMap(i32(), c11TMap(str(), x))) }},
	}
	carriers := []string{"method-arg", "method-return", "scope-op", "struct-field-via-service", "throws"}
	for _, carrier := range carriers {
		for _, kind := range []string{"enum", "typedef", "struct"} {
			for _, ps := range positions {
				if ps.key && kind == "struct" {
					continue // a struct as map key / set element: not comparable in every target
				}
				if carrier == "throws" && (ps.name != "plain" || kind != "struct") {
					continue // a throws field is an exception type itself
				}
				inc := &c11GFile{name: "incq"}
				inc.enums = []*c11GEnum{{name: "Shade", vals: []string{"LIGHT", "DARK"}, nums: []int{-1, -1}}}
				inc.typedefs = []*c11GTypedef{{name: "Stamp", t: c11TBase("i64")}}
				inc.structs = []*c11GStruct{{kind: "struct", name: "Parcel", fields: []*c11GField{{id: 1, name: "weight", t: c11TBase("i32")}}},
					{kind: "exception", name: "Lost", fields: []*c11GField{{id: 1, name: "why", t: c11TBase("string")}}}}
				main := &c11GFile{name: "prog", includes: []string{"incq.frugal"}}
				main.structs = []*c11GStruct{{kind: "struct", name: "Local", fields: []*c11GField{{id: 1, name: "n", t: c11TBase("i32")}}}}
				x := &c11GTy{name: "incq." + kinds[kind]}
				t := ps.build(x)
				local := &c11GTy{name: "Local"}
				m := &c11GMethod{name: "carry", args: []*c11GField{{id: 1, name: "first", t: local}}, ret: local}
				svc := &c11GService{name: "Courier", methods: []*c11GMethod{m, {name: "ping"}}}
				scope := &c11GScope{name: "Notices", prefix: "a.{user}", ops: []*c11GOp{{name: "Plain", t: local}}}
				switch carrier {
				case "method-arg":
					m.args = append(m.args, &c11GField{id: 2, name: "second", t: t})
				case "method-return":
					m.ret = t
				case "scope-op":
					scope.ops = append(scope.ops, &c11GOp{name: "Special", t: t})
				case "struct-field-via-service":
					main.structs = append(main.structs, &c11GStruct{kind: "struct", name: "Wrapper", fields: []*c11GField{{id: 1, name: "inner", t: t}}})
					m.args = append(m.args, &c11GField{id: 2, name: "second", t: &c11GTy{name: "Wrapper"}})
				case "throws":
					m.excs = []*c11GField{{id: 1, name: "gone", t: &c11GTy{name: "incq.Lost"}}}
				}
				main.services = []*c11GService{svc}
				main.scopes = []*c11GScope{scope}
				c11SweepCache = append(c11SweepCache, c11SweepProg{carrier, ps.name, kind,
					&c11GProg{feat: map[string]bool{}, files: []*c11GFile{main, inc}}})
			}
		}
	}
	// the only mention of the include is a VALUE: a default / constant value that names a constant
	// or an enum value of the included file, alone or inside list / map / struct literals — as the
	// default of a method argument (service file) and, as controls, of a struct field and as a
	// top-level constant (types file).
	type valn struct {
		name string
		ty   func() *c11GTy
		val  string
	}
	values := []valn{
		{"const", func() *c11GTy { return c11TBase("i32") }, "incq.LIMIT"},
		{"enum-value", func() *c11GTy { return &c11GTy{name: "incq.Shade"} }, "incq.Shade.DARK"}, // typed by the included enum
		{"list-of-const", func() *c11GTy { return c11TList(c11TBase("i32")) }, "[1, incq.LIMIT, 3]"},
		{"map-value-const", func() *c11GTy { return c11TMap(c11TBase("string"), c11TBase("i32")) }, "{\"a\": incq.LIMIT}"},
		{"map-key-const", func() *c11GTy { return c11TMap(c11TBase("i32"), c11TBase("string")) }, "{incq.LIMIT: \"a\"}"},
		{"struct-literal-field-const", func() *c11GTy { return &c11GTy{name: "Local"} }, "{\"n\": incq.LIMIT}"},
		{"nested-list-map-const", func() *c11GTy { return c11TList(c11TMap(c11TBase("string"), c11TBase("i32"))) }, "[{\"k\": incq.LIMIT}]"},
	}
	for _, carrier := range []string{"arg-default", "struct-field-default", "constant"} {
		for _, v := range values {
			inc := &c11GFile{name: "incq"}
			inc.enums = []*c11GEnum{{name: "Shade", vals: []string{"LIGHT", "DARK"}, nums: []int{-1, -1}}}
			inc.consts = []*c11GConst{{name: "LIMIT", t: c11TBase("i32"), val: "7"}}
			main := &c11GFile{name: "prog", includes: []string{"incq.frugal"}}
			main.structs = []*c11GStruct{{kind: "struct", name: "Local", fields: []*c11GField{{id: 1, name: "n", t: c11TBase("i32")}}}}
			m := &c11GMethod{name: "carry", args: []*c11GField{{id: 1, name: "first", t: c11TBase("i32")}}, ret: c11TBase("i32")}
			switch carrier {
			case "arg-default":
				m.args = append(m.args, &c11GField{id: 2, name: "second", t: v.ty(), def: v.val})
			case "struct-field-default":
				main.structs = append(main.structs, &c11GStruct{kind: "struct", name: "Wrapper", fields: []*c11GField{{id: 1, name: "inner", t: v.ty(), def: v.val}}})
			case "constant":
				ref := ""
				if !strings.ContainsAny(v.val, "[{") {
					ref = v.val
				}
				main.consts = []*c11GConst{{name: "PICKED", t: v.ty(), val: v.val, ref: ref}}
			}
			main.services = []*c11GService{{name: "Courier", methods: []*c11GMethod{m}}}
			c11SweepCache = append(c11SweepCache, c11SweepProg{carrier, "value:" + v.name, "value",
				&c11GProg{feat: map[string]bool{}, files: []*c11GFile{main, inc}}})
		}
	}
	return c11SweepCache
}
