package main

// C11: correspondence ops between the REAL front-end functions (called in-process) and the Lean
// model (lean/FV/Model/Compile.lean through lean/Driver/Compile.lean), the known-finding
// witnesses, and the suite "c11ops" (casing helpers / CleanGenParam on random strings).

import (
	"fmt"
	"os"
	"path/filepath"
	"regexp"
	"sort"
	"strconv"
	"strings"
	"time"

	"github.com/Workiva/frugal/compiler"
	"github.com/Workiva/frugal/compiler/generator/golang"
	"github.com/Workiva/frugal/compiler/parser"
)

// ---------------------------------------------------------------- error classes of the front end

var c11IncludeWrap = regexp.MustCompile(`^Include [^ ]+: `)

var c11ErrPatterns = []struct{ pat, class string }{
	{"Duplicate service name", "dupService"}, {"Duplicate method name", "dupMethod"},
	{"Duplicate scope name", "dupScope"}, {"Duplicate operation name", "dupOp"},
	{"annotation not compatible with * namespace", "vendorWildcard"}, {"Duplicate include:", "dupInclude"},
	{"Referenced enum value ", "constRefEnum"}, {"Referenced constant ", "constRef"}, {"Invalid constant name", "constName"},
	{"Invalid alias", "typedefType"}, {"Circular typedef", "typedefCycle"},
	{" on struct ", "fieldType"}, {"in struct ", "dupFieldId"},
	{"Invalid return type", "retType"}, {"Invalid argument type", "argType"}, {"Invalid exception type", "excType"},
	{"Oneway method", "onewayThrows"}, {"Void method", "onewayReturns"}, {"in method ", "dupArgId"},
	{"Invalid operation type", "opType"}, {"Bad include name", "badIncludeName"}, {"Circular include", "circularInclude"},
	{"no such file or directory", "missingInclude"}, {"Invalid type ", "constType"},
}

func c11ErrClass(msg string) string {
	for c11IncludeWrap.MatchString(msg) {
		msg = c11IncludeWrap.ReplaceAllString(msg, "")
	}
	switch {
	case strings.HasPrefix(msg, "Services ") && strings.Contains(msg, " conflict"):
		return "conflictService"
	case strings.HasPrefix(msg, "Methods ") && strings.Contains(msg, " conflict"):
		return "conflictMethod"
	case strings.HasPrefix(msg, "Scopes ") && strings.Contains(msg, " conflict"):
		return "conflictScope"
	case strings.HasPrefix(msg, "Operations ") && strings.Contains(msg, " conflict"):
		return "conflictOp"
	case strings.HasPrefix(msg, "Referenced constant ") && strings.Contains(msg, " from include "):
		return "constRefIncluded"
	case strings.HasPrefix(msg, "Include ") && strings.HasSuffix(msg, " not found"):
		return "constRefInclude"
	}
	for _, p := range c11ErrPatterns {
		if strings.Contains(msg, p.pat) {
			return p.class
		}
	}
	return "other(" + c11Clip(msg, 80) + ")"
}

// ---------------------------------------------------------------- decoding the program encoding

type c11Toks struct {
	t  []string
	ok bool
}

func (s *c11Toks) next() string {
	if len(s.t) == 0 {
		s.ok = false
		return ""
	}
	x := s.t[0]
	s.t = s.t[1:]
	return x
}
func (s *c11Toks) nat() int {
	n, err := strconv.Atoi(s.next())
	if err != nil || n < 0 || n > 100000 {
		s.ok = false
		return 0
	}
	return n
}
func (s *c11Toks) ty(depth int) *c11GTy {
	if depth > 500 {
		s.ok = false
		return c11TBase("i32")
	}
	switch s.next() {
	case "N":
		return &c11GTy{name: s.next()}
	case "L":
		return c11TList(s.ty(depth + 1))
	case "S":
		return c11TSet(s.ty(depth + 1))
	case "M":
		k := s.ty(depth + 1)
		return c11TMap(k, s.ty(depth+1))
	}
	s.ok = false
	return c11TBase("i32")
}
func (s *c11Toks) fields() []*c11GField {
	n := s.nat()
	out := []*c11GField{}
	for i := 0; i < n && s.ok; i++ {
		id, err := strconv.Atoi(s.next())
		if err != nil {
			s.ok = false
		}
		name := s.next()
		out = append(out, &c11GField{id: id, name: name, t: s.ty(0)})
	}
	return out
}

func c11DecodeProg(enc string) (*c11GProg, bool) {
	s := &c11Toks{t: strings.Split(enc, "/"), ok: true}
	p := &c11GProg{feat: map[string]bool{}}
	nf := s.nat()
	for i := 0; i < nf && s.ok; i++ {
		if s.next() != "F" {
			return nil, false
		}
		f := &c11GFile{name: s.next()}
		f.vendorWild = s.next() == "1"
		for n := s.nat(); n > 0 && s.ok; n-- {
			f.includes = append(f.includes, s.next())
		}
		for n := s.nat(); n > 0 && s.ok; n-- {
			name := s.next()
			f.typedefs = append(f.typedefs, &c11GTypedef{name: name, t: s.ty(0)})
		}
		for n := s.nat(); n > 0 && s.ok; n-- {
			e := &c11GEnum{name: s.next()}
			for k := s.nat(); k > 0 && s.ok; k-- {
				e.vals = append(e.vals, s.next())
				e.nums = append(e.nums, -1)
			}
			f.enums = append(f.enums, e)
		}
		for n := s.nat(); n > 0 && s.ok; n-- {
			kind := map[string]string{"s": "struct", "u": "union", "e": "exception"}[s.next()]
			if kind == "" {
				return nil, false
			}
			name := s.next()
			f.structs = append(f.structs, &c11GStruct{kind: kind, name: name, fields: s.fields()})
		}
		for n := s.nat(); n > 0 && s.ok; n-- {
			c := &c11GConst{name: s.next(), t: s.ty(0), val: "0"}
			if r := s.next(); r != "-" {
				c.ref, c.val = r, r
			}
			f.consts = append(f.consts, c)
		}
		for n := s.nat(); n > 0 && s.ok; n-- {
			sv := &c11GService{name: s.next()}
			if e := s.next(); e != "-" {
				sv.ext = e
			}
			for k := s.nat(); k > 0 && s.ok; k-- {
				m := &c11GMethod{name: s.next()}
				m.oneway = s.next() == "1"
				if len(s.t) > 0 && s.t[0] == "V" {
					s.next()
				} else {
					m.ret = s.ty(0)
				}
				m.args = s.fields()
				m.excs = s.fields()
				sv.methods = append(sv.methods, m)
			}
			f.services = append(f.services, sv)
		}
		for n := s.nat(); n > 0 && s.ok; n-- {
			sc := &c11GScope{name: s.next()}
			for k := s.nat(); k > 0 && s.ok; k-- {
				name := s.next()
				sc.ops = append(sc.ops, &c11GOp{name: name, t: s.ty(0)})
			}
			f.scopes = append(f.scopes, sc)
		}
		p.files = append(p.files, f)
	}
	if !s.ok || len(s.t) != 0 || len(p.files) == 0 {
		return nil, false
	}
	return p, true
}

// c11Structural: the same program reduced to what the encoding carries (so that a replayed
// `val` line denotes exactly the program that was run).
func c11Structural(p *c11GProg) *c11GProg {
	q, ok := c11DecodeProg(p.enc())
	if !ok {
		panic("c11: program encoding does not decode: " + c11Clip(p.enc(), 300))
	}
	return q
}

// ---------------------------------------------------------------- real front end, in-process

func c11ParseProg(p *c11GProg) (*parser.Frugal, string) {
	files, order := p.render()
	var fr *parser.Frugal
	var err error
	o := guard(30*time.Second, func() { fr, err = parseText(files, order[0]) })
	switch {
	case o != "":
		return nil, o
	case err != nil:
		return nil, "err:" + c11ErrClass(err.Error())
	}
	return fr, "ok"
}

func c11ValReal(enc string) (string, bool) {
	p, ok := c11DecodeProg(enc)
	if !ok {
		return "bad-op", true
	}
	_, out := c11ParseProg(p)
	// ORACLE (independent of the model): the front end never panics and never blocks
	return out, !strings.HasPrefix(out, "panic:") && out != "blocked"
}

func c11ShowType(t *parser.Type) string {
	if t == nil {
		return "<nil>"
	}
	switch {
	case t.Name == "map" && t.KeyType != nil && t.ValueType != nil:
		return "map<" + c11ShowType(t.KeyType) + "," + c11ShowType(t.ValueType) + ">"
	case t.Name == "list" && t.ValueType != nil:
		return "list<" + c11ShowType(t.ValueType) + ">"
	case t.Name == "set" && t.ValueType != nil:
		return "set<" + c11ShowType(t.ValueType) + ">"
	}
	return t.Name
}

func c11ToParserType(t *c11GTy) *parser.Type {
	pt := &parser.Type{Name: t.name}
	if t.k != nil {
		pt.KeyType = c11ToParserType(t.k)
	}
	if t.v != nil {
		pt.ValueType = c11ToParserType(t.v)
	}
	return pt
}

func c11FindFrugal(root *parser.Frugal, name string, seen map[*parser.Frugal]bool) *parser.Frugal {
	if root == nil || seen[root] {
		return nil
	}
	seen[root] = true
	if root.Name == name {
		return root
	}
	keys := make([]string, 0, len(root.ParsedIncludes))
	for k := range root.ParsedIncludes {
		keys = append(keys, k)
	}
	sort.Strings(keys)
	for _, k := range keys {
		if f := c11FindFrugal(root.ParsedIncludes[k], name, seen); f != nil {
			return f
		}
	}
	return nil
}

func c11UndReal(args []string) (string, bool) {
	if len(args) != 3 {
		return "bad-op", true
	}
	p, ok := c11DecodeProg(args[0])
	idx, err := strconv.Atoi(args[1])
	ts := &c11Toks{t: strings.Split(args[2], "/"), ok: true}
	t := ts.ty(0)
	if !ok || err != nil || idx < 0 || idx >= len(p.files) || !ts.ok || len(ts.t) != 0 {
		return "bad-op", true
	}
	root, out := c11ParseProg(p)
	if root == nil {
		return "bad-op", true // only validated programs have a Frugal to resolve in
	}
	_ = out
	fr := c11FindFrugal(root, p.files[idx].name, map[*parser.Frugal]bool{})
	if fr == nil {
		return "unreachable-file", true
	}
	var u *parser.Type
	// the real recursion overflows the stack (fatal) if validation let a cycle through: run it in a
	// goroutine with a watchdog AND a hop bound evaluated first through the exported step-free API
	o := guard(20*time.Second, func() { u = fr.UnderlyingType(c11ToParserType(t)) })
	if o != "" {
		return o, false
	}
	return "ok " + c11ShowType(u), true
}

// c11ModelCases emits the correspondence cases of one generated program: the front-end verdict
// (`val`), and typedef resolution (`und`) of every typedef name and a few used types.
func c11ModelCases(r *Rng, p *c11GProg, ctxs []*c11FileCtx, files map[string]string, main string, kind string) {
	sp := c11Structural(p)
	enc := sp.enc()
	out, fine := c11ValReal(enc)
	Case("val "+enc, out)
	Stat("val:" + clip(out))
	if !fine {
		OracleFail("front end (parse + validate) panics or blocks", map[string]interface{}{"op": "val", "line": "val " + enc, "got": out})
	}
	if kind == "ok" && out != "ok" {
		OracleFail("valid program: rejected by the front end in-process", map[string]interface{}{"op": "val", "line": "val " + enc, "got": out})
	}
	if kind != "ok" && out == "ok" {
		OracleFail("invalid program (checked kind): accepted by the front end", map[string]interface{}{"op": "val", "line": "val " + enc, "kind": kind})
	}
	if out != "ok" {
		return
	}
	if len(ctxs) > 0 {
		c11ConstCases(r, sp, enc, ctxs[0])
	}
	for i, f := range sp.files {
		tys := []*c11GTy{}
		for _, td := range f.typedefs {
			tys = append(tys, &c11GTy{name: td.name})
		}
		for _, inc := range f.includes {
			in := strings.TrimSuffix(inc, ".frugal")
			for _, g := range sp.files {
				if g.name == in {
					for _, td := range g.typedefs {
						tys = append(tys, &c11GTy{name: in + "." + td.name})
					}
				}
			}
		}
		for _, s := range f.structs {
			for _, fl := range s.fields {
				if r.Chance(30) {
					tys = append(tys, fl.t)
				}
			}
		}
		if len(tys) > 14 {
			for k := len(tys) - 1; k > 0; k-- {
				j := r.Intn(k + 1)
				tys[k], tys[j] = tys[j], tys[k]
			}
			tys = tys[:14]
		}
		for _, t := range tys {
			tt := []string{}
			t.enc(&tt)
			args := []string{enc, strconv.Itoa(i), strings.Join(tt, "/")}
			o, fine := c11UndReal(args)
			if o == "unreachable-file" {
				continue // not included (transitively) by the main file: never parsed
			}
			Case("und "+strings.Join(args, " "), o)
			Stat("evaluations")
			Stat("und:" + clip(o))
			if !fine {
				OracleFail("typedef resolution of a validated program panics or does not terminate", map[string]interface{}{"op": "und", "line": "und " + strings.Join(args, " "), "got": o})
			}
		}
	}
}

// ---------------------------------------------------------------- casing helpers and CleanGenParam

func c11Guarded(f func() string) (string, bool) {
	res := ""
	o := guard(10*time.Second, func() { res = f() })
	if o != "" {
		return o, false
	}
	return res, true
}

func c11AsciiOnly(b []byte) bool {
	for _, c := range b {
		if c >= 0x80 {
			return false
		}
	}
	return true
}

func c11StrOp(f func(string) string) func(args []string) (string, bool) {
	return func(args []string) (string, bool) {
		if len(args) != 1 {
			return "bad-op", true
		}
		b := unhxSafe(args[0])
		if b == nil || !c11AsciiOnly(b) {
			return "bad-op", true
		}
		return c11Guarded(func() string { return "ok " + hx([]byte(f(string(b)))) })
	}
}

func c11CgpReal(args []string) (string, bool) {
	if len(args) != 1 {
		return "bad-op", true
	}
	b := unhxSafe(args[0])
	if b == nil || !c11AsciiOnly(b) {
		return "bad-op", true
	}
	return c11Guarded(func() string {
		lang, opts, err := compiler.CleanGenParam(string(b))
		if err != nil {
			if strings.HasPrefix(err.Error(), "Unknown option") {
				return "err:unknownOption"
			}
			return "err:other"
		}
		keys := make([]string, 0, len(opts))
		for k := range opts {
			keys = append(keys, k)
		}
		sort.Strings(keys)
		parts := []string{}
		for _, k := range keys {
			parts = append(parts, hx([]byte(k))+"="+hx([]byte(opts[k])))
		}
		o := "-"
		if len(parts) > 0 {
			o = strings.Join(parts, ";")
		}
		return "ok " + hx([]byte(lang)) + " " + o
	})
}

var c11IdentAlphabet = []string{"_", "_", "_", "a", "b", "z", "A", "Z", "x", "1", "9", "id", "ID", "Id", "url", "http", "Https", "api", "utf8",
	"new", "New", "args", "Args", "Result", "result", "foo", "Bar", ".", "/", ":", ",", "=", " ", "go", "py", "async", "slim", "package_prefix", "indent"}

func c11RandIdent(r *Rng) string {
	n := r.Pick(0, 1, 1, 2, 2, 3, 3, 4, 5, 7)
	var b strings.Builder
	for i := 0; i < n; i++ {
		k := r.Intn(len(c11IdentAlphabet) - 14)
		if r.Chance(8) {
			k = r.Intn(len(c11IdentAlphabet))
		}
		b.WriteString(c11IdentAlphabet[k])
	}
	return b.String()
}

func c11RandGen(r *Rng) string {
	langs := []string{"go", "java", "py", "dart", "json", "html", "cpp", ""}
	optsAll := []string{"async", "slim", "package_prefix=a/b", "package_prefix=", "use_vendor", "indent", "standalone", "asyncio", "tornado",
		"bogus", "", "=", "a=b=c", "library_prefix=x.y", "generated_annotations=undated"}
	s := langs[r.Intn(len(langs))]
	n := r.Pick(0, 0, 1, 1, 2, 3)
	for i := 0; i < n; i++ {
		sep := ","
		if i == 0 {
			sep = ":"
		}
		if r.Chance(5) {
			sep = ":"
		}
		s += sep + optsAll[r.Intn(len(optsAll))]
	}
	if r.Chance(5) {
		s += ":"
	}
	return s
}

func runC11Ops(r *Rng, n int) {
	ops := []string{"stc", "ttl", "tsn", "lfl", "i2r", "cgp"}
	for i := 0; i < n; i++ {
		op := ops[r.Intn(len(ops))]
		var line string
		switch op {
		case "tsn":
			line = "tsn " + hx([]byte(c11RandIdent(r))) + " " + hx([]byte(c11RandIdent(r)))
		case "cgp":
			line = "cgp " + hx([]byte(c11RandGen(r)))
		default:
			line = op + " " + hx([]byte(c11RandIdent(r)))
		}
		parts := strings.Split(line, " ")
		o, fine := lineOps[op](parts[1:])
		Case(line, o)
		Stat("evaluations")
		Stat(op + ":" + clip(o))
		// ORACLE: the casing helpers of the Go generator and CleanGenParam never panic, whatever
		// the string; LowercaseFirstLetter / includeNameToReference may only panic on inputs the
		// grammar cannot produce (empty name; no non-separator character).
		if !fine {
			arg := string(unhxSafe(parts[1]))
			guardedByGrammar := (op == "lfl" && arg == "") || (op == "i2r" && strings.Trim(arg, "./") == "")
			if guardedByGrammar {
				Stat(op + ":panics-only-outside-the-grammar")
				continue
			}
			OracleFail("front-end helper panics: "+op, map[string]interface{}{"op": op, "line": line, "got": o, "arg": arg})
		}
		if i < 3 {
			Sample(map[string]interface{}{"line": line, "arg": string(unhxSafe(parts[1])), "real": o})
		}
	}
}

// ---------------------------------------------------------------- known findings

// One witness directory per finding under /verif/known/c11_<id>/ (main file prog.frugal).
type c11Finding struct {
	id     string
	gen    string // target the witness fails for
	expect string // "valid": the witness is valid IDL and must compile into well-formed output
	what   string
}

var c11Findings = []c11Finding{
	{"typedef-second-hop-in-include", "go", "valid", "typedef chain whose second hop lives in an included file (base.userId -> id -> i64): UnderlyingType looks the second hop up in the including file; Go output (*base.UserId, NewID()) does not type-check"},
	{"go-noncomparable-container-key", "go", "valid", "set<binary>, map<binary,_>, set<list<_>>, map<list<_>,_> are emitted as Go maps with slice keys: compiler exits 0, output does not type-check"},
	{"prefix-token-format-chars", "go", "valid", "a static scope-prefix token containing % \" ' \\ or $ is pasted into format strings / string literals: unparsable or wrong output"},
	{"keyword-prefix-identifier", "go", "valid", "an identifier with a base-type/void/oneway/required/optional keyword as a proper prefix (struct stringy) is mis-tokenised: syntax error for valid IDL"},
	{"binary-constant-not-escaped", "dart", "valid", "a binary constant/default containing a quote or backslash is pasted unescaped into a string literal (Go []byte(\"..\"), Java \"..\".getBytes(), Dart utf8.encode('..'))"},
	{"i8-base-type", "java", "valid", "i8 passes validation (frugalBaseTypes) but the Java and Python generators panic on it (shouldn't happen: i8 / unrecognized type: i8)"},
	{"typedef-of-enum", "java", "valid", "a field whose type is a typedef of an enum makes the Java and Python generators panic (recovered: exit 1 for valid IDL)"},
	{"go-typedef-of-struct", "go", "valid", "typedef of a struct used as a field/argument type: Go emits `type T S` (no methods) and NewS() assigned to *T: does not type-check"},
	{"html-nonstring-map-key", "html", "valid", "a map constant/default with non-string keys: html formatValue fails (non-string type int64 as a key), exit 1"},
	{"python-empty-service", "py:asyncio", "valid", "a service without methods: Python emits `class Iface(object):` with an empty body (IndentationError)"},
	{"go-screaming-caps-name", "go", "valid", "a type or throws-field name in SCREAMING_CAPS with an underscore is declared as written (title) but referenced in camel case (snakeToCamel): undefined name in Go"},
	{"go-new-args-result-names", "go", "valid", "names that camel-case to New…/…Args/…Result get a `_` suffix where they are declared and none where they are used (struct NewThing referenced from another file, throws field thing_args)"},
	{"go-struct-constant-optional-field", "go", "valid", "a struct constant/default that sets an optional field: Go emits a value for a pointer field (cannot use … as *T value in struct literal)"},
	{"go-extends-service-name-case", "go", "valid", "service X extends lowercase_name: the parent client is referenced as F<name as written>Client but declared camel-cased"},
	{"go-duplicate-exception-type", "go", "valid", "throws (1: E a, 2: E b): duplicate case *E in the generated type switch"},
	{"java-container-constant-reference", "java", "valid", "const list<i32> b = a (a constant of container type referring to another constant): Java generator panics (interface conversion)"},
	{"go-service-import-through-typedef", "go", "valid", "a service method whose argument type is a local typedef of a container with an include-qualified element (typedef list<base.thing> things): the Go service file uses base.Thing in the expanded read/write code but imports are computed from the type names as written: undefined: base"},
	{"target-reserved-word-identifier", "py:asyncio", "valid", "an identifier that is a reserved word of the target (def, lambda, class, None in Python; class, new, int, final in Java; func, type, range as argument / method / file / namespace / prefix-variable name in Go) is neither rejected (Apache Thrift: Cannot use reserved language keyword) nor escaped: the emitted file does not parse"},
	{"generated-name-collision", "go", "valid", "an identifier that equals a local, a receiver or a method of the generated code (argument args / result, field Read / Write / String, throws field success, Python argument ctx / self) collides with it: no new variables on left side of :=, field and method with the same name"},
	{"underscore-only-identifier", "go", "valid", "the identifier _ (valid by the grammar and in Thrift) is emitted as the blank identifier / an empty camel-cased name: p._ undefined, invalid package name _"},
	{"unchecked-semantic-errors", "json", "invalid", "duplicate struct/enum/typedef/constant/field names, constant values of the wrong type, unknown extends, duplicate ids in throws are not validated: exit 0 (or a recovered panic) for invalid IDL"},
}

func c11KnownDir(id string) string {
	return filepath.Join(c11VerifDir(), "known", "c11_"+strings.Replace(id, "-", "_", -1))
}

// c11KnownWitnesses replays every recorded witness: Known(id, …) while it still fails.
func c11KnownWitnesses(root string) {
	for _, fd := range c11Findings {
		dir := c11KnownDir(fd.id)
		ents, err := os.ReadDir(dir)
		if err != nil {
			OracleFail("known-finding witness directory missing: "+dir, map[string]interface{}{"id": fd.id})
			continue
		}
		files := map[string]string{}
		order := []string{"prog.frugal"}
		for _, e := range ents {
			if strings.HasSuffix(e.Name(), ".frugal") {
				b, _ := os.ReadFile(filepath.Join(dir, e.Name()))
				files[e.Name()] = string(b)
				if e.Name() != "prog.frugal" {
					order = append(order, e.Name())
				}
			}
		}
		if _, ok := files["prog.frugal"]; !ok {
			OracleFail("known-finding witness has no prog.frugal: "+dir, map[string]interface{}{"id": fd.id})
			continue
		}
		wroot := filepath.Join(root, "known-"+fd.id)
		idl := filepath.Join(wroot, "idl")
		c11WriteFiles(idl, files)
		var t c11Target
		for _, x := range c11Targets {
			if x.lang == fd.gen {
				t = x
			}
		}
		j := &c11Job{tag: "k0", target: t, outDir: filepath.Join(wroot, "out"), bundle: c11Bundle(files, order), expect: fd.expect}
		gm := &c11GoMod{dir: filepath.Join(wroot, "unused")}
		if t.kind == "go" {
			gm, err = c11NewGoMod(wroot)
			if err != nil {
				continue
			}
		}
		j.gen = c11GenArg(t, nil, c11ModName+"/gen/k0/")
		j.run = c11Compile(idl, "prog.frugal", j.gen, j.outDir)
		if j.run.class == "ok" && fd.expect == "valid" {
			if err := c11CheckOutputs(wroot, gm, []*c11Job{j}); err != nil {
				fmt.Fprintln(os.Stderr, "c11: checker failure on a known witness:", err)
				os.Exit(3)
			}
		}
		if what := c11Verdict(j); what != "" {
			if j.run.class == "crash" || j.run.class == "hang" {
				c11Report(j, "known-finding witness "+fd.id+": "+what, nil) // never tolerated
			} else {
				Known(fd.id, fd.what)
				Stat("known-witness-still-fails:" + fd.id)
			}
		} else {
			Stat("known-witness-now-passes:" + fd.id)
		}
		os.RemoveAll(wroot)
	}
}

func init() {
	suites["c11ops"] = runC11Ops
	lineOps["stc"] = c11StrOp(golang.VerifSnakeToCamel)
	lineOps["ttl"] = c11StrOp(golang.VerifTitle)
	lineOps["lfl"] = c11StrOp(parser.LowercaseFirstLetter)
	lineOps["i2r"] = c11StrOp(golang.VerifIncludeNameToReference)
	lineOps["tsn"] = func(args []string) (string, bool) {
		if len(args) != 2 {
			return "bad-op", true
		}
		a, b := unhxSafe(args[0]), unhxSafe(args[1])
		if a == nil || b == nil || !c11AsciiOnly(a) || !c11AsciiOnly(b) {
			return "bad-op", true
		}
		return c11Guarded(func() string { return "ok " + hx([]byte(golang.VerifTitleServiceName(string(a), string(b)))) })
	}
	lineOps["cgp"] = c11CgpReal
	lineOps["val"] = func(args []string) (string, bool) {
		if len(args) != 1 {
			return "bad-op", true
		}
		return c11ValReal(args[0])
	}
	lineOps["und"] = c11UndReal
}
