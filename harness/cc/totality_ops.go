package main

func c11ModelCases(r *Rng, p *c11GProg, ctxs []*c11FileCtx, files map[string]string, main string, kind string) {}
func c11KnownWitnesses(root string)                                                                    {}
