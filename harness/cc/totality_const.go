package main

// C11: constant-value generation of the Go generator (generateConstantValue and what it calls:
// ContextFromIdentifier, KeyToString, FindStruct, IsEnum, UnderlyingType) against the Lean model
// FV.Compile.genConst — op `gcv <prog> <type> <value>`: the main file gets
// `const <type> zz_probe = <value>`; output `rejected` (the front end refuses the program),
// `ok`, or `panic:<typeAssert|explicit|index|…>`.
//
// ORACLE (the property, independent of the model): a value that FITS its type (built by
// c11FitVal from the type, the harness's own reading of Thrift typing) never makes the generator
// panic. Misfitting values (kinds nothing validates) may panic — only compared with the model.

import (
	"encoding/hex"
	"fmt"
	"strconv"
	"strings"

	"github.com/Workiva/frugal/compiler/generator/golang"
	"github.com/Workiva/frugal/compiler/parser"
)

type c11Val struct {
	kind  byte // s b i d r l m
	s     string
	i     int64
	b     bool
	list  []*c11Val
	pairs [][2]*c11Val
}

func (v *c11Val) render() string {
	switch v.kind {
	case 's':
		return strconv.Quote(v.s)
	case 'b':
		return strconv.FormatBool(v.b)
	case 'i':
		return strconv.FormatInt(v.i, 10)
	case 'd':
		return "2.5"
	case 'r':
		return v.s
	case 'l':
		parts := []string{}
		for _, e := range v.list {
			parts = append(parts, e.render())
		}
		return "[" + strings.Join(parts, ", ") + "]"
	default:
		parts := []string{}
		for _, kv := range v.pairs {
			parts = append(parts, kv[0].render()+": "+kv[1].render())
		}
		return "{" + strings.Join(parts, ", ") + "}"
	}
}

func (v *c11Val) enc(out *[]string) {
	switch v.kind {
	case 's':
		h := hex.EncodeToString([]byte(v.s))
		if h == "" {
			h = "-"
		}
		*out = append(*out, "VS", h)
	case 'b':
		*out = append(*out, "VB", map[bool]string{true: "1", false: "0"}[v.b])
	case 'i':
		*out = append(*out, "VI", strconv.FormatInt(v.i, 10))
	case 'd':
		*out = append(*out, "VD")
	case 'r':
		*out = append(*out, "VR", v.s)
	case 'l':
		*out = append(*out, "VL", strconv.Itoa(len(v.list)))
		for _, e := range v.list {
			e.enc(out)
		}
	default:
		*out = append(*out, "VM", strconv.Itoa(len(v.pairs)))
		for _, kv := range v.pairs {
			kv[0].enc(out)
			kv[1].enc(out)
		}
	}
}

func (s *c11Toks) val(depth int) *c11Val {
	if depth > 200 {
		s.ok = false
		return &c11Val{kind: 'd'}
	}
	switch s.next() {
	case "VS":
		h := s.next()
		if h == "-" {
			return &c11Val{kind: 's'}
		}
		b, err := hex.DecodeString(h)
		if err != nil {
			s.ok = false
		}
		return &c11Val{kind: 's', s: string(b)}
	case "VB":
		return &c11Val{kind: 'b', b: s.next() == "1"}
	case "VI":
		i, err := strconv.ParseInt(s.next(), 10, 64)
		if err != nil {
			s.ok = false
		}
		return &c11Val{kind: 'i', i: i}
	case "VD":
		return &c11Val{kind: 'd'}
	case "VR":
		return &c11Val{kind: 'r', s: s.next()}
	case "VL":
		v := &c11Val{kind: 'l'}
		for n := s.nat(); n > 0 && s.ok; n-- {
			v.list = append(v.list, s.val(depth+1))
		}
		return v
	case "VM":
		v := &c11Val{kind: 'm'}
		for n := s.nat(); n > 0 && s.ok; n-- {
			k := s.val(depth + 1)
			v.pairs = append(v.pairs, [2]*c11Val{k, s.val(depth + 1)})
		}
		return v
	}
	s.ok = false
	return &c11Val{kind: 'd'}
}

// c11FitVal builds a value that fits t as read in file context c (nil: none can be built here).
func c11FitVal(r *Rng, c *c11FileCtx, t *c11GTy, depth int) *c11Val {
	u, uc, s := c.resolve(t)
	if s != nil {
		switch s.kind {
		case c11SymEnum:
			if len(s.en.vals) > 0 && uc == c && r.Bool() {
				return &c11Val{kind: 'r', s: s.en.name + "." + s.en.vals[r.Intn(len(s.en.vals))]}
			}
			return &c11Val{kind: 'i', i: int64(r.Intn(5))}
		case c11SymStruct:
			if uc != c {
				return nil
			}
			v := &c11Val{kind: 'm'}
			for _, f := range s.st.fields {
				if depth <= 0 || !r.Chance(60) {
					continue
				}
				fv := c11FitVal(r, c, f.t, depth-1)
				if fv == nil {
					continue
				}
				k := &c11Val{kind: 's', s: f.name}
				if r.Chance(20) {
					k = &c11Val{kind: 'r', s: f.name}
				}
				v.pairs = append(v.pairs, [2]*c11Val{k, fv})
			}
			return v
		default:
			return nil
		}
	}
	if uc != c && !c11IsPureTy(u) {
		return nil
	}
	if u.isCont() {
		n := r.Intn(3)
		if depth <= 0 {
			n = 0
		}
		switch u.name {
		case "list", "set":
			v := &c11Val{kind: 'l'}
			for i := 0; i < n; i++ {
				e := c11FitVal(r, c, u.v, depth-1)
				if e == nil {
					return nil
				}
				v.list = append(v.list, e)
			}
			return v
		default:
			v := &c11Val{kind: 'm'}
			for i := 0; i < n; i++ {
				k, w := c11FitVal(r, c, u.k, depth-1), c11FitVal(r, c, u.v, depth-1)
				if k == nil || w == nil {
					return nil
				}
				v.pairs = append(v.pairs, [2]*c11Val{k, w})
			}
			return v
		}
	}
	switch u.name {
	case "bool":
		return &c11Val{kind: 'b', b: r.Bool()}
	case "double":
		if r.Bool() {
			return &c11Val{kind: 'd'}
		}
		return &c11Val{kind: 'i', i: int64(r.Intn(9))}
	case "string", "binary":
		return &c11Val{kind: 's', s: []string{"", "abc", "two words"}[r.Intn(3)]}
	}
	return &c11Val{kind: 'i', i: int64(r.Intn(100)) - 10}
}

// c11Misfit replaces one node of the value by something of another shape.
func c11Misfit(r *Rng, c *c11FileCtx, v *c11Val) *c11Val {
	alt := []*c11Val{{kind: 'i', i: 7}, {kind: 's', s: "x"}, {kind: 'b', b: true}, {kind: 'd'}, {kind: 'l'}, {kind: 'm'},
		{kind: 'r', s: "no_such_constant_zz"}, {kind: 'r', s: "nowhere.thing"}, {kind: 'r', s: "a.b.c"}, {kind: 'r', s: "a.b.c.d"},
		{kind: 'l', list: []*c11Val{{kind: 'i', i: 1}}}, {kind: 'm', pairs: [][2]*c11Val{{{kind: 'i', i: 1}, {kind: 'i', i: 2}}}}}
	if len(c.f.consts) > 0 {
		alt = append(alt, &c11Val{kind: 'r', s: c.f.consts[r.Intn(len(c.f.consts))].name})
	}
	if len(c.f.enums) > 0 {
		alt = append(alt, &c11Val{kind: 'r', s: c.f.enums[0].name + ".NO_SUCH_VALUE_ZZ"})
	}
	pick := alt[r.Intn(len(alt))]
	switch {
	case v.kind == 'l' && len(v.list) > 0 && r.Chance(60):
		w := *v
		w.list = append([]*c11Val{}, v.list...)
		i := r.Intn(len(w.list))
		w.list[i] = c11Misfit(r, c, w.list[i])
		return &w
	case v.kind == 'm' && len(v.pairs) > 0 && r.Chance(60):
		w := *v
		w.pairs = append([][2]*c11Val{}, v.pairs...)
		i := r.Intn(len(w.pairs))
		if r.Chance(30) {
			w.pairs[i] = [2]*c11Val{pick, w.pairs[i][1]}
		} else {
			w.pairs[i] = [2]*c11Val{w.pairs[i][0], c11Misfit(r, c, w.pairs[i][1])}
		}
		return &w
	}
	return pick
}

func c11GcvReal(args []string) (string, bool) {
	if len(args) != 3 {
		return "bad-op", true
	}
	p, ok := c11DecodeProg(args[0])
	ts := &c11Toks{t: strings.Split(args[1], "/"), ok: true}
	t := ts.ty(0)
	vs := &c11Toks{t: strings.Split(args[2], "/"), ok: true}
	v := vs.val(0)
	if !ok || !ts.ok || len(ts.t) != 0 || !vs.ok || len(vs.t) != 0 {
		return "bad-op", true
	}
	k := &c11GConst{name: "zz_probe", t: t, val: v.render()}
	if v.kind == 'r' {
		k.ref = v.s
	}
	p.files[0].consts = append(p.files[0].consts, k)
	fr, out := c11ParseProg(p)
	if fr == nil {
		if strings.HasPrefix(out, "panic") || out == "blocked" {
			return out, false
		}
		return "rejected", true
	}
	var probe *parser.Constant
	for _, c := range fr.Constants {
		if c.Name == "zz_probe" {
			probe = c
		}
	}
	if probe == nil {
		return "bad-op", true
	}
	g := golang.NewGenerator(map[string]string{})
	g.SetFrugal(fr)
	res := "ok"
	done := make(chan struct{})
	go func() {
		defer close(done)
		defer func() {
			if r := recover(); r != nil {
				msg := fmt.Sprint(r)
				switch {
				case strings.Contains(msg, "interface conversion"):
					res = "panic:typeAssert"
				case strings.Contains(msg, "index out of range"):
					res = "panic:index"
				case strings.Contains(msg, "slice bounds"):
					res = "panic:sliceBounds"
				case strings.Contains(msg, "runtime error"):
					res = "panic:runtime(" + c11Clip(msg, 60) + ")"
				default:
					res = "panic:explicit"
				}
			}
		}()
		golang.VerifGenerateConstantValue(g, probe.Type, probe.Value)
	}()
	<-done
	return res, true
}

// c11ConstCases: per valid program, values for a handful of types of the main file.
func c11ConstCases(r *Rng, sp *c11GProg, enc string, c *c11FileCtx) {
	if c == nil {
		return
	}
	g := &c11ProgGen{r: r, feat: map[string]bool{}}
	for k := 0; k < 8; k++ {
		t := g.anyTy(c, 2)
		v := c11FitVal(r, c, t, 3)
		if v == nil {
			continue
		}
		fits := true
		if r.Chance(35) {
			v = c11Misfit(r, c, v)
			fits = false
		}
		tt, vt := []string{}, []string{}
		t.enc(&tt)
		v.enc(&vt)
		args := []string{enc, strings.Join(tt, "/"), strings.Join(vt, "/")}
		o, fine := c11GcvReal(args)
		line := "gcv " + strings.Join(args, " ")
		Case(line, o)
		Stat("evaluations")
		Stat("gcv:" + map[bool]string{true: "fits:", false: "misfit:"}[fits] + clip(o))
		if !fine {
			OracleFail("front end panics or blocks on a program with a probe constant", map[string]interface{}{"op": "gcv", "line": line, "got": o})
		}
		if fits && o != "ok" {
			OracleFail("a constant value that fits its type is refused or makes the Go generator panic", map[string]interface{}{"op": "gcv", "line": line, "got": o,
				"const": "const " + t.String() + " zz_probe = " + v.render()})
		}
	}
}

func init() {
	lineOps["gcv"] = func(args []string) (string, bool) {
		o, fine := c11GcvReal(args)
		return o, fine
	}
}
