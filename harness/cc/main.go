package main

import (
	"bufio"
	"flag"
	"fmt"
	"os"
	"strings"
)

func main() {
	if len(os.Args) < 2 {
		fmt.Fprintln(os.Stderr, "usage: cc <suite> [-seed N] [-n N] [-lines file]")
		os.Exit(2)
	}
	suite := os.Args[1]
	fs := flag.NewFlagSet(suite, flag.ExitOnError)
	seed := fs.Uint64("seed", 1, "PRNG seed")
	n := fs.Int("n", 100, "number of cases")
	lines := fs.String("lines", "", "file of driver input lines to replay against the real code (corpus / replay)")
	fs.Parse(os.Args[2:])
	r := NewRng(*seed)
	if *lines != "" {
		replayLines(*lines)
		Finish()
		return
	}
	run, ok := suites[suite]
	if !ok {
		fmt.Fprintln(os.Stderr, "unknown suite", suite)
		os.Exit(2)
	}
	run(r, *n)
	Finish()
}

// suites: name -> generator run. Each harness file registers its suites in init().
var suites = map[string]func(r *Rng, n int){}

// lineOps: driver op -> function that executes the line's arguments against the real
// code and returns the canonical real output and whether the property oracle held.
var lineOps = map[string]func(args []string) (string, bool){}

// replayLines: each line is a driver input line; it is executed against the real
// code and emitted as a correspondence case (and through the suite's oracle).
func replayLines(path string) {
	f, err := os.Open(path)
	if err != nil {
		fmt.Fprintln(os.Stderr, err)
		os.Exit(2)
	}
	defer f.Close()
	sc := bufio.NewScanner(f)
	sc.Buffer(make([]byte, 1<<20), 1<<28)
	for sc.Scan() {
		line := strings.TrimSpace(sc.Text())
		if line == "" || line[0] == '#' {
			continue
		}
		parts := strings.Split(line, " ")
		f, ok := lineOps[parts[0]]
		if !ok {
			Case(line, "bad-op")
			continue
		}
		o, fine := f(parts[1:])
		Case(line, o)
		if !fine {
			OracleFail("replayed line violates the property oracle: "+parts[0]+" -> "+clip(o), map[string]interface{}{"op": parts[0], "line": line, "got": o})
		}
		Stat("evaluations")
	}
}
