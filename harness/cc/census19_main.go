//go:build census19main

package main

// Stand-alone entry of the C19 census, used by the `generate` step of
// bin/props_d/c19.py before the Lean build:
//   go build -tags census19main -o .build/census19 census19.go census19_imports.go census19_main.go
//   census19 <repo> <expected.json> <out.lean> [<out-sites.json>]
// (file-list build: stdlib only, independent of the rest of harness/cc).

import (
	"encoding/json"
	"fmt"
	"os"
)

func main() {
	if len(os.Args) < 4 {
		fmt.Fprintln(os.Stderr, "usage: census19 <repo> <expected.json> <out.lean> [<sites.json>]")
		os.Exit(2)
	}
	sites, err := c19ScanRepo(os.Args[1])
	if err != nil {
		fmt.Fprintln(os.Stderr, "census19:", err)
		os.Exit(1)
	}
	exp, err := c19LoadExpected(os.Args[2])
	if err != nil {
		fmt.Fprintln(os.Stderr, "census19: expectation:", err)
		os.Exit(1)
	}
	rows := c19Merge(sites, exp)
	text := c19CensusLean(rows)
	if old, err := os.ReadFile(os.Args[3]); err != nil || string(old) != text { // keep mtime when unchanged
		if err := os.WriteFile(os.Args[3], []byte(text), 0o644); err != nil {
			fmt.Fprintln(os.Stderr, "census19:", err)
			os.Exit(1)
		}
	}
	if len(os.Args) > 4 {
		b, _ := json.MarshalIndent(sites, "", " ")
		os.WriteFile(os.Args[4], b, 0o644)
	}
	bad := 0
	for _, r := range rows {
		if r.Status != "ok" {
			bad++
			fmt.Fprintf(os.Stderr, "census:C19 %s site %s\n", r.Status, r.Key)
		}
	}
	fmt.Printf("sites=%d untied=%d\n", len(rows), bad)
}
