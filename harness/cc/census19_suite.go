package main

import (
	"os"
	"path/filepath"
)

func c19Repo() string {
	if p := os.Getenv("VERIF_REPO"); p != "" {
		return p
	}
	return "/repo"
}

// c19CensusCases recomputes the census from /repo and emits one case per site:
//   c19site <key>   real: "present <kind> <pattern>" | "absent"
// The model side answers from the regenerated table (Generated/Census19.lean):
// a new or changed site is unknown there, a vanished one is still present there,
// so every broken tie surfaces as a disagreement that names the site.
func c19CensusCases() {
	sites, err := c19ScanRepo(c19Repo())
	if err != nil {
		OracleFail("c19: census extractor cannot read the compiler sources: "+err.Error(), map[string]interface{}{"op": "c19site", "in": "-"})
		return
	}
	exp, err := c19LoadExpected(filepath.Join(c19VerifDir(), "known", "c19_census_expected.json"))
	if err != nil {
		exp = map[string]c19Expect{}
		Stat("census-expectation-missing")
	}
	for _, r := range c19Merge(sites, exp) {
		Stat("census-site:" + r.Kind)
		Stat("census-pattern:" + r.Pattern)
		switch r.Status {
		case "vanished":
			Case("c19site "+r.Key, "absent")
		default:
			Case("c19site "+r.Key, "present "+r.Kind+" "+r.Pattern)
		}
	}
}
