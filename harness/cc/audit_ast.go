package main

// C18: a small IDL AST for the audit harness — generation, rendering to IDL text,
// the compact token format shared with the Lean driver (lean/Driver/Audit.lean),
// and conversion from the real parser's AST.
//
// Token format (one token, no spaces): s-expressions with `(`, `)`, `,`.
//   prog    = (TYPEDEFS,ENUMS,STRUCTS,SERVICES,SCOPES,NAMESPACES,CONSTS)   each a list (x,y,…) or ()
//   typedef = (name,ty)
//   ty      = atom (base type iff the atom is one of the 8 base type names, else a named type)
//           | (l,ty) | (s,ty) | (m,ty,ty)
//   enum    = (name,((vname,num),…))
//   struct  = (kind,name,(field,…))            kind: s | u | x
//   field   = (id,mod,name,ty,default)         mod: r | o | d ; default: - or a literal token
//   service = (name,ext,(method,…))            ext: () or atom
//   method  = (name,ow,ret,(arg,…),(exc,…))    ow: 0 | 1 ; ret: () for void or ty
//   scope   = (name,(ptok,…),(op,…))           ptok: (v,name) | (t,text) ; op: (name,ty)
//   ns      = (scope,value)      const = (name,ty,value)

import (
	"encoding/hex"
	"fmt"
	"sort"
	"strconv"
	"strings"

	"github.com/Workiva/frugal/compiler/parser"
)

const (
	tyBase = iota
	tyNamed
	tyList
	tySet
	tyMap
)

type gTy struct {
	kind int
	name string
	k, v *gTy
}

type gField struct {
	id   int
	mod  byte // 'r','o','d'
	name string
	ty   *gTy
	dflt string // "-" = none
}

type gStruct struct {
	kind   byte // 's','u','x'
	name   string
	fields []*gField
}

type gEV struct {
	name string
	num  int
}

type gEnum struct {
	name string
	vals []gEV
}

type gTypedef struct {
	name string
	ty   *gTy
}

type gMethod struct {
	name   string
	oneway bool
	ret    *gTy // nil = void
	args   []*gField
	excs   []*gField
}

type gService struct {
	name, ext string
	methods   []*gMethod
}

type gPTok struct {
	isVar bool
	s     string
}

type gOp struct {
	name string
	ty   *gTy
}

type gScope struct {
	name   string
	prefix []gPTok
	ops    []*gOp
}

type gNS struct{ scope, value string }

type gConst struct {
	name  string
	ty    *gTy
	value string
}

type gProg struct {
	typedefs []*gTypedef
	enums    []*gEnum
	structs  []*gStruct
	services []*gService
	scopes   []*gScope
	nss      []*gNS
	consts   []*gConst
}

var baseNames = []string{"bool", "byte", "i16", "i32", "i64", "double", "string", "binary"}

func isBaseName(s string) bool {
	for _, b := range baseNames {
		if b == s {
			return true
		}
	}
	return false
}

// ---------- copies ----------

func (t *gTy) clone() *gTy {
	if t == nil {
		return nil
	}
	return &gTy{t.kind, t.name, t.k.clone(), t.v.clone()}
}
func cloneFields(fs []*gField) []*gField {
	out := make([]*gField, len(fs))
	for i, f := range fs {
		c := *f
		c.ty = f.ty.clone()
		out[i] = &c
	}
	return out
}
func (p *gProg) clone() *gProg {
	q := &gProg{}
	for _, t := range p.typedefs {
		q.typedefs = append(q.typedefs, &gTypedef{t.name, t.ty.clone()})
	}
	for _, e := range p.enums {
		q.enums = append(q.enums, &gEnum{e.name, append([]gEV{}, e.vals...)})
	}
	for _, s := range p.structs {
		q.structs = append(q.structs, &gStruct{s.kind, s.name, cloneFields(s.fields)})
	}
	for _, s := range p.services {
		n := &gService{name: s.name, ext: s.ext}
		for _, m := range s.methods {
			n.methods = append(n.methods, &gMethod{m.name, m.oneway, m.ret.clone(), cloneFields(m.args), cloneFields(m.excs)})
		}
		q.services = append(q.services, n)
	}
	for _, s := range p.scopes {
		n := &gScope{name: s.name, prefix: append([]gPTok{}, s.prefix...)}
		for _, o := range s.ops {
			n.ops = append(n.ops, &gOp{o.name, o.ty.clone()})
		}
		q.scopes = append(q.scopes, n)
	}
	for _, n := range p.nss {
		c := *n
		q.nss = append(q.nss, &c)
	}
	for _, c := range p.consts {
		q.consts = append(q.consts, &gConst{c.name, c.ty.clone(), c.value})
	}
	return q
}

// ---------- IDL text ----------

func (t *gTy) idl() string {
	switch t.kind {
	case tyList:
		return "list<" + t.v.idl() + ">"
	case tySet:
		return "set<" + t.v.idl() + ">"
	case tyMap:
		return "map<" + t.k.idl() + ", " + t.v.idl() + ">"
	}
	return t.name
}

func idlFields(fs []*gField, sep string) string {
	var b strings.Builder
	for _, f := range fs {
		b.WriteString(sep)
		b.WriteString(strconv.Itoa(f.id))
		b.WriteString(": ")
		switch f.mod {
		case 'r':
			b.WriteString("required ")
		case 'o':
			b.WriteString("optional ")
		}
		b.WriteString(f.ty.idl() + " " + f.name)
		if f.dflt != "-" && f.dflt != "" {
			b.WriteString(" = " + idlValue(f.dflt))
		}
		b.WriteString(",")
	}
	return b.String()
}

func (p *gProg) idl() string {
	var b strings.Builder
	for _, n := range p.nss {
		fmt.Fprintf(&b, "namespace %s %s\n", n.scope, n.value)
	}
	for _, t := range p.typedefs {
		fmt.Fprintf(&b, "typedef %s %s\n", t.ty.idl(), t.name)
	}
	for _, c := range p.consts {
		fmt.Fprintf(&b, "const %s %s = %s\n", c.ty.idl(), c.name, idlValue(c.value))
	}
	for _, e := range p.enums {
		fmt.Fprintf(&b, "enum %s {\n", e.name)
		for _, v := range e.vals {
			fmt.Fprintf(&b, "  %s = %d,\n", v.name, v.num)
		}
		b.WriteString("}\n")
	}
	for _, s := range p.structs {
		kw := map[byte]string{'s': "struct", 'u': "union", 'x': "exception"}[s.kind]
		fmt.Fprintf(&b, "%s %s {%s\n}\n", kw, s.name, idlFields(s.fields, "\n  "))
	}
	for _, s := range p.services {
		ext := ""
		if s.ext != "" {
			ext = " extends " + s.ext
		}
		fmt.Fprintf(&b, "service %s%s {\n", s.name, ext)
		for _, m := range s.methods {
			b.WriteString("  ")
			if m.oneway {
				b.WriteString("oneway ")
			}
			if m.ret == nil {
				b.WriteString("void")
			} else {
				b.WriteString(m.ret.idl())
			}
			fmt.Fprintf(&b, " %s(%s)", m.name, idlFields(m.args, " "))
			if len(m.excs) > 0 {
				fmt.Fprintf(&b, " throws (%s)", idlFields(m.excs, " "))
			}
			b.WriteString(",\n")
		}
		b.WriteString("}\n")
	}
	for _, s := range p.scopes {
		fmt.Fprintf(&b, "scope %s", s.name)
		if len(s.prefix) > 0 {
			parts := make([]string, len(s.prefix))
			for i, t := range s.prefix {
				if t.isVar {
					parts[i] = "{" + t.s + "}"
				} else {
					parts[i] = t.s
				}
			}
			b.WriteString(" prefix " + strings.Join(parts, "."))
		}
		b.WriteString(" {\n")
		for _, o := range s.ops {
			fmt.Fprintf(&b, "  %s: %s\n", o.name, o.ty.idl())
		}
		b.WriteString("}\n")
	}
	return b.String()
}

// ---------- token format ----------

func (t *gTy) tok() string {
	switch t.kind {
	case tyList:
		return "(l," + t.v.tok() + ")"
	case tySet:
		return "(s," + t.v.tok() + ")"
	case tyMap:
		return "(m," + t.k.tok() + "," + t.v.tok() + ")"
	}
	return t.name
}

func lst(items []string) string { return "(" + strings.Join(items, ",") + ")" }

func tokFields(fs []*gField) string {
	items := make([]string, len(fs))
	for i, f := range fs {
		d := f.dflt
		if d == "" {
			d = "-"
		}
		items[i] = lst([]string{strconv.Itoa(f.id), string(f.mod), f.name, f.ty.tok(), d})
	}
	return lst(items)
}

func (p *gProg) tok() string {
	var tds, ens, sts, svs, scs, nss, cs []string
	for _, t := range p.typedefs {
		tds = append(tds, lst([]string{t.name, t.ty.tok()}))
	}
	for _, e := range p.enums {
		var vs []string
		for _, v := range e.vals {
			vs = append(vs, lst([]string{v.name, strconv.Itoa(v.num)}))
		}
		ens = append(ens, lst([]string{e.name, lst(vs)}))
	}
	for _, s := range p.structs {
		sts = append(sts, lst([]string{string(s.kind), s.name, tokFields(s.fields)}))
	}
	for _, s := range p.services {
		var ms []string
		for _, m := range s.methods {
			ow, ret := "0", "()"
			if m.oneway {
				ow = "1"
			}
			if m.ret != nil {
				ret = m.ret.tok()
			}
			ms = append(ms, lst([]string{m.name, ow, ret, tokFields(m.args), tokFields(m.excs)}))
		}
		ext := "()"
		if s.ext != "" {
			ext = s.ext
		}
		svs = append(svs, lst([]string{s.name, ext, lst(ms)}))
	}
	for _, s := range p.scopes {
		var pt, ops []string
		for _, t := range s.prefix {
			k := "t"
			if t.isVar {
				k = "v"
			}
			pt = append(pt, lst([]string{k, t.s}))
		}
		for _, o := range s.ops {
			ops = append(ops, lst([]string{o.name, o.ty.tok()}))
		}
		scs = append(scs, lst([]string{s.name, lst(pt), lst(ops)}))
	}
	for _, n := range p.nss {
		nss = append(nss, lst([]string{n.scope, n.value}))
	}
	for _, c := range p.consts {
		cs = append(cs, lst([]string{c.name, c.ty.tok(), c.value}))
	}
	return lst([]string{lst(tds), lst(ens), lst(sts), lst(svs), lst(scs), lst(nss), lst(cs)})
}

// generic s-expression
type sx struct {
	atom string
	kids []*sx
	list bool
}

func parseSx(s string) (*sx, error) {
	pos := 0
	var rec func() (*sx, error)
	rec = func() (*sx, error) {
		if pos >= len(s) {
			return nil, fmt.Errorf("eof")
		}
		if s[pos] == '(' {
			pos++
			n := &sx{list: true}
			if pos < len(s) && s[pos] == ')' {
				pos++
				return n, nil
			}
			for {
				k, err := rec()
				if err != nil {
					return nil, err
				}
				n.kids = append(n.kids, k)
				if pos >= len(s) {
					return nil, fmt.Errorf("eof in list")
				}
				if s[pos] == ',' {
					pos++
					continue
				}
				if s[pos] == ')' {
					pos++
					return n, nil
				}
				return nil, fmt.Errorf("bad char at %d", pos)
			}
		}
		st := pos
		for pos < len(s) && s[pos] != '(' && s[pos] != ')' && s[pos] != ',' {
			pos++
		}
		return &sx{atom: s[st:pos]}, nil
	}
	n, err := rec()
	if err != nil {
		return nil, err
	}
	if pos != len(s) {
		return nil, fmt.Errorf("trailing input")
	}
	return n, nil
}

type sxErr string

func need(c bool, what string) {
	if !c {
		panic(sxErr(what))
	}
}

func tyOfSx(n *sx) *gTy {
	if !n.list {
		if isBaseName(n.atom) {
			return &gTy{kind: tyBase, name: n.atom}
		}
		return &gTy{kind: tyNamed, name: n.atom}
	}
	need(len(n.kids) >= 2 && !n.kids[0].list, "ty")
	switch n.kids[0].atom {
	case "l":
		need(len(n.kids) == 2, "list")
		return &gTy{kind: tyList, name: "list", v: tyOfSx(n.kids[1])}
	case "s":
		need(len(n.kids) == 2, "set")
		return &gTy{kind: tySet, name: "set", v: tyOfSx(n.kids[1])}
	case "m":
		need(len(n.kids) == 3, "map")
		return &gTy{kind: tyMap, name: "map", k: tyOfSx(n.kids[1]), v: tyOfSx(n.kids[2])}
	}
	panic(sxErr("ty head"))
}

func fieldsOfSx(n *sx) []*gField {
	need(n.list, "fields")
	var out []*gField
	for _, k := range n.kids {
		need(k.list && len(k.kids) == 5, "field")
		id, err := strconv.Atoi(k.kids[0].atom)
		need(err == nil && len(k.kids[1].atom) == 1, "field id/mod")
		out = append(out, &gField{id, k.kids[1].atom[0], k.kids[2].atom, tyOfSx(k.kids[3]), k.kids[4].atom})
	}
	return out
}

func progOfTok(s string) (p *gProg, err error) {
	defer func() {
		if r := recover(); r != nil {
			if e, ok := r.(sxErr); ok {
				p, err = nil, fmt.Errorf("bad token: %s", string(e))
				return
			}
			panic(r)
		}
	}()
	n, err := parseSx(s)
	if err != nil {
		return nil, err
	}
	need(n.list && len(n.kids) == 7, "prog")
	for _, k := range n.kids {
		need(k.list, "section")
	}
	p = &gProg{}
	for _, k := range n.kids[0].kids {
		need(k.list && len(k.kids) == 2, "typedef")
		p.typedefs = append(p.typedefs, &gTypedef{k.kids[0].atom, tyOfSx(k.kids[1])})
	}
	for _, k := range n.kids[1].kids {
		need(k.list && len(k.kids) == 2 && k.kids[1].list, "enum")
		e := &gEnum{name: k.kids[0].atom}
		for _, v := range k.kids[1].kids {
			need(v.list && len(v.kids) == 2, "enum value")
			num, err := strconv.Atoi(v.kids[1].atom)
			need(err == nil, "enum num")
			e.vals = append(e.vals, gEV{v.kids[0].atom, num})
		}
		p.enums = append(p.enums, e)
	}
	for _, k := range n.kids[2].kids {
		need(k.list && len(k.kids) == 3 && len(k.kids[0].atom) == 1, "struct")
		p.structs = append(p.structs, &gStruct{k.kids[0].atom[0], k.kids[1].atom, fieldsOfSx(k.kids[2])})
	}
	for _, k := range n.kids[3].kids {
		need(k.list && len(k.kids) == 3 && k.kids[2].list, "service")
		s := &gService{name: k.kids[0].atom}
		if !k.kids[1].list {
			s.ext = k.kids[1].atom
		}
		for _, m := range k.kids[2].kids {
			need(m.list && len(m.kids) == 5, "method")
			gm := &gMethod{name: m.kids[0].atom, oneway: m.kids[1].atom == "1"}
			if !(m.kids[2].list && len(m.kids[2].kids) == 0) {
				gm.ret = tyOfSx(m.kids[2])
			}
			gm.args, gm.excs = fieldsOfSx(m.kids[3]), fieldsOfSx(m.kids[4])
			s.methods = append(s.methods, gm)
		}
		p.services = append(p.services, s)
	}
	for _, k := range n.kids[4].kids {
		need(k.list && len(k.kids) == 3 && k.kids[1].list && k.kids[2].list, "scope")
		s := &gScope{name: k.kids[0].atom}
		for _, t := range k.kids[1].kids {
			need(t.list && len(t.kids) == 2, "ptok")
			s.prefix = append(s.prefix, gPTok{t.kids[0].atom == "v", t.kids[1].atom})
		}
		for _, o := range k.kids[2].kids {
			need(o.list && len(o.kids) == 2, "op")
			s.ops = append(s.ops, &gOp{o.kids[0].atom, tyOfSx(o.kids[1])})
		}
		p.scopes = append(p.scopes, s)
	}
	for _, k := range n.kids[5].kids {
		need(k.list && len(k.kids) == 2, "ns")
		p.nss = append(p.nss, &gNS{k.kids[0].atom, k.kids[1].atom})
	}
	for _, k := range n.kids[6].kids {
		need(k.list && len(k.kids) == 3, "const")
		p.consts = append(p.consts, &gConst{k.kids[0].atom, tyOfSx(k.kids[1]), k.kids[2].atom})
	}
	return p, nil
}

// ---------- from the real parser's AST ----------

func tyOfReal(t *parser.Type) *gTy {
	if t == nil {
		return nil
	}
	switch t.Name {
	case "list":
		if t.ValueType != nil {
			return &gTy{kind: tyList, name: "list", v: tyOfReal(t.ValueType)}
		}
	case "set":
		if t.ValueType != nil {
			return &gTy{kind: tySet, name: "set", v: tyOfReal(t.ValueType)}
		}
	case "map":
		if t.ValueType != nil && t.KeyType != nil {
			return &gTy{kind: tyMap, name: "map", k: tyOfReal(t.KeyType), v: tyOfReal(t.ValueType)}
		}
	}
	if isBaseName(t.Name) {
		return &gTy{kind: tyBase, name: t.Name}
	}
	return &gTy{kind: tyNamed, name: t.Name}
}

// valueTok: canonical token of a parsed constant/default value (IDL literal for ints,
// otherwise a hex rendering of its Go syntax; two values are DeepEqual iff the tokens are equal
// for the literal kinds the generator uses: integers and strings).
func valueTok(v interface{}) string {
	switch x := v.(type) {
	case nil:
		return "-"
	case int64:
		return strconv.FormatInt(x, 10)
	case string:
		return "\"" + hex.EncodeToString([]byte(x)) + "\""
	}
	return "x" + hex.EncodeToString([]byte(fmt.Sprintf("%#v", v)))
}

// idlValue renders a value token back to an IDL literal (integers and hex-quoted strings).
func idlValue(tok string) string {
	if len(tok) >= 2 && tok[0] == '"' && tok[len(tok)-1] == '"' {
		b, err := hex.DecodeString(tok[1 : len(tok)-1])
		if err == nil {
			return strconv.Quote(string(b))
		}
	}
	return tok
}

func strTok(s string) string { return "\"" + hex.EncodeToString([]byte(s)) + "\"" }

func fieldsOfReal(fs []*parser.Field) []*gField {
	var out []*gField
	for _, f := range fs {
		mod := byte('d')
		switch f.Modifier {
		case parser.Required:
			mod = 'r'
		case parser.Optional:
			mod = 'o'
		}
		out = append(out, &gField{f.ID, mod, f.Name, tyOfReal(f.Type), valueTok(f.Default)})
	}
	return out
}

func prefixOfReal(s string) []gPTok {
	if s == "" {
		return nil
	}
	var out []gPTok
	for _, piece := range strings.Split(s, ".") {
		if strings.HasPrefix(piece, "{") && strings.HasSuffix(piece, "}") && len(piece) >= 2 {
			out = append(out, gPTok{true, piece[1 : len(piece)-1]})
		} else {
			out = append(out, gPTok{false, piece})
		}
	}
	return out
}

func progOfReal(f *parser.Frugal) *gProg {
	p := &gProg{}
	for _, t := range f.Typedefs {
		p.typedefs = append(p.typedefs, &gTypedef{t.Name, tyOfReal(t.Type)})
	}
	for _, e := range f.Enums {
		g := &gEnum{name: e.Name}
		for _, v := range e.Values {
			g.vals = append(g.vals, gEV{v.Name, v.Value})
		}
		p.enums = append(p.enums, g)
	}
	add := func(kind byte, ss []*parser.Struct) {
		for _, s := range ss {
			p.structs = append(p.structs, &gStruct{kind, s.Name, fieldsOfReal(s.Fields)})
		}
	}
	add('s', f.Structs)
	add('x', f.Exceptions)
	add('u', f.Unions)
	for _, s := range f.Services {
		g := &gService{name: s.Name, ext: s.Extends}
		for _, m := range s.Methods {
			g.methods = append(g.methods, &gMethod{m.Name, m.Oneway, tyOfReal(m.ReturnType), fieldsOfReal(m.Arguments), fieldsOfReal(m.Exceptions)})
		}
		p.services = append(p.services, g)
	}
	for _, s := range f.Scopes {
		g := &gScope{name: s.Name, prefix: prefixOfReal(s.Prefix.String)}
		for _, o := range s.Operations {
			g.ops = append(g.ops, &gOp{o.Name, tyOfReal(o.Type)})
		}
		p.scopes = append(p.scopes, g)
	}
	for _, n := range f.Namespaces {
		p.nss = append(p.nss, &gNS{n.Scope, n.Value})
	}
	for _, c := range f.Constants {
		p.consts = append(p.consts, &gConst{c.Name, tyOfReal(c.Type), valueTok(c.Value)})
	}
	return p
}

// ---------- generator-side type resolution (what the harness knows about its own edits) ----------

func (p *gProg) typedef(name string) *gTypedef {
	for _, t := range p.typedefs {
		if t.name == name {
			return t
		}
	}
	return nil
}

// canon: the type with every typedef expanded (generated typedefs are acyclic by construction).
func (p *gProg) canon(t *gTy) string { return p.canonD(t, 0) }
func (p *gProg) canonD(t *gTy, d int) string {
	if d > 64 {
		return "<cycle>"
	}
	switch t.kind {
	case tyList:
		return "list<" + p.canonD(t.v, d+1) + ">"
	case tySet:
		return "set<" + p.canonD(t.v, d+1) + ">"
	case tyMap:
		return "map<" + p.canonD(t.k, d+1) + "," + p.canonD(t.v, d+1) + ">"
	case tyNamed:
		if td := p.typedef(t.name); td != nil {
			return p.canonD(td.ty, d+1)
		}
	}
	return t.name
}

// reaches: does t mention typedef `name`, directly or through other typedefs?
func (p *gProg) reaches(t *gTy, name string, d int) bool {
	if t == nil || d > 64 {
		return false
	}
	switch t.kind {
	case tyList, tySet:
		return p.reaches(t.v, name, d+1)
	case tyMap:
		return p.reaches(t.k, name, d+1) || p.reaches(t.v, name, d+1)
	case tyNamed:
		if t.name == name {
			return true
		}
		if td := p.typedef(t.name); td != nil {
			return p.reaches(td.ty, name, d+1)
		}
	}
	return false
}

func (t *gTy) mentions(name string) bool {
	if t == nil {
		return false
	}
	switch t.kind {
	case tyList, tySet:
		return t.v.mentions(name)
	case tyMap:
		return t.k.mentions(name) || t.v.mentions(name)
	case tyNamed:
		return t.name == name
	}
	return false
}

func (t *gTy) rename(from, to string) {
	if t == nil {
		return
	}
	switch t.kind {
	case tyList, tySet:
		t.v.rename(from, to)
	case tyMap:
		t.k.rename(from, to)
		t.v.rename(from, to)
	case tyNamed:
		if t.name == from {
			t.name = to
		}
	}
}

func (t *gTy) depth() int {
	if t == nil {
		return 0
	}
	switch t.kind {
	case tyList, tySet:
		return 1 + t.v.depth()
	case tyMap:
		a, b := t.k.depth(), t.v.depth()
		if b > a {
			a = b
		}
		return 1 + a
	}
	return 0
}

// slot: a place in a program that holds a type the auditor checks (or a typedef body).
type slot struct {
	decl string // declaration key: "struct:S", "svc:V", "scope:P", "typedef:T", "const:C"
	what string // field | arg | exc | ret | op | typedef | const
	ty   **gTy
}

func (p *gProg) slots(withTypedefs bool) []slot {
	var out []slot
	for _, s := range p.structs {
		for _, f := range s.fields {
			out = append(out, slot{"struct:" + s.name, "field", &f.ty})
		}
	}
	for _, s := range p.services {
		for _, m := range s.methods {
			k := "method:" + s.name + "." + m.name
			if m.ret != nil {
				out = append(out, slot{k, "ret", &m.ret})
			}
			for _, f := range m.args {
				out = append(out, slot{k, "arg", &f.ty})
			}
			for _, f := range m.excs {
				out = append(out, slot{k, "exc", &f.ty})
			}
		}
	}
	for _, s := range p.scopes {
		for _, o := range s.ops {
			out = append(out, slot{"scope:" + s.name, "op", &o.ty})
		}
	}
	if withTypedefs {
		for _, t := range p.typedefs {
			out = append(out, slot{"typedef:" + t.name, "typedef", &t.ty})
		}
		for _, c := range p.consts {
			out = append(out, slot{"const:" + c.name, "const", &c.ty})
		}
	}
	return out
}

func sortedKinds(ks []string) string {
	if len(ks) == 0 {
		return "-"
	}
	c := append([]string{}, ks...)
	sort.Strings(c)
	return strings.Join(c, ",")
}
