package main

// C18: a small IDL AST for the audit harness — generation, rendering to IDL text,
// the compact token format shared with the Lean driver (lean/Driver/Audit.lean),
// and conversion from the real parser's AST.
//
// Token format (one token, no spaces): s-expressions with `(`, `)`, `,`.
//   prog    = (TYPEDEFS,ENUMS,STRUCTS,SERVICES,SCOPES,NAMESPACES,CONSTS[,INCLUDES])   each a list (x,y,…) or ()
//   include = (name,(typedef,…),(declared struct/enum name,…))      a type atom `inc.Name` is include-qualified
//   typedef = (name,ty)
//   ty      = atom (base type iff the atom is one of the 8 base type names, else a named type)
//           | (l,ty) | (s,ty) | (m,ty,ty)
//   enum    = (name,((vname,num),…))
//   struct  = (kind,name,(field,…))            kind: s | u | x
//   field   = (id,mod,name,ty,default)         mod: r | o | d ; default: - or a literal token
//   service = (name,ext,(method,…))            ext: () or atom
//   method  = (name,ow,ret,(arg,…),(exc,…))    ow: 0 | 1 ; ret: () for void or ty
//   scope   = (name,(ptok,…),(op,…))           ptok: (v,name) | (t,text) ; op: (name,ty)
//   ns      = (scope,value)      const = (name,ty,value)

import (
	"encoding/hex"
	"fmt"
	"sort"
	"strconv"
	"strings"

	"github.com/Workiva/frugal/compiler/parser"
)

const (
	a18TyBase = iota
	a18TyNamed
	a18TyList
	a18TySet
	a18TyMap
)

type a18GTy struct {
	kind int
	name string
	k, v *a18GTy
}

type a18GField struct {
	id   int
	mod  byte // 'r','o','d'
	name string
	ty   *a18GTy
	dflt string // "-" = none
}

type a18GStruct struct {
	kind   byte // 's','u','x'
	name   string
	fields []*a18GField
}

type a18GEV struct {
	name string
	num  int
}

type a18GEnum struct {
	name string
	vals []a18GEV
}

type a18GTypedef struct {
	name string
	ty   *a18GTy
}

type a18GMethod struct {
	name   string
	oneway bool
	ret    *a18GTy // nil = void
	args   []*a18GField
	excs   []*a18GField
}

type a18GService struct {
	name, ext string
	methods   []*a18GMethod
}

type a18GPTok struct {
	isVar bool
	s     string
}

type a18GOp struct {
	name string
	ty   *a18GTy
}

type a18GScope struct {
	name   string
	prefix []a18GPTok
	ops    []*a18GOp
}

type a18GNS struct{ scope, value string }

type a18GConst struct {
	name  string
	ty    *a18GTy
	value string
}

// a18GInc: an included file. `prog` is the whole included program when the generator made it;
// a program read back from a token has only the typedefs and empty struct declarations.
type a18GInc struct {
	name string
	prog *a18GProg
}

type a18GProg struct {
	includes []*a18GInc
	typedefs []*a18GTypedef
	enums    []*a18GEnum
	structs  []*a18GStruct
	services []*a18GService
	scopes   []*a18GScope
	nss      []*a18GNS
	consts   []*a18GConst
}

var a18BaseNames = []string{"bool", "byte", "i16", "i32", "i64", "double", "string", "binary"}

func a18IsBaseName(s string) bool {
	for _, b := range a18BaseNames {
		if b == s {
			return true
		}
	}
	return false
}

// ---------- copies ----------

func (t *a18GTy) clone() *a18GTy {
	if t == nil {
		return nil
	}
	return &a18GTy{t.kind, t.name, t.k.clone(), t.v.clone()}
}
func a18CloneFields(fs []*a18GField) []*a18GField {
	out := make([]*a18GField, len(fs))
	for i, f := range fs {
		c := *f
		c.ty = f.ty.clone()
		out[i] = &c
	}
	return out
}
func (p *a18GProg) clone() *a18GProg {
	q := &a18GProg{}
	for _, in := range p.includes {
		q.includes = append(q.includes, &a18GInc{in.name, in.prog.clone()})
	}
	for _, t := range p.typedefs {
		q.typedefs = append(q.typedefs, &a18GTypedef{t.name, t.ty.clone()})
	}
	for _, e := range p.enums {
		q.enums = append(q.enums, &a18GEnum{e.name, append([]a18GEV{}, e.vals...)})
	}
	for _, s := range p.structs {
		q.structs = append(q.structs, &a18GStruct{s.kind, s.name, a18CloneFields(s.fields)})
	}
	for _, s := range p.services {
		n := &a18GService{name: s.name, ext: s.ext}
		for _, m := range s.methods {
			n.methods = append(n.methods, &a18GMethod{m.name, m.oneway, m.ret.clone(), a18CloneFields(m.args), a18CloneFields(m.excs)})
		}
		q.services = append(q.services, n)
	}
	for _, s := range p.scopes {
		n := &a18GScope{name: s.name, prefix: append([]a18GPTok{}, s.prefix...)}
		for _, o := range s.ops {
			n.ops = append(n.ops, &a18GOp{o.name, o.ty.clone()})
		}
		q.scopes = append(q.scopes, n)
	}
	for _, n := range p.nss {
		c := *n
		q.nss = append(q.nss, &c)
	}
	for _, c := range p.consts {
		q.consts = append(q.consts, &a18GConst{c.name, c.ty.clone(), c.value})
	}
	return q
}

// ---------- IDL text ----------

func (t *a18GTy) idl() string {
	switch t.kind {
	case a18TyList:
		return "list<" + t.v.idl() + ">"
	case a18TySet:
		return "set<" + t.v.idl() + ">"
	case a18TyMap:
		return "map<" + t.k.idl() + ", " + t.v.idl() + ">"
	}
	return t.name
}

func a18IdlFields(fs []*a18GField, sep string) string {
	var b strings.Builder
	for _, f := range fs {
		b.WriteString(sep)
		b.WriteString(strconv.Itoa(f.id))
		b.WriteString(": ")
		switch f.mod {
		case 'r':
			b.WriteString("required ")
		case 'o':
			b.WriteString("optional ")
		}
		b.WriteString(f.ty.idl() + " " + f.name)
		if f.dflt != "-" && f.dflt != "" {
			b.WriteString(" = " + a18IdlValue(f.dflt))
		}
		b.WriteString(",")
	}
	return b.String()
}

func (p *a18GProg) idl() string {
	var b strings.Builder
	for _, in := range p.includes {
		fmt.Fprintf(&b, "include \"%s.frugal\"\n", in.name)
	}
	for _, n := range p.nss {
		fmt.Fprintf(&b, "namespace %s %s\n", n.scope, n.value)
	}
	for _, t := range p.typedefs {
		fmt.Fprintf(&b, "typedef %s %s\n", t.ty.idl(), t.name)
	}
	for _, c := range p.consts {
		fmt.Fprintf(&b, "const %s %s = %s\n", c.ty.idl(), c.name, a18IdlValue(c.value))
	}
	for _, e := range p.enums {
		fmt.Fprintf(&b, "enum %s {\n", e.name)
		for _, v := range e.vals {
			fmt.Fprintf(&b, "  %s = %d,\n", v.name, v.num)
		}
		b.WriteString("}\n")
	}
	for _, s := range p.structs {
		kw := map[byte]string{'s': "struct", 'u': "union", 'x': "exception"}[s.kind]
		fmt.Fprintf(&b, "%s %s {%s\n}\n", kw, s.name, a18IdlFields(s.fields, "\n  "))
	}
	for _, s := range p.services {
		ext := ""
		if s.ext != "" {
			ext = " extends " + s.ext
		}
		fmt.Fprintf(&b, "service %s%s {\n", s.name, ext)
		for _, m := range s.methods {
			b.WriteString("  ")
			if m.oneway {
				b.WriteString("oneway ")
			}
			if m.ret == nil {
				b.WriteString("void")
			} else {
				b.WriteString(m.ret.idl())
			}
			fmt.Fprintf(&b, " %s(%s)", m.name, a18IdlFields(m.args, " "))
			if len(m.excs) > 0 {
				fmt.Fprintf(&b, " throws (%s)", a18IdlFields(m.excs, " "))
			}
			b.WriteString(",\n")
		}
		b.WriteString("}\n")
	}
	for _, s := range p.scopes {
		fmt.Fprintf(&b, "scope %s", s.name)
		if len(s.prefix) > 0 {
			parts := make([]string, len(s.prefix))
			for i, t := range s.prefix {
				if t.isVar {
					parts[i] = "{" + t.s + "}"
				} else {
					parts[i] = t.s
				}
			}
			b.WriteString(" prefix " + strings.Join(parts, "."))
		}
		b.WriteString(" {\n")
		for _, o := range s.ops {
			fmt.Fprintf(&b, "  %s: %s\n", o.name, o.ty.idl())
		}
		b.WriteString("}\n")
	}
	return b.String()
}

// ---------- token format ----------

func (t *a18GTy) tok() string {
	switch t.kind {
	case a18TyList:
		return "(l," + t.v.tok() + ")"
	case a18TySet:
		return "(s," + t.v.tok() + ")"
	case a18TyMap:
		return "(m," + t.k.tok() + "," + t.v.tok() + ")"
	}
	return t.name
}

func a18Lst(items []string) string { return "(" + strings.Join(items, ",") + ")" }

func a18TokFields(fs []*a18GField) string {
	items := make([]string, len(fs))
	for i, f := range fs {
		d := f.dflt
		if d == "" {
			d = "-"
		}
		items[i] = a18Lst([]string{strconv.Itoa(f.id), string(f.mod), f.name, f.ty.tok(), d})
	}
	return a18Lst(items)
}

func (p *a18GProg) tok() string {
	var tds, ens, sts, svs, scs, nss, cs []string
	for _, t := range p.typedefs {
		tds = append(tds, a18Lst([]string{t.name, t.ty.tok()}))
	}
	for _, e := range p.enums {
		var vs []string
		for _, v := range e.vals {
			vs = append(vs, a18Lst([]string{v.name, strconv.Itoa(v.num)}))
		}
		ens = append(ens, a18Lst([]string{e.name, a18Lst(vs)}))
	}
	for _, s := range p.structs {
		sts = append(sts, a18Lst([]string{string(s.kind), s.name, a18TokFields(s.fields)}))
	}
	for _, s := range p.services {
		var ms []string
		for _, m := range s.methods {
			ow, ret := "0", "()"
			if m.oneway {
				ow = "1"
			}
			if m.ret != nil {
				ret = m.ret.tok()
			}
			ms = append(ms, a18Lst([]string{m.name, ow, ret, a18TokFields(m.args), a18TokFields(m.excs)}))
		}
		ext := "()"
		if s.ext != "" {
			ext = s.ext
		}
		svs = append(svs, a18Lst([]string{s.name, ext, a18Lst(ms)}))
	}
	for _, s := range p.scopes {
		var pt, ops []string
		for _, t := range s.prefix {
			k := "t"
			if t.isVar {
				k = "v"
			}
			pt = append(pt, a18Lst([]string{k, t.s}))
		}
		for _, o := range s.ops {
			ops = append(ops, a18Lst([]string{o.name, o.ty.tok()}))
		}
		scs = append(scs, a18Lst([]string{s.name, a18Lst(pt), a18Lst(ops)}))
	}
	for _, n := range p.nss {
		nss = append(nss, a18Lst([]string{n.scope, n.value}))
	}
	for _, c := range p.consts {
		cs = append(cs, a18Lst([]string{c.name, c.ty.tok(), c.value}))
	}
	secs := []string{a18Lst(tds), a18Lst(ens), a18Lst(sts), a18Lst(svs), a18Lst(scs), a18Lst(nss), a18Lst(cs)}
	if len(p.includes) > 0 {
		var incs []string
		for _, in := range p.includes {
			var itds, names []string
			for _, t := range in.prog.typedefs {
				itds = append(itds, a18Lst([]string{t.name, t.ty.tok()}))
			}
			for _, st := range in.prog.structs {
				names = append(names, st.name)
			}
			for _, en := range in.prog.enums {
				names = append(names, en.name)
			}
			incs = append(incs, a18Lst([]string{in.name, a18Lst(itds), a18Lst(names)}))
		}
		secs = append(secs, a18Lst(incs))
	}
	return a18Lst(secs)
}

// generic s-expression
type a18Sx struct {
	atom string
	kids []*a18Sx
	list bool
}

func a18ParseSx(s string) (*a18Sx, error) {
	pos := 0
	var rec func() (*a18Sx, error)
	rec = func() (*a18Sx, error) {
		if pos >= len(s) {
			return nil, fmt.Errorf("eof")
		}
		if s[pos] == '(' {
			pos++
			n := &a18Sx{list: true}
			if pos < len(s) && s[pos] == ')' {
				pos++
				return n, nil
			}
			for {
				k, err := rec()
				if err != nil {
					return nil, err
				}
				n.kids = append(n.kids, k)
				if pos >= len(s) {
					return nil, fmt.Errorf("eof in list")
				}
				if s[pos] == ',' {
					pos++
					continue
				}
				if s[pos] == ')' {
					pos++
					return n, nil
				}
				return nil, fmt.Errorf("bad char at %d", pos)
			}
		}
		st := pos
		for pos < len(s) && s[pos] != '(' && s[pos] != ')' && s[pos] != ',' {
			pos++
		}
		return &a18Sx{atom: s[st:pos]}, nil
	}
	n, err := rec()
	if err != nil {
		return nil, err
	}
	if pos != len(s) {
		return nil, fmt.Errorf("trailing input")
	}
	return n, nil
}

type a18SxErr string

func a18Need(c bool, what string) {
	if !c {
		panic(a18SxErr(what))
	}
}

func a18TyOfSx(n *a18Sx) *a18GTy {
	if !n.list {
		if a18IsBaseName(n.atom) {
			return &a18GTy{kind: a18TyBase, name: n.atom}
		}
		return &a18GTy{kind: a18TyNamed, name: n.atom}
	}
	a18Need(len(n.kids) >= 2 && !n.kids[0].list, "ty")
	switch n.kids[0].atom {
	case "l":
		a18Need(len(n.kids) == 2, "list")
		return &a18GTy{kind: a18TyList, name: "list", v: a18TyOfSx(n.kids[1])}
	case "s":
		a18Need(len(n.kids) == 2, "set")
		return &a18GTy{kind: a18TySet, name: "set", v: a18TyOfSx(n.kids[1])}
	case "m":
		a18Need(len(n.kids) == 3, "map")
		return &a18GTy{kind: a18TyMap, name: "map", k: a18TyOfSx(n.kids[1]), v: a18TyOfSx(n.kids[2])}
	}
	panic(a18SxErr("ty head"))
}

func a18FieldsOfSx(n *a18Sx) []*a18GField {
	a18Need(n.list, "fields")
	var out []*a18GField
	for _, k := range n.kids {
		a18Need(k.list && len(k.kids) == 5, "field")
		id, err := strconv.Atoi(k.kids[0].atom)
		a18Need(err == nil && len(k.kids[1].atom) == 1, "field id/mod")
		out = append(out, &a18GField{id, k.kids[1].atom[0], k.kids[2].atom, a18TyOfSx(k.kids[3]), k.kids[4].atom})
	}
	return out
}

func a18ProgOfTok(s string) (p *a18GProg, err error) {
	defer func() {
		if r := recover(); r != nil {
			if e, ok := r.(a18SxErr); ok {
				p, err = nil, fmt.Errorf("bad token: %s", string(e))
				return
			}
			panic(r)
		}
	}()
	n, err := a18ParseSx(s)
	if err != nil {
		return nil, err
	}
	a18Need(n.list && (len(n.kids) == 7 || len(n.kids) == 8), "prog")
	for _, k := range n.kids {
		a18Need(k.list, "section")
	}
	p = &a18GProg{}
	if len(n.kids) == 8 {
		for _, k := range n.kids[7].kids {
			a18Need(k.list && len(k.kids) == 3 && k.kids[1].list && k.kids[2].list, "include")
			ip := &a18GProg{}
			for _, t := range k.kids[1].kids {
				a18Need(t.list && len(t.kids) == 2, "include typedef")
				ip.typedefs = append(ip.typedefs, &a18GTypedef{t.kids[0].atom, a18TyOfSx(t.kids[1])})
			}
			for _, d := range k.kids[2].kids {
				ip.structs = append(ip.structs, &a18GStruct{kind: 's', name: d.atom})
			}
			p.includes = append(p.includes, &a18GInc{k.kids[0].atom, ip})
		}
	}
	for _, k := range n.kids[0].kids {
		a18Need(k.list && len(k.kids) == 2, "typedef")
		p.typedefs = append(p.typedefs, &a18GTypedef{k.kids[0].atom, a18TyOfSx(k.kids[1])})
	}
	for _, k := range n.kids[1].kids {
		a18Need(k.list && len(k.kids) == 2 && k.kids[1].list, "enum")
		e := &a18GEnum{name: k.kids[0].atom}
		for _, v := range k.kids[1].kids {
			a18Need(v.list && len(v.kids) == 2, "enum value")
			num, err := strconv.Atoi(v.kids[1].atom)
			a18Need(err == nil, "enum num")
			e.vals = append(e.vals, a18GEV{v.kids[0].atom, num})
		}
		p.enums = append(p.enums, e)
	}
	for _, k := range n.kids[2].kids {
		a18Need(k.list && len(k.kids) == 3 && len(k.kids[0].atom) == 1, "struct")
		p.structs = append(p.structs, &a18GStruct{k.kids[0].atom[0], k.kids[1].atom, a18FieldsOfSx(k.kids[2])})
	}
	for _, k := range n.kids[3].kids {
		a18Need(k.list && len(k.kids) == 3 && k.kids[2].list, "service")
		s := &a18GService{name: k.kids[0].atom}
		if !k.kids[1].list {
			s.ext = k.kids[1].atom
		}
		for _, m := range k.kids[2].kids {
			a18Need(m.list && len(m.kids) == 5, "method")
			gm := &a18GMethod{name: m.kids[0].atom, oneway: m.kids[1].atom == "1"}
			if !(m.kids[2].list && len(m.kids[2].kids) == 0) {
				gm.ret = a18TyOfSx(m.kids[2])
			}
			gm.args, gm.excs = a18FieldsOfSx(m.kids[3]), a18FieldsOfSx(m.kids[4])
			s.methods = append(s.methods, gm)
		}
		p.services = append(p.services, s)
	}
	for _, k := range n.kids[4].kids {
		a18Need(k.list && len(k.kids) == 3 && k.kids[1].list && k.kids[2].list, "scope")
		s := &a18GScope{name: k.kids[0].atom}
		for _, t := range k.kids[1].kids {
			a18Need(t.list && len(t.kids) == 2, "ptok")
			s.prefix = append(s.prefix, a18GPTok{t.kids[0].atom == "v", t.kids[1].atom})
		}
		for _, o := range k.kids[2].kids {
			a18Need(o.list && len(o.kids) == 2, "op")
			s.ops = append(s.ops, &a18GOp{o.kids[0].atom, a18TyOfSx(o.kids[1])})
		}
		p.scopes = append(p.scopes, s)
	}
	for _, k := range n.kids[5].kids {
		a18Need(k.list && len(k.kids) == 2, "ns")
		p.nss = append(p.nss, &a18GNS{k.kids[0].atom, k.kids[1].atom})
	}
	for _, k := range n.kids[6].kids {
		a18Need(k.list && len(k.kids) == 3, "const")
		p.consts = append(p.consts, &a18GConst{k.kids[0].atom, a18TyOfSx(k.kids[1]), k.kids[2].atom})
	}
	return p, nil
}

// ---------- from the real parser's AST ----------

func a18TyOfReal(t *parser.Type) *a18GTy {
	if t == nil {
		return nil
	}
	switch t.Name {
	case "list":
		if t.ValueType != nil {
			return &a18GTy{kind: a18TyList, name: "list", v: a18TyOfReal(t.ValueType)}
		}
	case "set":
		if t.ValueType != nil {
			return &a18GTy{kind: a18TySet, name: "set", v: a18TyOfReal(t.ValueType)}
		}
	case "map":
		if t.ValueType != nil && t.KeyType != nil {
			return &a18GTy{kind: a18TyMap, name: "map", k: a18TyOfReal(t.KeyType), v: a18TyOfReal(t.ValueType)}
		}
	}
	if a18IsBaseName(t.Name) {
		return &a18GTy{kind: a18TyBase, name: t.Name}
	}
	return &a18GTy{kind: a18TyNamed, name: t.Name}
}

// a18ValueTok: canonical token of a parsed constant/default value (IDL literal for ints,
// otherwise a hex rendering of its Go syntax; two values are DeepEqual iff the tokens are equal
// for the literal kinds the generator uses: integers and strings).
func a18ValueTok(v interface{}) string {
	switch x := v.(type) {
	case nil:
		return "-"
	case int64:
		return strconv.FormatInt(x, 10)
	case string:
		return "\"" + hex.EncodeToString([]byte(x)) + "\""
	case []interface{}:
		if len(x) == 0 {
			return "[]"
		}
	case []parser.KeyValue:
		if len(x) == 0 {
			return "{}"
		}
	}
	return "x" + hex.EncodeToString([]byte(fmt.Sprintf("%#v", v)))
}

// a18IdlValue renders a value token back to an IDL literal (integers and hex-quoted strings).
func a18IdlValue(tok string) string {
	if len(tok) >= 2 && tok[0] == '"' && tok[len(tok)-1] == '"' {
		b, err := hex.DecodeString(tok[1 : len(tok)-1])
		if err == nil {
			return strconv.Quote(string(b))
		}
	}
	return tok
}

func a18StrTok(s string) string { return "\"" + hex.EncodeToString([]byte(s)) + "\"" }

func a18FieldsOfReal(fs []*parser.Field) []*a18GField {
	var out []*a18GField
	for _, f := range fs {
		mod := byte('d')
		switch f.Modifier {
		case parser.Required:
			mod = 'r'
		case parser.Optional:
			mod = 'o'
		}
		out = append(out, &a18GField{f.ID, mod, f.Name, a18TyOfReal(f.Type), a18ValueTok(f.Default)})
	}
	return out
}

func a18PrefixOfReal(s string) []a18GPTok {
	if s == "" {
		return nil
	}
	var out []a18GPTok
	for _, piece := range strings.Split(s, ".") {
		if strings.HasPrefix(piece, "{") && strings.HasSuffix(piece, "}") && len(piece) >= 2 {
			out = append(out, a18GPTok{true, piece[1 : len(piece)-1]})
		} else {
			out = append(out, a18GPTok{false, piece})
		}
	}
	return out
}

func a18ProgOfReal(f *parser.Frugal) *a18GProg {
	p := &a18GProg{}
	var incNames []string
	for name := range f.ParsedIncludes {
		incNames = append(incNames, name)
	}
	sort.Strings(incNames)
	for _, name := range incNames {
		inc := f.ParsedIncludes[name]
		ip := &a18GProg{}
		for _, t := range inc.Typedefs {
			ip.typedefs = append(ip.typedefs, &a18GTypedef{t.Name, a18TyOfReal(t.Type)})
		}
		for _, ss := range [][]*parser.Struct{inc.Structs, inc.Exceptions, inc.Unions} {
			for _, st := range ss {
				ip.structs = append(ip.structs, &a18GStruct{kind: 's', name: st.Name})
			}
		}
		for _, en := range inc.Enums {
			ip.structs = append(ip.structs, &a18GStruct{kind: 's', name: en.Name})
		}
		p.includes = append(p.includes, &a18GInc{name, ip})
	}
	for _, t := range f.Typedefs {
		p.typedefs = append(p.typedefs, &a18GTypedef{t.Name, a18TyOfReal(t.Type)})
	}
	for _, e := range f.Enums {
		g := &a18GEnum{name: e.Name}
		for _, v := range e.Values {
			g.vals = append(g.vals, a18GEV{v.Name, v.Value})
		}
		p.enums = append(p.enums, g)
	}
	add := func(kind byte, ss []*parser.Struct) {
		for _, s := range ss {
			p.structs = append(p.structs, &a18GStruct{kind, s.Name, a18FieldsOfReal(s.Fields)})
		}
	}
	add('s', f.Structs)
	add('x', f.Exceptions)
	add('u', f.Unions)
	for _, s := range f.Services {
		g := &a18GService{name: s.Name, ext: s.Extends}
		for _, m := range s.Methods {
			g.methods = append(g.methods, &a18GMethod{m.Name, m.Oneway, a18TyOfReal(m.ReturnType), a18FieldsOfReal(m.Arguments), a18FieldsOfReal(m.Exceptions)})
		}
		p.services = append(p.services, g)
	}
	for _, s := range f.Scopes {
		g := &a18GScope{name: s.Name, prefix: a18PrefixOfReal(s.Prefix.String)}
		for _, o := range s.Operations {
			g.ops = append(g.ops, &a18GOp{o.Name, a18TyOfReal(o.Type)})
		}
		p.scopes = append(p.scopes, g)
	}
	for _, n := range f.Namespaces {
		p.nss = append(p.nss, &a18GNS{n.Scope, n.Value})
	}
	for _, c := range f.Constants {
		p.consts = append(p.consts, &a18GConst{c.Name, a18TyOfReal(c.Type), a18ValueTok(c.Value)})
	}
	return p
}

// ---------- generator-side type resolution (what the harness knows about its own a18Edits) ----------

func (p *a18GProg) typedef(name string) *a18GTypedef {
	for _, t := range p.typedefs {
		if t.name == name {
			return t
		}
	}
	return nil
}

func a18SplitQual(name string) (inc, base string) {
	if i := strings.IndexByte(name, '.'); i >= 0 {
		return name[:i], name[i+1:]
	}
	return "", name
}

func (p *a18GProg) include(name string) *a18GInc {
	for _, in := range p.includes {
		if in.name == name {
			return in
		}
	}
	return nil
}

// canon: the type with every typedef expanded, each name read in the file it is written in: a plain
// name of the main file is a declaration of the main file, `inc.n` a declaration of the include `inc`,
// a plain name inside `inc` a declaration of `inc` (generated typedefs are acyclic by construction).
func (p *a18GProg) canon(t *a18GTy) string { return p.canonD("", t, 0) }
func (p *a18GProg) canonD(ns string, t *a18GTy, d int) string {
	if d > 64 {
		return "<cycle>"
	}
	switch t.kind {
	case a18TyList:
		return "list<" + p.canonD(ns, t.v, d+1) + ">"
	case a18TySet:
		return "set<" + p.canonD(ns, t.v, d+1) + ">"
	case a18TyMap:
		return "map<" + p.canonD(ns, t.k, d+1) + "," + p.canonD(ns, t.v, d+1) + ">"
	case a18TyNamed:
		inc, base := a18SplitQual(t.name)
		if inc == "" {
			inc = ns
		}
		if inc == "" {
			if td := p.typedef(base); td != nil {
				return p.canonD("", td.ty, d+1)
			}
			return base
		}
		if in := p.include(inc); in != nil {
			if td := in.prog.typedef(base); td != nil {
				return p.canonD(inc, td.ty, d+1)
			}
		}
		return inc + "." + base
	}
	return t.name
}

// reaches: does t (written in the main file) mention the main file's typedef `name` (or, with a
// dot, the included typedef `inc.name`), directly or through other typedefs?
func (p *a18GProg) reaches(t *a18GTy, name string, d int) bool { return p.reachesNS("", t, name, d) }
func (p *a18GProg) reachesNS(ns string, t *a18GTy, name string, d int) bool {
	if t == nil || d > 64 {
		return false
	}
	switch t.kind {
	case a18TyList, a18TySet:
		return p.reachesNS(ns, t.v, name, d+1)
	case a18TyMap:
		return p.reachesNS(ns, t.k, name, d+1) || p.reachesNS(ns, t.v, name, d+1)
	case a18TyNamed:
		inc, base := a18SplitQual(t.name)
		if inc == "" {
			inc = ns
		}
		full := base
		if inc != "" {
			full = inc + "." + base
		}
		if full == name {
			return true
		}
		if inc == "" {
			if td := p.typedef(base); td != nil {
				return p.reachesNS("", td.ty, name, d+1)
			}
		} else if in := p.include(inc); in != nil {
			if td := in.prog.typedef(base); td != nil {
				return p.reachesNS(inc, td.ty, name, d+1)
			}
		}
	}
	return false
}

// nameFree: no named type anywhere (base types and containers of base types).
func (t *a18GTy) nameFree() bool {
	switch t.kind {
	case a18TyList, a18TySet:
		return t.v.nameFree()
	case a18TyMap:
		return t.k.nameFree() && t.v.nameFree()
	case a18TyNamed:
		return false
	}
	return true
}

func (t *a18GTy) mentions(name string) bool {
	if t == nil {
		return false
	}
	switch t.kind {
	case a18TyList, a18TySet:
		return t.v.mentions(name)
	case a18TyMap:
		return t.k.mentions(name) || t.v.mentions(name)
	case a18TyNamed:
		return t.name == name
	}
	return false
}

func (t *a18GTy) rename(from, to string) {
	if t == nil {
		return
	}
	switch t.kind {
	case a18TyList, a18TySet:
		t.v.rename(from, to)
	case a18TyMap:
		t.k.rename(from, to)
		t.v.rename(from, to)
	case a18TyNamed:
		if t.name == from {
			t.name = to
		}
	}
}

func (t *a18GTy) depth() int {
	if t == nil {
		return 0
	}
	switch t.kind {
	case a18TyList, a18TySet:
		return 1 + t.v.depth()
	case a18TyMap:
		a, b := t.k.depth(), t.v.depth()
		if b > a {
			a = b
		}
		return 1 + a
	}
	return 0
}

// a18Slot: a place in a program that holds a type the auditor checks (or a typedef body).
type a18Slot struct {
	decl string // declaration key: "struct:S", "svc:V", "scope:P", "typedef:T", "const:C"
	what string // field | arg | exc | ret | op | typedef | const
	ty   **a18GTy
}

func (p *a18GProg) slots(withTypedefs bool) []a18Slot {
	var out []a18Slot
	for _, s := range p.structs {
		for _, f := range s.fields {
			out = append(out, a18Slot{"struct:" + s.name, "field", &f.ty})
		}
	}
	for _, s := range p.services {
		for _, m := range s.methods {
			k := "method:" + s.name + "." + m.name
			if m.ret != nil {
				out = append(out, a18Slot{k, "ret", &m.ret})
			}
			for _, f := range m.args {
				out = append(out, a18Slot{k, "arg", &f.ty})
			}
			for _, f := range m.excs {
				out = append(out, a18Slot{k, "exc", &f.ty})
			}
		}
	}
	for _, s := range p.scopes {
		for _, o := range s.ops {
			out = append(out, a18Slot{"scope:" + s.name, "op", &o.ty})
		}
	}
	if withTypedefs {
		for _, t := range p.typedefs {
			out = append(out, a18Slot{"typedef:" + t.name, "typedef", &t.ty})
		}
		for _, c := range p.consts {
			out = append(out, a18Slot{"const:" + c.name, "const", &c.ty})
		}
	}
	return out
}

func a18SortedKinds(ks []string) string {
	if len(ks) == 0 {
		return "-"
	}
	c := append([]string{}, ks...)
	sort.Strings(c)
	return strings.Join(c, ",")
}
