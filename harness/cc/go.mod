module verif/cc

go 1.20

require github.com/Workiva/frugal v0.0.0

replace github.com/Workiva/frugal => /repo
