module verif/cc

go 1.20

require github.com/Workiva/frugal v0.0.0

require (
	golang.org/x/mod v0.15.0 // indirect
	golang.org/x/tools v0.18.0 // indirect
	gopkg.in/yaml.v2 v2.4.0 // indirect
)

replace github.com/Workiva/frugal => /repo
