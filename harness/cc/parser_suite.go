package main

// C10 — suite "c10": parse(render(model)) = model on the REAL parser (the property oracle),
// the same texts / fragments through the Lean PEG interpreter (three-way tie), `-gen json`
// as an independent view, known-finding witnesses, and a small malformed stream.
//
// Driver lines:
//   c10prog <hex archive> <expected deep dump|->   real: parser.ParseFrugal on the files  -> ok <deep dump> | err
//   c10text <hex text>                             real: parser.ParseReader (no validation, no includes) -> ok <dump> | err
//   peg <Rule> <hex fragment>                      real: the fragment wrapped into a minimal file -> ok <dump of the fragment> | err
// archive = name \x00 text \x01 name \x00 text ... (first file = main).

import (
	"bytes"
	"encoding/json"
	"fmt"
	"os"
	"path/filepath"
	"regexp"
	"sort"
	"strconv"
	"strings"
	"time"
	"unicode/utf8"

	fjson "github.com/Workiva/frugal/compiler/generator/json"
	"github.com/Workiva/frugal/compiler/parser"
)

func init() {
	suites["c10"] = runC10
	lineOps["c10prog"] = pxOpProg
	lineOps["c10text"] = pxOpText
	lineOps["peg"] = pxOpPeg
}

// ---------------------------------------------------------------- archive

func pxArchive(files map[string]string, main string) string {
	names := make([]string, 0, len(files))
	for n := range files {
		if n != main {
			names = append(names, n)
		}
	}
	sort.Strings(names)
	var b bytes.Buffer
	for i, n := range append([]string{main}, names...) {
		if i > 0 {
			b.WriteByte(1)
		}
		b.WriteString(n)
		b.WriteByte(0)
		b.WriteString(files[n])
	}
	return hx(b.Bytes())
}

func pxUnarchive(h string) (map[string]string, string) {
	files := map[string]string{}
	main := ""
	for i, part := range bytes.Split(unhx(h), []byte{1}) {
		j := bytes.IndexByte(part, 0)
		if j < 0 {
			continue
		}
		files[string(part[:j])] = string(part[j+1:])
		if i == 0 {
			main = string(part[:j])
		}
	}
	return files, main
}

// ---------------------------------------------------------------- real parser under guard

func pxParseProgram(files map[string]string, main string) (f *parser.Frugal, err error, outcome string) {
	outcome = guard(20*time.Second, func() { f, err = parseText(files, main) })
	return
}

func pxParseReader(text string) (f *parser.Frugal, err error, outcome string) {
	outcome = guard(20*time.Second, func() {
		v, e := parser.ParseReader("t.frugal", strings.NewReader(text))
		err = e
		if e == nil {
			f, _ = v.(*parser.Frugal)
			if f == nil {
				err = fmt.Errorf("no value")
			}
		}
	})
	return
}

var pxSections = map[byte]string{'I': "includes", 'N': "namespaces", 'T': "typedefs", 'C': "constants", 'E': "enums", 'S': "structs", 'X': "exceptions", 'U': "unions", 'V': "services", 'P': "scopes", 'Q': "included files"}

// pxDiffSection names the first top-level section in which two dumps differ.
func pxDiffSection(a, b string) string {
	i := 0
	for i < len(a) && i < len(b) && a[i] == b[i] {
		i++
	}
	cur, pos := byte('I'), 0
	for _, c := range []byte("NTCESXUVPQ") {
		j := strings.Index(a[pos:], "]"+string(c)+"[")
		if j < 0 || pos+j >= i {
			break
		}
		cur, pos = c, pos+j+1
	}
	return pxSections[cur]
}

var pxPosRe = regexp.MustCompile(`^\S+:\d+:\d+ \(\d+\): `)

var pxIncRe = regexp.MustCompile(`^Include \S+: `)
var pxNotFoundRe = regexp.MustCompile(`^Include \S+ not found`)

func pxErrClass(err error) string {
	s := err.Error()
	if i := strings.IndexByte(s, '\n'); i >= 0 {
		s = s[:i]
	}
	s = pxPosRe.ReplaceAllString(s, "")
	for pxIncRe.MatchString(s) {
		s = pxIncRe.ReplaceAllString(s, "")
	}
	switch {
	case pxNotFoundRe.MatchString(s):
		return "Include <name> not found"
	case strings.Contains(s, "syntax error"):
		return "syntax error"
	case strings.Contains(s, "rule "):
		w := strings.Fields(s)
		if len(w) >= 2 {
			return "action error in rule " + strings.TrimSuffix(w[1], ":")
		}
	}
	w := strings.Fields(s)
	if len(w) > 2 {
		w = w[:2]
	}
	return strings.Join(w, " ")
}

// pxOpProg: real = ParseFrugal over the archive. Oracle (when an expected dump is given): equal.
func pxOpProg(args []string) (string, bool) {
	if len(args) < 1 {
		return "bad-args", true
	}
	files, main := pxUnarchive(args[0])
	f, err, oc := pxParseProgram(files, main)
	out := ""
	switch {
	case oc != "":
		out = oc
	case err != nil:
		out = "err"
	default:
		out = "ok " + pxRDumpDeep(f, main)
	}
	if len(args) >= 2 && args[1] != "-" {
		return out, out == "ok "+args[1]
	}
	return out, oc == ""
}

func pxOpText(args []string) (string, bool) {
	if len(args) < 1 {
		return "bad-args", true
	}
	f, err, oc := pxParseReader(string(unhx(args[0])))
	switch {
	case oc != "":
		return oc, false // a panic or a hang on any input is a violation (C11 supports this)
	case err != nil:
		return "err", true
	}
	return "ok " + pxRDump(f, false), true
}

// ---------------------------------------------------------------- fragments

// pxWrap puts a fragment of the given rule into a minimal file and says how to read the result back.
func pxWrap(rule, frag string) (text string, get func(f *parser.Frugal) string) {
	bad := func(*parser.Frugal) string { return "?" }
	switch rule {
	case "Identifier":
		return "typedef i32 " + frag + "\n", func(f *parser.Frugal) string {
			if len(f.Typedefs) != 1 {
				return "?"
			}
			return "id:" + f.Typedefs[0].Name
		}
	case "IntConstant":
		return "struct S_ {\n" + frag + ": i32 a\n}\n", func(f *parser.Frugal) string {
			if len(f.Structs) != 1 || len(f.Structs[0].Fields) != 1 {
				return "?"
			}
			return "i:" + strconv.Itoa(f.Structs[0].Fields[0].ID)
		}
	case "Literal":
		return "include " + frag + "\n", func(f *parser.Frugal) string {
			if len(f.Includes) != 1 {
				return "?"
			}
			return "s:" + pxHex(f.Includes[0].Value)
		}
	case "FieldType":
		return "typedef " + frag + " T_\n", func(f *parser.Frugal) string {
			if len(f.Typedefs) != 1 || f.Typedefs[0].Name != "T_" {
				return "?"
			}
			return pxRType(f.Typedefs[0].Type)
		}
	case "ConstValue":
		return "const i32 c_ = " + frag + "\n", func(f *parser.Frugal) string {
			if len(f.Constants) != 1 {
				return "?"
			}
			return pxRConst(f.Constants[0].Value)
		}
	case "Field":
		return "struct S_ {" + frag + "}\n", func(f *parser.Frugal) string {
			if len(f.Structs) != 1 || len(f.Structs[0].Fields) != 1 {
				return "?"
			}
			return pxRField(f.Structs[0].Fields[0])
		}
	case "Function":
		return "service S_ {" + frag + "}\n", func(f *parser.Frugal) string {
			if len(f.Services) != 1 || len(f.Services[0].Methods) != 1 {
				return "?"
			}
			d := pxRDump(f, false)
			i, j := strings.Index(d, "V[S_<{"), strings.LastIndex(d, "}]P[")
			if i < 0 || j < i {
				return "?"
			}
			return d[i+6 : j]
		}
	case "TypeAnnotations":
		return "typedef i32 " + frag + " T_\n", func(f *parser.Frugal) string {
			if len(f.Typedefs) != 1 {
				return "?"
			}
			return "a:" + pxRAnns(f.Typedefs[0].Type.Annotations)
		}
	case "Enum", "Struct", "Exception", "Union", "Const", "TypeDef", "Namespace", "Include", "Service", "Scope":
		sec := map[string]string{"Enum": "E", "Struct": "S", "Exception": "X", "Union": "U", "Const": "C", "TypeDef": "T", "Namespace": "N", "Include": "I", "Service": "V", "Scope": "P"}[rule]
		order := "INTCESXUVP"
		return frag, func(f *parser.Frugal) string {
			d := pxRDump(f, false)
			i := strings.Index(d, sec+"[")
			k := strings.IndexByte(order, sec[0])
			j := len(d) - 1
			if k+1 < len(order) {
				j = strings.Index(d, "]"+order[k+1:k+2]+"[")
			}
			if i < 0 || j < i {
				return "?"
			}
			return d[i+2 : j]
		}
	}
	return frag, bad
}

func pxOpPeg(args []string) (string, bool) {
	if len(args) < 2 {
		return "bad-args", true
	}
	text, get := pxWrap(args[0], string(unhx(args[1])))
	f, err, oc := pxParseReader(text)
	switch {
	case oc != "":
		return oc, false
	case err != nil:
		return "err", true
	}
	return "ok " + get(f), true
}

// ---------------------------------------------------------------- -gen json as an independent view

func pxJSONType(t *pxType) map[string]interface{} {
	m := map[string]interface{}{}
	switch t.Kind {
	case pxTList:
		m["v"] = pxJSONType(t.V)
	case pxTSet:
		m["k"] = pxJSONType(t.V)
	case pxTMap:
		m["k"] = pxJSONType(t.K)
		m["v"] = pxJSONType(t.V)
	case pxTBase:
		m["b"] = t.Name
	default:
		if t.Name == "i8" {
			m["b"] = t.Name
		} else {
			m["n"] = t.Name
		}
	}
	if len(t.Anns) > 0 {
		a := map[string]interface{}{}
		for _, x := range t.Anns {
			a[x.Name] = x.Value
		}
		m["a"] = a
	}
	return m
}

func pxJSONFields(fs []*pxField) map[string]interface{} {
	m := map[string]interface{}{}
	for _, f := range fs {
		m[strconv.Itoa(f.ID)] = map[string]interface{}{"n": f.Name, "t": pxJSONType(f.Type)}
	}
	return m
}

func pxPut(m map[string]interface{}, k string, v map[string]interface{}) {
	if len(v) > 0 {
		m[k] = v
	}
}

// pxJSONExpected builds the documented descriptor (documentation/json.md) from the MODEL.
// ok=false when the descriptor is ambiguous for this model (colliding ids), then it is skipped.
func pxJSONExpected(f *pxFile, out map[string]interface{}) bool {
	name := f.Name[strings.LastIndex(f.Name, "/")+1:]
	name = name[:strings.IndexByte(name, '.')]
	if _, dup := out[name]; dup {
		return true
	}
	file := map[string]interface{}{}
	out[name] = file
	types, svcs, scopes := map[string]interface{}{}, map[string]interface{}{}, map[string]interface{}{}
	for _, t := range f.Typedefs {
		types[t.Name] = pxJSONType(t.Type)
	}
	for _, e := range f.Enums {
		vals := map[string]interface{}{}
		nums := pxEnumNumbers(e.Values)
		for i, v := range e.Values {
			k := strconv.Itoa(nums[i])
			l, _ := vals[k].([]interface{})
			vals[k] = append(l, v.Name)
		}
		m := map[string]interface{}{}
		pxPut(m, "e", vals)
		types[e.Name] = m
	}
	for _, s := range f.Structs {
		k := "s"
		if s.Kind == "union" {
			k = "u"
		}
		m := map[string]interface{}{}
		pxPut(m, k, pxJSONFields(s.Fields))
		types[s.Name] = m
	}
	for _, s := range f.Services {
		ms := map[string]interface{}{}
		for _, mt := range s.Methods {
			m := map[string]interface{}{}
			pxPut(m, "p", pxJSONFields(mt.Args))
			res := pxJSONFields(mt.Throws)
			if mt.Ret != nil {
				if _, clash := res["0"]; clash {
					return false
				}
				res["0"] = map[string]interface{}{"t": pxJSONType(mt.Ret)}
			}
			pxPut(m, "r", res)
			ms[mt.Name] = m
		}
		svcs[s.Name] = map[string]interface{}{"m": ms}
	}
	for _, s := range f.Scopes {
		ops := map[string]interface{}{}
		for _, o := range s.Ops {
			ops[o.Name] = pxJSONType(o.Type)
		}
		p, _ := pxPrefixString(s)
		m := map[string]interface{}{"p": p}
		pxPut(m, "o", ops)
		scopes[s.Name] = m
	}
	pxPut(file, "s", svcs)
	pxPut(file, "c", scopes)
	pxPut(file, "t", types)
	for _, i := range f.Includes {
		if i.File != nil {
			if !pxJSONExpected(i.File, out) {
				return false
			}
		}
	}
	return true
}

// pxSameBase: two different files of the program share a base name (the JSON descriptor is keyed
// by base name, it cannot describe such a program: not compared).
func pxSameBase(m *pxFile) bool {
	rels := map[string]string{}
	dup := false
	var walk func(f *pxFile)
	walk = func(f *pxFile) {
		b := pxIncludeName(f.Name)
		if r, ok := rels[b]; ok {
			if r != f.Name {
				dup = true
			}
			return
		}
		rels[b] = f.Name
		for _, i := range f.Includes {
			if i.File != nil {
				walk(i.File)
			}
		}
	}
	walk(m)
	return dup
}

func pxCheckJSON(m *pxFile, real *parser.Frugal, line string) {
	if pxSameBase(m) {
		Stat("json-skipped-same-basename")
		return
	}
	want := map[string]interface{}{}
	if !pxJSONExpected(m, want) {
		Stat("json-skipped-ambiguous")
		return
	}
	dir, err := os.MkdirTemp("", "verif-c10j-")
	if err != nil {
		return
	}
	defer os.RemoveAll(dir)
	var gerr error
	oc := guard(20*time.Second, func() { gerr = fjson.NewGenerator(map[string]string{}).Generate(real, dir) })
	if oc != "" || gerr != nil {
		OracleFail("-gen json fails on a valid program", map[string]interface{}{"op": "c10prog", "line": line, "outcome": oc, "err": fmt.Sprint(gerr)})
		return
	}
	b, err := os.ReadFile(filepath.Join(dir, "frugal.json"))
	var got interface{}
	if err != nil || json.Unmarshal(b, &got) != nil {
		OracleFail("-gen json output is not JSON", map[string]interface{}{"op": "c10prog", "line": line})
		return
	}
	wb, _ := json.Marshal(want)
	gb, _ := json.Marshal(got)
	Stat("json-compared")
	if !bytes.Equal(wb, gb) {
		OracleFail("-gen json descriptor differs from the declared model", map[string]interface{}{"op": "c10prog", "line": line, "want": pxClip(string(wb)), "got": pxClip(string(gb))})
	}
}

// pxAround shows both dumps around their first difference.
func pxAround(a, b string) (string, string) {
	i := 0
	for i < len(a) && i < len(b) && a[i] == b[i] {
		i++
	}
	lo := i - 120
	if lo < 0 {
		lo = 0
	}
	cut := func(s string) string {
		hi := i + 120
		if hi > len(s) {
			hi = len(s)
		}
		if lo > len(s) {
			return ""
		}
		return s[lo:hi]
	}
	return cut(a), cut(b)
}

func pxClip(s string) string {
	if len(s) > 600 {
		return s[:600] + "…"
	}
	return s
}

// ---------------------------------------------------------------- known findings

type pxKnown struct {
	id, file, what string
	embedded       string
	fails          func(f *parser.Frugal, err error) bool
}

var pxKnowns = []pxKnown{
	{"keyword-prefix-identifier", "c10_keyword_prefix.frugal",
		"a declared type whose name starts with a base-type keyword (struct stringy) cannot be used as a field type: BaseTypeName/void/oneway/required/optional/true/false literals have no word boundary, `stringy` is read as `string` + `y` (syntax error or silent misparse)",
		"struct stringy {}\nstruct S {\n  1: stringy x\n}\n",
		func(f *parser.Frugal, err error) bool {
			return err != nil || len(f.Structs) != 2 || len(f.Structs[1].Fields) != 1 || f.Structs[1].Fields[0].Type.Name != "stringy" || f.Structs[1].Fields[0].Name != "x"
		}},
	{"same-line-statements", "c10_same_line.frugal",
		"two declarations on one line without ';' (struct A {} struct B {}) are a syntax error: EOS demands ';', a newline or end of file after every statement, Thrift needs no separator",
		"struct A {} struct B {}\n",
		func(f *parser.Frugal, err error) bool { return err != nil || len(f.Structs) != 2 }},
	{"literal-trailing-backslash", "c10_trailing_backslash.frugal",
		"a string literal whose value ends in a backslash (\"a\\\\\") is not recognised: the Literal rule tries the two-character escape \\\" before any single character, so the closing quote is swallowed (syntax error / runs into the next literal)",
		"const string X = \"a\\\\\"\nconst string Y = \"b\"\n",
		func(f *parser.Frugal, err error) bool {
			return err != nil || len(f.Constants) != 2 || f.Constants[0].Value != interface{}("a\\")
		}},
	{"prefix-comment", "c10_prefix_comment.frugal",
		"a comment between `prefix` and the first prefix token becomes part of the scope prefix (the action takes the matched text minus the keyword): scope E prefix /* topic */ a.b gives the prefix \"/* topic */ a.b\"",
		"struct M {}\nscope E prefix /* topic */ a.b {\n  Op: M\n}\n",
		func(f *parser.Frugal, err error) bool {
			return err != nil || len(f.Scopes) != 1 || f.Scopes[0].Prefix.String != "a.b"
		}},
}

// pxGaps: valid Thrift that the grammar has no production for (one recorded finding, many witnesses).
const pxGapsID = "thrift-syntax-gaps"
const pxGapsEmbedded = "### namespace scope with underscore or digit\nnamespace c_glib foo\n### hexadecimal integer constant\nconst i32 x = 0x1F\n### const map entries without separators\nconst map<string,i32> m = {\"a\":1 \"b\":2}\n### double without a decimal point\nconst double d = 1e3\n### cpp_include header\ncpp_include \"x.h\"\n### field without an explicit id\nstruct S { i32 a }\n### i8 with annotations\nstruct S {1: i8 (a=\"b\") x}\n### map type with a space before the angle bracket\ntypedef map <string,i32> M\n"

func pxVerifDir() string {
	if p := os.Getenv("VERIF_DIR"); p != "" {
		return p
	}
	if exe, err := os.Executable(); err == nil {
		p := filepath.Dir(filepath.Dir(exe))
		if _, err := os.Stat(filepath.Join(p, "properties.jsonl")); err == nil {
			return p
		}
	}
	return "/verif"
}

func pxReadKnown(file, embedded string) string {
	b, err := os.ReadFile(filepath.Join(pxVerifDir(), "known", file))
	if err != nil {
		Stat("known-witness-missing-used-embedded")
		return embedded
	}
	return string(b)
}

func pxReplayKnown() {
	for _, k := range pxKnowns {
		text := pxReadKnown(k.file, k.embedded)
		f, err, oc := pxParseProgram(map[string]string{"w.frugal": text}, "w.frugal")
		if oc != "" {
			OracleFail("known-finding witness panics or hangs: "+k.id, map[string]interface{}{"outcome": oc})
			continue
		}
		if k.fails(f, err) {
			Known(k.id, k.what)
		} else {
			Stat("known-finding-no-longer-fails:" + k.id)
		}
	}
	// a two-file witness: main.frugal includes common.frugal
	{
		files := map[string]string{
			"main.frugal":   pxReadKnown("c10_typedef_hop/main.frugal", "include \"common.frugal\"\ntypedef common.Bytes alpha\n"),
			"common.frugal": pxReadKnown("c10_typedef_hop/common.frugal", "struct alpha {}\ntypedef alpha Bytes\n"),
		}
		f, err, oc := pxParseProgram(files, "main.frugal")
		switch {
		case oc != "":
			OracleFail("known-finding witness panics or hangs: include-typedef-hop-circular", map[string]interface{}{"outcome": oc})
		case err != nil || len(f.Typedefs) != 1:
			Known("include-typedef-hop-circular", "valid IDL rejected as `Circular typedef`: main.frugal `typedef common.Bytes alpha` with common.frugal `struct alpha {}; typedef alpha Bytes` - validateTypedefs follows the included file's typedef (Bytes -> alpha) in the INCLUDING file, where `alpha` is the typedef it started from")
		default:
			Stat("known-finding-no-longer-fails:include-typedef-hop-circular")
		}
	}
	var failing []string
	total := 0
	for _, sec := range strings.Split(pxReadKnown("c10_thrift_gaps.frugal", pxGapsEmbedded), "### ") {
		i := strings.IndexByte(sec, '\n')
		if i < 0 {
			continue
		}
		total++
		_, err, oc := pxParseProgram(map[string]string{"w.frugal": sec[i+1:]}, "w.frugal")
		if oc != "" {
			OracleFail("known-finding witness panics or hangs: "+pxGapsID, map[string]interface{}{"outcome": oc, "case": sec[:i]})
		} else if err != nil {
			failing = append(failing, sec[:i])
		}
	}
	if len(failing) > 0 {
		Known(pxGapsID, "valid Thrift constructs the grammar has no production for are rejected as syntax errors: "+strings.Join(failing, "; "))
	}
	StatN("thrift-gap-witnesses", total)
}

// ---------------------------------------------------------------- the suite

// pxClassCase renders a model of one of the recorded finding classes; nothing is asserted
// about it (the class is excluded from the normal stream), the outcome is only counted.
func pxClassCase(r *Rng, g *pxGen) {
	m := g.file("main.frugal", nil)
	st := pxNewStyle(r)
	id := ""
	switch r.Intn(4) {
	case 0:
		id = "keyword-prefix-identifier"
		kw := pxKwPrefixes[r.Intn(len(pxKwPrefixes)-2)] // not true/false (const position only)
		name := kw + []string{"y", "_t", "2", "Thing", "s"}[r.Intn(5)]
		m.Structs = append(m.Structs, &pxStruct{Kind: "struct", Name: name})
		user := &pxStruct{Kind: "struct", Name: "KwUser_"}
		user.Fields = []*pxField{{ID: 1, Name: "f", Mod: pxDefault, Type: &pxType{Kind: pxTNamed, Name: name}}}
		m.Structs = append(m.Structs, user)
		m.Services = append(m.Services, &pxService{Name: "KwSvc_", Methods: []*pxMethod{{Name: "get", Ret: &pxType{Kind: pxTNamed, Name: name}}}})
	case 1:
		id = "same-line-statements"
		st.sameLine = true
		m.Structs = append(m.Structs, &pxStruct{Kind: "struct", Name: "SL1_"}, &pxStruct{Kind: "struct", Name: "SL2_"})
	case 2:
		id = "literal-trailing-backslash"
		m.Constants = append(m.Constants, &pxConstant{Name: "TB_", Type: &pxType{Kind: pxTBase, Name: "string"}, Value: &pxConst{Kind: 's', S: "dir\\"}},
			&pxConstant{Name: "TB2_", Type: &pxType{Kind: pxTBase, Name: "string"}, Value: &pxConst{Kind: 's', S: "z"}})
	case 3:
		id = "prefix-comment"
		st.pfxCmt = true
		m.Scopes = append(m.Scopes, &pxScope{Name: "PC_", HasPfx: true, Prefix: []pxPTok{{Text: "a"}, {Var: true, Text: "bb"}}})
	}
	text := pxRenderFile(m, st)
	f, err, oc := pxParseProgram(map[string]string{"main.frugal": text}, "main.frugal")
	switch {
	case oc != "":
		OracleFail("finding-class input panics or hangs", map[string]interface{}{"op": "c10text", "line": "c10text " + pxHex(text), "outcome": oc})
	case err != nil:
		Stat("class:" + id + ":rejected")
	case pxRDumpDeep(f, "main.frugal") != pxDumpFile(m, true):
		Stat("class:" + id + ":misparsed")
	default:
		Stat("class:" + id + ":round-trips")
	}
}

func pxSmallModel(r *Rng, g *pxGen) *pxFile {
	full := g.file("main.frugal", nil)
	m := &pxFile{Name: "main.frugal"}
	switch r.Intn(6) {
	case 0, 1:
		if len(full.Enums) > 0 {
			m.Enums = full.Enums[:1]
		}
	case 2:
		for _, s := range full.Structs {
			if len(s.Fields) > 0 {
				f := s.Fields[0]
				f.Type = &pxType{Kind: pxTBase, Name: "i32"}
				f.Default = nil
				s.Fields = []*pxField{f}
				m.Structs = []*pxStruct{s}
				break
			}
		}
	case 3:
		if len(full.Enums) > 0 && len(full.Enums[0].Values) > 0 {
			e := full.Enums[0]
			m.Enums = []*pxEnum{e}
			m.Constants = []*pxConstant{{Name: "c_", Type: &pxType{Kind: pxTNamed, Name: e.Name}, Value: &pxConst{Kind: 'r', S: e.Name + "." + e.Values[0].Name}}}
		}
	case 4:
		m.Namespaces = full.Namespaces
	case 5:
		if len(full.Scopes) > 0 {
			s := full.Scopes[0]
			s.Ops = nil
			m.Scopes = []*pxScope{s}
		}
	}
	return m
}

func pxProgramCase(r *Rng, g *pxGen, thorough bool) {
	var m *pxFile
	if r.Chance(15) {
		m = pxSmallModel(r, g)
		Stat("models-small")
	} else {
		m = g.program()
	}
	files := pxRenderProgram(m, r, pxNewStyle)
	want := pxDumpFile(m, true)
	line := "c10prog " + pxArchive(files, m.Name) + " " + want
	f, err, oc := pxParseProgram(files, m.Name)
	StatN("files", len(files))
	for _, t := range files {
		StatN("bytes", len(t))
	}
	if len(files) > 1 {
		Stat("programs-with-includes")
	}
	switch {
	case oc != "":
		Case(line, oc)
		OracleFail("valid IDL makes the parser "+oc, map[string]interface{}{"op": "c10prog", "line": line})
	case err != nil:
		Case(line, "err")
		OracleFail("valid IDL rejected: "+pxErrClass(err), map[string]interface{}{"op": "c10prog", "line": line, "err": pxClip(err.Error()), "text": pxClip(files[m.Name])})
	default:
		got := pxRDumpDeep(f, m.Name)
		Case(line, "ok "+got)
		if got != want {
			wa, ga := pxAround(want, got)
			OracleFail("parse(render(model)) differs from the model in its "+pxDiffSection(want, got), map[string]interface{}{"op": "c10prog", "line": line, "want": wa, "got": ga, "text": pxClip(files[m.Name])})
		} else if thorough || r.Chance(10) {
			pxCheckJSON(m, f, line)
		}
	}
	Sample(map[string]interface{}{"input": pxClip(files[m.Name]), "real": pxClip(want)})
	Stat("evaluations")
}

func pxFragmentCase(r *Rng, g *pxGen) {
	g.used = map[string]bool{}
	st := pxNewStyle(r)
	pool := []string{"Foo", "base.Item", "_T1", "a.b.c"}
	env := &pxEnv{kindOf: map[string]string{}, valsOf: map[string][]string{"Foo": {"A", "B"}}, consts: []string{"K1", "inc.K2"}}
	rule, frag, want := "", "", ""
	k := r.Intn(12)
	switch k {
	case 0:
		id := g.rawIdent()
		if r.Chance(30) {
			id += "." + g.rawIdent()
		}
		if pxHasKwPrefix(id) {
			id = "X" + id
		}
		rule, frag, want = "Identifier", id, "id:"+id
	case 1:
		c := g.intConst()
		rule, frag, want = "IntConstant", pxFragment(st, func(w *pxW) { w.intTok(int64(int32(c.I))) }), "i:"+strconv.Itoa(int(int32(c.I)))
	case 2:
		s := g.text(16)
		rule, frag, want = "Literal", pxFragment(st, func(w *pxW) { w.lit(s) }), "s:"+pxHex(s)
	case 3, 4:
		t := g.typ(pool, g.depth()+1)
		rule, frag, want = "FieldType", pxFragment(st, func(w *pxW) { w.typ(t) }), pxDumpType(t)
	case 5:
		t := g.typ(pool, 2)
		c := g.constFor(t, env, 3, false)
		rule, frag, want = "ConstValue", pxFragment(st, func(w *pxW) { w.constVal(c) }), pxDumpConst(c)
	case 6, 7:
		f := g.fields(1, env, pool, true)[0]
		rule, frag, want = "Field", pxFragment(st, func(w *pxW) { w.field(f) }), pxDumpField(f, false)
	case 8, 9:
		m := g.file("main.frugal", nil)
		if len(m.Enums) == 0 {
			return
		}
		e := m.Enums[0]
		e.Doc = nil
		rule, frag, want = "Enum", pxFragment(st, func(w *pxW) { w.enum(e); w.eos(false) }), pxDumpEnum(e)
	case 10:
		m := g.file("main.frugal", nil)
		if len(m.Structs) == 0 {
			return
		}
		s := m.Structs[0]
		s.Doc = nil
		rule = map[string]string{"struct": "Struct", "exception": "Exception", "union": "Union"}[s.Kind]
		frag, want = pxFragment(st, func(w *pxW) { w.structLike(s); w.eos(false) }), pxDumpStruct(s)
	case 11:
		m := g.file("main.frugal", nil)
		if len(m.Services) == 0 || len(m.Services[0].Methods) == 0 {
			return
		}
		mt := m.Services[0].Methods[0]
		rule, frag, want = "Function", pxFragment(st, func(w *pxW) { w.method(mt) }), pxDumpMethod(mt)
	}
	line := "peg " + rule + " " + pxHex(frag)
	out, fine := pxOpPeg([]string{rule, pxHex(frag)})
	Case(line, out)
	Stat("fragments:" + rule)
	if !fine || out != "ok "+want {
		OracleFail("fragment of rule "+rule+" does not parse to the declared value", map[string]interface{}{"op": "peg", "line": line, "want": pxClip(want), "got": pxClip(out), "text": pxClip(frag)})
	}
	Stat("evaluations")
}

var pxMutTokens = []string{"{", "}", "(", ")", "<", ">", ",", ";", ":", "=", "\"", "'", "/*", "*/", "//", "#", "/**@", "\n", " ", "struct", "enum", "service", "scope",
	"prefix", "throws", "extends", "oneway", "void", "required", "optional", "list<", "map<", "set<", "i32", "string", "const", "typedef", "include", "namespace",
	"-", "+", ".", "0", "99999999999999999999", "\\", "[", "]", "*", "true", "e5", "cpp_type"}

func pxMutate(r *Rng, t string) string {
	b := []byte(t)
	for i, n := 0, 1+r.Intn(3); i < n; i++ {
		if len(b) == 0 {
			b = []byte(pxMutTokens[r.Intn(len(pxMutTokens))])
			continue
		}
		p := r.Intn(len(b) + 1)
		switch r.Intn(6) {
		case 0:
			b = b[:p]
		case 1:
			tok := pxMutTokens[r.Intn(len(pxMutTokens))]
			b = append(b[:p:p], append([]byte(tok), b[p:]...)...)
		case 2:
			q := p + 1 + r.Intn(6)
			if q > len(b) {
				q = len(b)
			}
			b = append(b[:p:p], b[q:]...)
		case 3:
			if p < len(b) {
				b[p] = byte(32 + r.Intn(95))
			}
		case 4:
			q := r.Intn(len(b) + 1)
			if p > q {
				p, q = q, p
			}
			if q-p > 40 {
				q = p + 40
			}
			b = append(b[:q:q], append(append([]byte{}, b[p:q]...), b[q:]...)...)
		case 5:
			if p < len(b) {
				b[p] ^= 1 << uint(r.Intn(7))
			}
		}
	}
	return string(b)
}

func pxMalformedCase(r *Rng, g *pxGen) {
	m := g.file("main.frugal", nil)
	text := pxMutate(r, pxRenderFile(m, pxNewStyle(r)))
	if !utf8.ValidString(text) || strings.ContainsRune(text, utf8.RuneError) || strings.ContainsRune(text, 0) {
		Stat("malformed-skipped-encoding")
		return
	}
	line := "c10text " + pxHex(text)
	out, fine := pxOpText([]string{pxHex(text)})
	Case(line, out)
	Stat("malformed:" + clip(out))
	if !fine {
		OracleFail("malformed input makes the parser "+out, map[string]interface{}{"op": "c10text", "line": line, "text": pxClip(text)})
	}
	Stat("evaluations")
}

func runC10(r *Rng, n int) {
	pxReplayKnown()
	g := &pxGen{r: r}
	for i := 0; i < n; i++ {
		g.big = r.Chance(20)
		k := r.Intn(100)
		switch {
		case k < 55:
			pxProgramCase(r, g, r.Chance(30))
		case k < 80:
			pxFragmentCase(r, g)
		case k < 95:
			pxMalformedCase(r, g)
		default:
			pxClassCase(r, g)
		}
	}
}
