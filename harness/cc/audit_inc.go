package main

// C18, second part: edits that involve included files, and the command-line suite "c18cli".

import (
	"bytes"
	"context"
	"fmt"
	"os"
	"os/exec"
	"path/filepath"
	"sort"
	"strconv"
	"strings"
	"time"

	"github.com/Workiva/frugal/compiler/parser"
)

// incTypedefBody: change the body of a name-free typedef of an INCLUDED file (in the new program's copy
// of that file). Breaking iff an untouched checked slot of the main file reaches `inc.T`, directly or
// through local typedefs — the breaking change then sits behind a qualified typedef.
func (e *a18Editor) incTypedefBody() bool {
	if e.tdEdits > 0 || len(e.nw.includes) == 0 {
		return false
	}
	in := e.nw.includes[e.r.Intn(len(e.nw.includes))]
	var simple []*a18GTypedef
	for _, td := range in.prog.typedefs {
		if td.ty.nameFree() {
			simple = append(simple, td)
		}
	}
	if len(simple) == 0 || e.touched["inc:"+in.name] {
		return false
	}
	td := simple[e.r.Intn(len(simple))]
	q := in.name + "." + td.name
	var users []a18Slot
	anyUser := false
	for _, s := range e.nw.slots(false) {
		if e.nw.reaches(*s.ty, q, 0) {
			anyUser = true
			if !e.declTouched(s.decl) {
				users = append(users, s)
			}
		}
	}
	if anyUser && len(users) == 0 {
		return false
	}
	// other typedefs of the include that mention it must not be reachable either way: they are never
	// referred to from the main file (bodies with names), so only `q` itself matters
	before := e.nw.canonD(in.name, td.ty, 0)
	saved := td.ty
	for try := 0; try < 12; try++ {
		td.ty = e.g.nameFreeTy(0)
		if e.nw.canonD(in.name, td.ty, 0) != before {
			e.tdEdits++
			decls := []string{"inc:" + in.name}
			for _, o := range e.nw.typedefs {
				if e.nw.reaches(o.ty, q, 0) {
					decls = append(decls, "typedef:"+o.name)
				}
			}
			depth := 0
			for _, s := range users {
				decls = append(decls, s.decl)
				if d := (*s.ty).depth(); d > depth {
					depth = d
				}
			}
			collide := ""
			if e.nw.typedef(td.name) != nil {
				collide = "-colliding-with-local-typedef"
			}
			if anyUser {
				return e.rec("included-typedef-body-used"+collide, true, "inc:"+q, depth, decls...)
			}
			return e.rec("included-typedef-body-unused"+collide, false, "inc:"+q, 0, decls...)
		}
	}
	td.ty = saved
	return false
}

// qualifyFlip: `inc.X` becomes the main file's own `X` or the other way round, where both exist (a name
// collision). They are different declarations: breaking unless both happen to denote the same type.
func (e *a18Editor) qualifyFlip() bool {
	if len(e.nw.includes) == 0 {
		return false
	}
	local := map[string]bool{}
	for _, t := range e.nw.typedefs {
		local[t.name] = true
	}
	for _, st := range e.nw.structs {
		local[st.name] = true
	}
	for _, en := range e.nw.enums {
		local[en.name] = true
	}
	qualified := map[string][]string{} // bare name -> qualified spellings
	for _, q := range a18QualifiedPool(e.nw) {
		_, base := a18SplitQual(q)
		qualified[base] = append(qualified[base], q)
	}
	type cand struct {
		s   a18Slot
		pos a18TyPos
		to  string
	}
	var cands []cand
	for _, s := range e.checkedSlots() {
		var ps []a18TyPos
		a18Positions(s.ty, 0, &ps)
		for _, pos := range ps {
			t := *pos.at
			if t.kind != a18TyNamed {
				continue
			}
			inc, base := a18SplitQual(t.name)
			if inc != "" && local[base] {
				cands = append(cands, cand{s, pos, base})
			}
			if inc == "" {
				for _, q := range qualified[base] {
					cands = append(cands, cand{s, pos, q})
				}
			}
		}
	}
	if len(cands) == 0 {
		return false
	}
	c := cands[e.r.Intn(len(cands))]
	before := e.nw.canon(*c.s.ty)
	from := (*c.pos.at).name
	*c.pos.at = &a18GTy{kind: a18TyNamed, name: c.to}
	dir := "qualify"
	if strings.Contains(from, ".") {
		dir = "unqualify"
	}
	if e.nw.canon(*c.s.ty) == before {
		return e.rec(dir+"-colliding-name-same-type", false, c.s.decl, c.pos.depth, c.s.decl)
	}
	return e.rec(dir+"-colliding-name", true, c.s.decl, c.pos.depth, c.s.decl)
}

// incInvisible: a change of an included file that the audit of the main file does not look at
// (only typedef resolution reaches into an include; an included file is audited on its own).
func (e *a18Editor) incInvisible() bool {
	if len(e.nw.includes) == 0 {
		return false
	}
	in := e.nw.includes[e.r.Intn(len(e.nw.includes))]
	if e.touched["inc:"+in.name] {
		return false
	}
	switch e.r.Intn(3) {
	case 0:
		st := in.prog.structs[e.r.Intn(len(in.prog.structs))]
		st.fields = append(st.fields, &a18GField{id: 20 + len(st.fields), mod: 'r', name: e.g.fresh("added"), ty: e.g.nameFreeTy(1), dflt: "-"})
		return e.rec("included-struct-field-added", false, "inc:"+in.name, 0)
	case 1:
		in.prog.typedefs = append(in.prog.typedefs, &a18GTypedef{e.g.fresh("Td"), e.g.nameFreeTy(0)})
		return e.rec("included-typedef-added", false, "inc:"+in.name, 0)
	default:
		for _, td := range in.prog.typedefs {
			if !td.ty.nameFree() {
				td.ty = &a18GTy{kind: a18TyList, name: "list", v: &a18GTy{kind: a18TyNamed, name: in.prog.structs[0].name}}
				return e.rec("included-unreferenced-typedef-changed", false, "inc:"+in.name, 0)
			}
		}
	}
	return false
}

// samePair: a COMBINED edit — the same change of type spelling A -> B applied at 2..4 places at once:
// constants, struct/union/exception fields, arguments, return types, throws entries, scope operations,
// at any container depth. A constant's type change is the documented warning; every other place is a
// breaking retype. (An auditor that remembered "pair A -> B already compared" would let the constant,
// which is checked first and only warns, hide the errors.)
func (e *a18Editor) samePair() bool {
	type place struct {
		decl, what string
		pos        a18TyPos
	}
	groups := map[string][]place{}
	var order []string
	addSlot := func(decl, what string, at **a18GTy) {
		var ps []a18TyPos
		a18Positions(at, 0, &ps)
		for _, pos := range ps {
			k := (*pos.at).tok()
			if _, ok := groups[k]; !ok {
				order = append(order, k)
			}
			groups[k] = append(groups[k], place{decl, what, pos})
		}
	}
	for _, s := range e.checkedSlots() {
		addSlot(s.decl, s.what, s.ty)
	}
	for _, c := range e.nw.consts {
		if k := "const:" + c.name; !e.touched[k] && e.inOld(k) {
			addSlot(k, "const", &c.ty)
		}
	}
	// candidate groups: at least two places; prefer a constant together with something that is audited as an error
	var mixed, plain []string
	for _, k := range order {
		g := groups[k]
		if len(g) < 2 {
			continue
		}
		hasC, hasO := false, false
		for _, pl := range g {
			hasC = hasC || pl.what == "const"
			hasO = hasO || pl.what != "const"
		}
		if hasC && hasO {
			mixed = append(mixed, k)
		} else {
			plain = append(plain, k)
		}
	}
	var key string
	switch {
	case len(mixed) > 0 && (len(plain) == 0 || e.r.Chance(75)):
		key = mixed[e.r.Intn(len(mixed))]
	case len(plain) > 0:
		key = plain[e.r.Intn(len(plain))]
	default:
		return false
	}
	g := groups[key]
	// shuffle; make sure a constant and a non-constant are among the first two when both exist
	for i := len(g) - 1; i > 0; i-- {
		j := e.r.Intn(i + 1)
		g[i], g[j] = g[j], g[i]
	}
	for i, pl := range g {
		if pl.what == "const" {
			g[0], g[i] = g[i], g[0]
			break
		}
	}
	for i := 1; i < len(g); i++ {
		if g[0].what == "const" && g[i].what != "const" {
			g[1], g[i] = g[i], g[1]
			break
		}
	}
	n := 2 + e.r.Intn(3)
	if n > len(g) {
		n = len(g)
	}
	g = g[:n]
	a := *g[0].pos.at
	before := e.nw.canon(a)
	var b *a18GTy
	for try := 0; try < 12 && b == nil; try++ {
		c := e.g.ty(e.nw, 2, -1)
		if try > 6 {
			c = &a18GTy{kind: a18TyBase, name: a18BaseNames[e.r.Intn(len(a18BaseNames))]}
		}
		if e.nw.canon(c) != before {
			b = c
		}
	}
	if b == nil {
		return false
	}
	breaking, depth := false, 0
	var whats, decls []string
	seenWhat := map[string]bool{}
	for _, pl := range g {
		*pl.pos.at = b.clone()
		if pl.what == "const" {
			for _, c := range e.nw.consts {
				if "const:"+c.name == pl.decl && pl.pos.depth == 0 {
					c.value = a18ConstValueFor(e.r, c.ty)
				}
			}
		} else {
			breaking = true
		}
		if pl.pos.depth > depth {
			depth = pl.pos.depth
		}
		if !seenWhat[pl.what] {
			seenWhat[pl.what] = true
			whats = append(whats, pl.what)
		}
		decls = append(decls, pl.decl)
	}
	sort.Strings(whats)
	return e.rec(fmt.Sprintf("same-pair-x%d-%s", len(g), strings.Join(whats, "+")), breaking, g[len(g)-1].decl, depth, decls...)
}

// replaceField: a combined edit inside ONE field list: an optional field goes, a new field comes
// (fresh id). Breaking iff the new one is required (the removal of an optional field is compatible).
func (e *a18Editor) replaceField() bool {
	fs := e.pickFieldList("struct exception args", func(s a18FieldSite) bool {
		for _, f := range *s.fields {
			if f.mod == 'o' {
				return true
			}
		}
		return false
	})
	if fs == nil {
		return false
	}
	id := a18FreshID(*fs.fields, e.r, e.r.Bool())
	for i, f := range *fs.fields {
		if f.mod == 'o' {
			*fs.fields = append((*fs.fields)[:i:i], (*fs.fields)[i+1:]...)
			break
		}
	}
	mod := "rro"[e.r.Intn(3)]
	nf := &a18GField{id: id, mod: mod, name: e.g.fieldName(a18FieldNames(*fs.fields)), ty: e.g.ty(e.nw, 1, -1), dflt: "-"}
	at := e.r.Intn(len(*fs.fields) + 1)
	*fs.fields = append((*fs.fields)[:at:at], append([]*a18GField{nf}, (*fs.fields)[at:]...)...)
	if mod == 'r' {
		return e.rec("replace-optional-by-required-"+fs.what, true, fs.decl, 0, fs.decl)
	}
	return e.rec("replace-optional-by-optional-"+fs.what, false, fs.decl, 0, fs.decl)
}

func init() {
	for i := 0; i < 6; i++ {
		a18Edits = append(a18Edits, a18Edit{"same-pair", func(e *a18Editor) bool { return e.samePair() }})
	}
	a18Edits = append(a18Edits, a18Edit{"replace-field", func(e *a18Editor) bool { return e.replaceField() }})
	a18Edits = append(a18Edits, a18Edit{"replace-field", func(e *a18Editor) bool { return e.replaceField() }})
	for i := 0; i < 3; i++ {
		a18Edits = append(a18Edits, a18Edit{"included-typedef-body", func(e *a18Editor) bool { return e.incTypedefBody() }})
		a18Edits = append(a18Edits, a18Edit{"qualify-flip", func(e *a18Editor) bool { return e.qualifyFlip() }})
	}
	a18Edits = append(a18Edits, a18Edit{"included-invisible", func(e *a18Editor) bool { return e.incInvisible() }})
}

// ---------- suite c18cli: the command line ----------
//
// `frugal -audit old f1 … fk`, k = 1..4, every placement of {identical, compatible, breaking} files.
// Oracle: exit status ≠ 0 iff at least one fi has a breaking edit; the failure names the first such
// file and ERROR lines were printed. Model: `cliAudit` (OR over the per-file verdicts).
// Driver line: audn - OLD F1 … Fk e=<classes>      classes: one letter i|c|b per file.

func a18FrugalBin() string {
	if p := os.Getenv("VERIF_FRUGAL"); p != "" {
		return p
	}
	if exe, err := os.Executable(); err == nil {
		return filepath.Join(filepath.Dir(exe), "frugal")
	}
	return "/verif/.build/frugal"
}

type a18CLIOut struct {
	err    string
	exit   int
	first  int // 1-based index of the file named in the first FAILED line, 0 = none
	nError int // ERROR: lines
	stdout string
}

func (o a18CLIOut) canonical() string {
	if o.err != "" {
		return "cli-error " + o.err
	}
	if o.exit == 0 {
		return "exit=0"
	}
	if o.first == 0 {
		return fmt.Sprintf("exit=%d first=?", o.exit)
	}
	return fmt.Sprintf("exit=%d first=%d", o.exit, o.first)
}

// a18RunCLI writes the programs to a scratch directory and runs the real binary.
// It also returns the programs as the real parser reads them.
func a18RunCLI(old *a18GProg, files []*a18GProg) (out a18CLIOut, oldP *a18GProg, parsed []*a18GProg) {
	dir, err := os.MkdirTemp("", "verif-c18cli-")
	if err != nil {
		out.err = err.Error()
		return
	}
	defer os.RemoveAll(dir)
	if err := a18WriteFiles(filepath.Join(dir, "old"), a18Files(old)); err != nil {
		out.err = err.Error()
		return
	}
	args := []string{"-audit", filepath.Join(dir, "old", "main.frugal")}
	var paths []string
	for i, f := range files {
		d := filepath.Join(dir, "f"+strconv.Itoa(i+1))
		if err := a18WriteFiles(d, a18Files(f)); err != nil {
			out.err = err.Error()
			return
		}
		paths = append(paths, filepath.Join(d, "main.frugal"))
	}
	args = append(args, paths...)
	of, err := parser.ParseFrugal(args[1])
	if err != nil {
		out.err = "parse old: " + err.Error()
		return
	}
	oldP = a18ProgOfReal(of)
	for _, p := range paths {
		nf, err := parser.ParseFrugal(p)
		if err != nil {
			out.err = "parse: " + err.Error()
			return
		}
		parsed = append(parsed, a18ProgOfReal(nf))
	}
	ctx, cancel := context.WithTimeout(context.Background(), 60*time.Second)
	defer cancel()
	// address-space limit: a runaway recursion in the binary under test must not exhaust the machine
	sh := "ulimit -v 4194304; exec \"$0\" \"$@\""
	cmd := exec.CommandContext(ctx, "/bin/sh", append([]string{"-c", sh, a18FrugalBin()}, args...)...)
	var buf bytes.Buffer
	cmd.Stdout, cmd.Stderr = &buf, &buf
	cmd.Dir = dir
	runErr := cmd.Run()
	out.stdout = buf.String()
	if ctx.Err() != nil {
		out.err = "timeout"
		return
	}
	if runErr != nil {
		ee, ok := runErr.(*exec.ExitError)
		if !ok {
			out.err = "exec: " + runErr.Error()
			return
		}
		out.exit = ee.ExitCode()
	}
	for _, line := range strings.Split(out.stdout, "\n") {
		if strings.HasPrefix(line, "ERROR:") {
			out.nError++
		}
		if i := strings.Index(line, "FAILED: audit of "); i >= 0 && out.first == 0 {
			rest := line[i+len("FAILED: audit of "):]
			for k, p := range paths {
				if strings.HasPrefix(rest, p+" ") {
					out.first = k + 1
				}
			}
		}
	}
	return
}

// a18CLIOracle: the property on a real command-line outcome. classes: i|c|b per file.
func a18CLIOracle(classes string, o a18CLIOut) (bool, string) {
	if o.err != "" {
		return true, ""
	}
	firstB := strings.IndexByte(classes, 'b') + 1
	if firstB == 0 {
		if o.exit != 0 {
			return false, "frugal -audit exits non-zero although no file has a breaking change"
		}
		return true, ""
	}
	if o.exit == 0 {
		return false, "frugal -audit exits 0 although a file with a breaking change was given"
	}
	if o.nError == 0 {
		return false, "frugal -audit fails without printing an ERROR line"
	}
	if o.first != firstB {
		return false, "frugal -audit does not name the first breaking file in its FAILED line"
	}
	return true, ""
}

func a18AudnLine(old *a18GProg, files []*a18GProg, classes string) string {
	parts := []string{"audn", "-", old.tok()}
	for _, f := range files {
		parts = append(parts, f.tok())
	}
	return strings.Join(append(parts, "e="+classes), " ")
}

// a18Variant: a copy of old that is identical, has only compatible edits, or has at least one breaking edit.
func a18Variant(r *Rng, old *a18GProg, class byte) *a18GProg {
	if class == 'i' {
		return old.clone()
	}
	for try := 0; try < 40; try++ {
		mode := 1
		if class == 'b' {
			mode = 2
		}
		c := a18EditCase(r, old, mode, 1+r.Intn(3))
		if (class == 'b') == (c.breaking > 0) {
			return c.nw
		}
	}
	return nil
}

func runC18CLI(r *Rng, n int) {
	r = &Rng{s: r.U64() ^ 0xC18C11}
	if _, err := os.Stat(a18FrugalBin()); err != nil {
		OracleFail("c18cli: the frugal binary is missing: "+a18FrugalBin(), map[string]interface{}{"err": err.Error()})
		return
	}
	// all placements for k = 1..4
	var placements []string
	var rec func(prefix string, k int)
	rec = func(prefix string, k int) {
		if k == 0 {
			placements = append(placements, prefix)
			return
		}
		for _, c := range "icb" {
			rec(prefix+string(c), k-1)
		}
	}
	for k := 1; k <= 4; k++ {
		rec("", k)
	}
	start := r.Intn(len(placements))
	var old *a18GProg
	for i := 0; i < n; i++ {
		if i%len(placements) == 0 || old == nil {
			old = a18GenProg(r)
		}
		classes := placements[(start+i)%len(placements)]
		var files []*a18GProg
		for _, c := range []byte(classes) {
			v := a18Variant(r, old, c)
			if v == nil {
				break
			}
			files = append(files, v)
		}
		if len(files) != len(classes) {
			Stat("cli-skipped-no-variant")
			old = nil
			continue
		}
		out, oldP, parsed := a18RunCLI(old, files)
		Stat("evaluations")
		Stat(fmt.Sprintf("cli-files=%d", len(classes)))
		Stat("cli-placement:" + classes)
		if out.err != "" {
			Stat("cli-error")
			Case(a18AudnLine(old, files, classes), out.canonical())
			continue
		}
		Stat(fmt.Sprintf("cli-exit=%d", out.exit))
		line := a18AudnLine(oldP, parsed, classes)
		Case(line, out.canonical())
		if i < 2 {
			Sample(map[string]interface{}{"classes": classes, "real": out.canonical()})
		}
		if ok, what := a18CLIOracle(classes, out); !ok {
			// shrink: drop files while the same failure persists
			fs, cl := files, classes
			for changed := true; changed && len(fs) > 1; {
				changed = false
				for j := range fs {
					f2 := append(append([]*a18GProg{}, fs[:j]...), fs[j+1:]...)
					c2 := cl[:j] + cl[j+1:]
					o2, _, _ := a18RunCLI(old, f2)
					if ok2, w2 := a18CLIOracle(c2, o2); !ok2 && w2 == what {
						fs, cl, changed = f2, c2, true
						break
					}
				}
			}
			so, sOld, sParsed := a18RunCLI(old, fs)
			sline := line
			if so.err == "" {
				sline = a18AudnLine(sOld, sParsed, cl)
			}
			OracleFail(what, map[string]interface{}{"op": "audn", "line": sline, "classes": cl, "real": so.canonical(), "stdout": so.stdout})
		}
	}
}

func init() {
	suites["c18cli"] = runC18CLI
	lineOps["audn"] = func(args []string) (string, bool) {
		if len(args) < 3 {
			return "bad-args", true
		}
		old, err := a18ProgOfTok(args[1])
		if err != nil {
			return "bad-args", true
		}
		var files []*a18GProg
		classes := ""
		for _, a := range args[2:] {
			if strings.HasPrefix(a, "e=") {
				classes = a[2:]
				continue
			}
			if !strings.HasPrefix(a, "(") {
				continue
			}
			f, err := a18ProgOfTok(a)
			if err != nil {
				return "bad-args", true
			}
			files = append(files, f)
		}
		out, oldP, parsed := a18RunCLI(old, files)
		if out.err != "" {
			return out.canonical(), true
		}
		if oldP.tok() != args[1] {
			return "not-canonical " + out.canonical(), true
		}
		for i, f := range parsed {
			if f.tok() != files[i].tok() {
				return "not-canonical " + out.canonical(), true
			}
		}
		if len(classes) != len(files) {
			return out.canonical(), true
		}
		ok, _ := a18CLIOracle(classes, out)
		return out.canonical(), ok
	}
}
