package main

// C19 — code generation is deterministic and location-independent.
//
// Suite "c19": random valid multi-file IDL programs with many entries per
// map-like collection, compiled by the REAL compiler (the binary .build/frugal,
// one process per run, so every run has its own map seeds; plus in-process
// compiler.Compile repetitions that interleave different programs/targets in one
// process, which exercises the per-compile reset of the global state) for every
// target and a few option subsets.  ORACLE = the property: over repetitions,
// working directories, absolute source locations and -out directories the set
// of emitted relative paths and the sha256 of every emitted file are identical.
//
// Driver lines:
//   c19ord <lang> <opts|-> <root> <graph>   generation order of the files (the
//        real one is read from the compiler's -v log) vs the model's traversal
//   c19det s<progseed> <cfg> <R> <keep>     replayable determinism run of one
//        (program, target, options); <keep> = kept item indices (shrinkable)
//   c19site <site> <pattern>                census tie (see census19.go)

import (
	"bytes"
	"crypto/sha256"
	"encoding/hex"
	"fmt"
	"go/ast"
	goparser "go/parser"
	"go/token"
	"os"
	"os/exec"
	"path/filepath"
	"regexp"
	"runtime"
	"sort"
	"strconv"
	"strings"
	"sync"
	"time"

	"github.com/Workiva/frugal/compiler"
	"github.com/Workiva/frugal/compiler/generator"
)

// ---------------------------------------------------------------- targets / options

// Base configurations (compiled for the big, many-entries programs): every target with a few
// option subsets.  java generated_annotations modes that embed a date (anything but absent /
// "suppress" / "undated") are excluded, as the property says.
var c19BaseGens = []string{
	"go",
	"go:package_prefix=example.com/gen/,async",
	"go:slim,suppress_deprecated_logging,use_vendor",
	"go:thrift_import=example.com/thrift,frugal_import=example.com/frugal,omit_server_service_generation",
	"java",
	"java:async,boxed_primitives",
	"java:generated_annotations=undated,default_unsupported,use_vendor",
	"java:generated_annotations=suppress,suppress_deprecated_logging",
	"dart",
	"dart:library_prefix=my_lib.src.gen",
	"dart:use_enums,use_int64",
	"dart:use_null_for_unset,use_vendor,nullsafe",
	"py",
	"py:package_prefix=pfx.gen.",
	"py:asyncio",
	"py:asyncio,package_prefix=apfx.",
	"py:tornado",
	"py:tornado,package_prefix=tpfx.",
	"json",
	"json:indent",
	"html",
	"html:standalone",
}

// values for the options that take one; an option not listed here is passed as a bare flag
var c19OptValues = map[string][]string{
	"go/thrift_import":          {"example.com/thrift"},
	"go/frugal_import":          {"example.com/frugal"},
	"go/package_prefix":         {"example.com/gen/"},
	"py/package_prefix":         {"pfx.gen."},
	"dart/library_prefix":       {"my_lib.src.gen"},
	"java/generated_annotations": {"undated", "suppress"}, // "use" (and any other value) embeds the date: excluded by the property
}

// c19SweepGens: for every target of the REAL option table (generator.Languages — a new
// option is drawn without touching this file) the empty option set, every option alone and
// every pair of options.
func c19SweepGens() []string {
	var gens []string
	langs := make([]string, 0, len(generator.Languages))
	for l := range generator.Languages {
		langs = append(langs, l)
	}
	sort.Strings(langs)
	for _, lang := range langs {
		type ov struct{ opt, text string }
		var items []ov
		names := make([]string, 0, len(generator.Languages[lang]))
		for o := range generator.Languages[lang] {
			names = append(names, o)
		}
		sort.Strings(names)
		for _, o := range names {
			if vals, ok := c19OptValues[lang+"/"+o]; ok {
				for _, v := range vals {
					items = append(items, ov{o, o + "=" + v})
				}
			} else {
				items = append(items, ov{o, o})
			}
		}
		gens = append(gens, lang)
		for _, a := range items {
			gens = append(gens, lang+":"+a.text)
		}
		for i, a := range items {
			for _, b := range items[i+1:] {
				if a.opt != b.opt {
					gens = append(gens, lang+":"+a.text+","+b.text)
				}
			}
		}
	}
	return gens
}

func c19Lang(gen string) (lang, opts string) {
	if i := strings.IndexByte(gen, ':'); i >= 0 {
		return gen[:i], gen[i+1:]
	}
	return gen, "-"
}

// ---------------------------------------------------------------- program generator

type c19Item struct {
	file    int
	kind    string // ns inc typedef const enum struct union exception service scope
	text    string
	inc     int // for kind inc: the included file
	incName string
	vendor  bool
}

type c19Prog struct {
	small bool // a 4-5 file program (option sweep) instead of the many-entries one
	dup   bool // two files in different directories share a base name (never included by one file)
	cont  bool // the root mentions its includes only inside containers (list/set/map key/map value, nested) of method / operation types
	sib   bool // sibling directories that include each other: a diamond reached through different relative spellings
	seed  uint64
	paths []string // relative path of file i; 0 is the root
	items []c19Item
}

type c19Syms struct {
	name     string
	structs  []string
	unions   []string
	enums    []string
	enumVals map[string][]string
	enumNums map[string][]int
	typedefs []string
	excs     []string
	services []string
	iconsts  []string
	sconsts  []string
}

var c19Syll = []string{"ka", "vo", "zi", "mu", "te", "lo", "ra", "ni", "po", "shu", "ge", "fa", "du", "wex", "qui", "jal", "bem", "cor", "tan", "yl"}

func c19Word(r *Rng, n int) string {
	s := ""
	for i := 0; i < n; i++ {
		s += c19Syll[r.Intn(len(c19Syll))]
	}
	return s
}

func c19Title(s string) string { return strings.ToUpper(s[:1]) + s[1:] }

// (i8 is accepted by the parser but rejected by the java and python generators: "shouldn't happen: i8" — C11 territory, not generated here)
var c19Base = []string{"bool", "byte", "i16", "i32", "i64", "double", "string", "binary"}
var c19KeyBase = []string{"i32", "i64", "string", "i16"}
var c19NsLangs = []string{"*", "go", "java", "py", "dart", "cpp", "rb", "php", "perl", "csharp", "js", "cocoa", "erl", "hs", "ocaml", "d", "lua", "st", "py.asyncio", "py.tornado"}

type c19Gen struct {
	r    *Rng
	p    *c19Prog
	syms []*c19Syms
	uniq int
}

func (g *c19Gen) id(prefix string) string {
	g.uniq++
	return prefix + c19Title(c19Word(g.r, 1+g.r.Intn(2))) + strconv.Itoa(g.uniq)
}

func (g *c19Gen) anns(p int) string {
	if !g.r.Chance(p) {
		return ""
	}
	n := 1 + g.r.Intn(3)
	if g.r.Chance(15) {
		n = 12 + g.r.Intn(4)
	}
	parts := []string{}
	for i := 0; i < n; i++ {
		k := "an" + c19Title(c19Word(g.r, 1)) + strconv.Itoa(i)
		if i == 0 && g.r.Chance(30) {
			k = "deprecated"
		}
		if g.r.Chance(75) {
			parts = append(parts, fmt.Sprintf("%s=\"%s\"", k, c19Word(g.r, 2)))
		} else {
			parts = append(parts, k)
		}
	}
	return " (" + strings.Join(parts, ", ") + ")"
}

func (g *c19Gen) doc(p int, indent string) string {
	if !g.r.Chance(p) {
		return ""
	}
	return indent + "/**@ " + c19Word(g.r, 2) + " " + c19Word(g.r, 3) + ". */\n"
}

// ty produces a field type valid in file `me` whose direct includes are `incs`.
func (g *c19Gen) ty(me *c19Syms, incs []int, depth int) string {
	for {
		switch k := g.r.Intn(12); {
		case k < 3:
			return c19Base[g.r.Intn(len(c19Base))]
		case k == 3 && len(me.structs) > 0:
			return me.structs[g.r.Intn(len(me.structs))]
		case k == 4 && len(me.enums) > 0:
			return me.enums[g.r.Intn(len(me.enums))]
		case k == 5 && len(me.typedefs) > 0:
			return me.typedefs[g.r.Intn(len(me.typedefs))]
		case k == 6 && len(me.unions) > 0:
			return me.unions[g.r.Intn(len(me.unions))]
		case (k == 7 || k == 8) && len(incs) > 0:
			o := g.syms[incs[g.r.Intn(len(incs))]]
			switch g.r.Intn(3) {
			case 0:
				if len(o.structs) > 0 {
					return o.name + "." + o.structs[g.r.Intn(len(o.structs))]
				}
			case 1:
				if len(o.enums) > 0 {
					return o.name + "." + o.enums[g.r.Intn(len(o.enums))]
				}
			default:
				if len(o.typedefs) > 0 {
					return o.name + "." + o.typedefs[g.r.Intn(len(o.typedefs))]
				}
			}
		case k >= 9 && depth < 2:
			switch g.r.Intn(3) {
			case 0:
				return "list<" + g.ty(me, incs, depth+1) + ">"
			case 1:
				return "set<" + c19KeyBase[g.r.Intn(len(c19KeyBase))] + ">"
			default:
				return "map<" + c19KeyBase[g.r.Intn(len(c19KeyBase))] + ", " + g.ty(me, incs, depth+1) + ">"
			}
		}
	}
}

func (g *c19Gen) structTy(me *c19Syms, incs []int) string {
	if len(incs) > 0 && g.r.Chance(55) {
		for try := 0; try < 4; try++ {
			o := g.syms[incs[g.r.Intn(len(incs))]]
			if len(o.structs) > 0 {
				return o.name + "." + o.structs[g.r.Intn(len(o.structs))]
			}
		}
	}
	if len(me.structs) > 0 {
		return me.structs[g.r.Intn(len(me.structs))]
	}
	return "string"
}

func (g *c19Gen) fields(me *c19Syms, incs []int, n int, union bool) string {
	s := ""
	id := 0
	for i := 0; i < n; i++ {
		id += 1 + g.r.Intn(3)
		mod := ""
		if !union {
			switch g.r.Intn(5) {
			case 0:
				mod = "optional "
			case 1:
				mod = "required "
			}
		}
		t := g.ty(me, incs, 0)
		def := ""
		if !union && g.r.Chance(25) {
			switch t {
			case "i32", "i64", "i16":
				def = " = " + strconv.Itoa(g.r.Intn(2000)-1000)
				if len(me.iconsts) > 0 && g.r.Chance(30) && t == "i32" {
					def = " = " + me.iconsts[g.r.Intn(len(me.iconsts))]
				}
			case "string":
				def = " = \"" + c19Word(g.r, 2) + "\""
			case "bool":
				def = " = true"
			case "double":
				def = " = 1.5"
			default:
				if vals, ok := me.enumVals[t]; ok && mod != "required " {
					def = " = " + t + "." + vals[g.r.Intn(len(vals))]
				}
			}
		}
		s += g.doc(20, "    ")
		s += fmt.Sprintf("    %d: %s%s %s%s%s,\n", id, mod, t, g.id("x"), def, g.anns(15))
	}
	return s
}

func (g *c19Gen) add(file int, kind, text string) {
	g.p.items = append(g.p.items, c19Item{file: file, kind: kind, text: text})
}

// genFile generates file i (files > i exist already).  big = the many-entries file.
func (g *c19Gen) genFile(i int, incs []int, vendored map[int]bool, big bool) {
	r := g.r
	me := g.syms[i]
	// cont programs: the root mentions its includes ONLY inside containers of method / operation types
	tyIncs := incs
	if g.p.cont && i == 0 {
		tyIncs = nil
	}
	cnt := func(lo, hi int) int {
		if big {
			return 12 + r.Intn(5)
		}
		return lo + r.Intn(hi-lo+1)
	}
	// namespaces
	nss := []string{}
	if big {
		nss = append(nss, c19NsLangs[:12+r.Intn(len(c19NsLangs)-12)]...)
	} else {
		for _, l := range c19NsLangs[:5] {
			if r.Chance(60) {
				nss = append(nss, l)
			}
		}
	}
	for k := len(nss) - 1; k > 0; k-- {
		j := r.Intn(k + 1)
		nss[k], nss[j] = nss[j], nss[k]
	}
	hasNs := map[string]bool{}
	for _, l := range nss {
		hasNs[l] = true
	}
	for _, l := range []string{"go", "java", "dart"} { // a vendored include needs a vendor path per language
		if vendored[i] && !hasNs[l] {
			nss = append(nss, l)
		}
	}
	for _, l := range nss {
		val := fmt.Sprintf("n%d%s.%s", i, c19Word(r, 1), c19Word(r, 1))
		if l == "dart" || r.Chance(30) {
			val = fmt.Sprintf("n%d_%s", i, c19Word(r, 2))
		}
		ann := ""
		if l != "*" && (vendored[i] || r.Chance(15)) && (l == "go" || l == "java" || l == "dart") {
			switch l {
			case "go":
				ann = fmt.Sprintf(" (vendor=\"example.com/vendored/v%d\")", i)
			case "java":
				ann = fmt.Sprintf(" (vendor=\"vendored.pkg.v%d\")", i)
			default:
				ann = fmt.Sprintf(" (vendor=\"vendored_v%d\")", i)
			}
		}
		g.add(i, "ns", fmt.Sprintf("namespace %s %s%s\n", l, val, ann))
	}
	// includes (source order is random, not sorted)
	order := append([]int{}, incs...)
	for k := len(order) - 1; k > 0; k-- {
		j := r.Intn(k + 1)
		order[k], order[j] = order[j], order[k]
	}
	for _, j := range order {
		rel, _ := filepath.Rel(filepath.Dir(g.p.paths[i]), g.p.paths[j])
		v := vendored[j] && i == 0
		ann := ""
		if v {
			ann = " (vendor)"
		}
		q := "\""
		if r.Chance(20) {
			q = "'"
		}
		g.p.items = append(g.p.items, c19Item{file: i, kind: "inc", inc: j, incName: g.syms[j].name, vendor: v,
			text: fmt.Sprintf("include %s%s%s%s\n", q, filepath.ToSlash(rel), q, ann)})
	}
	// declarations; symbols are registered before the bodies are written so that
	// forward references inside the file are possible
	nEnum, nStruct, nUnion, nExc := cnt(1, 3), cnt(2, 5), cnt(0, 2), cnt(1, 2)
	nTypedef, nConst, nSvc, nScope := cnt(1, 3), cnt(1, 4), cnt(1, 3), cnt(0, 3)
	if i == 0 && nScope == 0 {
		nScope = 1
	}
	var decls []c19Item
	me.enumVals = map[string][]string{}
	me.enumNums = map[string][]int{}
	for k := 0; k < nEnum; k++ {
		name := g.id("E")
		body := ""
		v := r.Intn(3)
		nv := 2 + r.Intn(5)
		if big && k == 0 {
			nv = 14
		}
		for q := 0; q < nv; q++ {
			vn := strings.ToUpper(c19Word(r, 1)) + strconv.Itoa(q)
			v += 1 + r.Intn(3)
			me.enumVals[name] = append(me.enumVals[name], vn)
			me.enumNums[name] = append(me.enumNums[name], v)
			body += g.doc(15, "    ") + fmt.Sprintf("    %s = %d%s,\n", vn, v, g.anns(10))
		}
		me.enums = append(me.enums, name)
		decls = append(decls, c19Item{file: i, kind: "enum", text: g.doc(30, "") + fmt.Sprintf("enum %s {\n%s}%s\n", name, body, g.anns(15))})
	}
	for k := 0; k < nTypedef; k++ {
		name := g.id("T")
		var t string
		switch r.Intn(4) {
		case 0:
			t = "list<" + c19Base[r.Intn(7)] + ">"
		case 1:
			t = "map<string, " + c19Base[r.Intn(7)] + ">"
		default:
			t = c19Base[r.Intn(len(c19Base))]
		}
		decls = append(decls, c19Item{file: i, kind: "typedef", text: fmt.Sprintf("typedef %s %s%s\n", t, name, g.anns(10))})
		me.typedefs = append(me.typedefs, name)
	}
	for k := 0; k < nConst; k++ {
		name := g.id("K")
		switch r.Intn(6) {
		case 0:
			decls = append(decls, c19Item{file: i, kind: "const", text: fmt.Sprintf("const string %s = \"%s\"\n", name, c19Word(r, 3))})
			me.sconsts = append(me.sconsts, name)
		case 1:
			decls = append(decls, c19Item{file: i, kind: "const", text: fmt.Sprintf("const list<i32> %s = [%d, %d, %d]\n", name, r.Intn(9), r.Intn(99), r.Intn(999))})
		case 2:
			// a map constant with many entries: its emission order must follow the source
			n := 3 + r.Intn(12)
			parts := []string{}
			for q := 0; q < n; q++ {
				parts = append(parts, fmt.Sprintf("\"%s%d\": %d", c19Word(r, 1), q, r.Intn(1000)))
			}
			decls = append(decls, c19Item{file: i, kind: "const", text: fmt.Sprintf("const map<string, i32> %s = {%s}\n", name, strings.Join(parts, ", "))})
		case 3:
			if len(me.enums) > 0 {
				e := me.enums[r.Intn(len(me.enums))]
				nums := me.enumNums[e] // (`const E K = E.V` is rejected by the parser's constant validation)
				decls = append(decls, c19Item{file: i, kind: "const", text: fmt.Sprintf("const %s %s = %d\n", e, name, nums[r.Intn(len(nums))])})
				break
			}
			fallthrough
		case 4:
			if len(tyIncs) > 0 {
				o := g.syms[tyIncs[r.Intn(len(tyIncs))]]
				if len(o.iconsts) > 0 {
					decls = append(decls, c19Item{file: i, kind: "const", text: fmt.Sprintf("const i32 %s = %s.%s\n", name, o.name, o.iconsts[r.Intn(len(o.iconsts))])})
					me.iconsts = append(me.iconsts, name)
					break
				}
			}
			fallthrough
		default:
			decls = append(decls, c19Item{file: i, kind: "const", text: fmt.Sprintf("const i32 %s = %d\n", name, r.Intn(100000)-500)})
			me.iconsts = append(me.iconsts, name)
		}
	}
	snames, unames, xnames := []string{}, []string{}, []string{}
	for k := 0; k < nStruct; k++ {
		snames = append(snames, g.id("S"))
	}
	for k := 0; k < nUnion; k++ {
		unames = append(unames, g.id("U"))
	}
	for k := 0; k < nExc; k++ {
		xnames = append(xnames, g.id("X"))
	}
	// structs may only reference structs declared before them (no recursive value types)
	for _, name := range snames {
		nf := 1 + r.Intn(6)
		if big && r.Chance(20) {
			nf = 14
		}
		decls = append(decls, c19Item{file: i, kind: "struct", text: g.doc(30, "") + fmt.Sprintf("struct %s {\n%s}%s\n", name, g.fields(me, tyIncs, nf, false), g.anns(20))})
		me.structs = append(me.structs, name)
	}
	if g.p.sib { // container-typed fields: their generated code numbers temporaries per generator object
		name := g.id("S")
		decls = append(decls, c19Item{file: i, kind: "struct", text: fmt.Sprintf("struct %s {\n    1: list<string> %s,\n    2: map<i32, list<i64>> %s,\n    3: set<string> %s,\n}\n", name, g.id("x"), g.id("x"), g.id("x"))})
		me.structs = append(me.structs, name)
	}
	for _, name := range unames {
		decls = append(decls, c19Item{file: i, kind: "union", text: fmt.Sprintf("union %s {\n%s}%s\n", name, g.fields(me, tyIncs, 2+r.Intn(4), true), g.anns(10))})
		me.unions = append(me.unions, name)
	}
	for _, name := range xnames {
		decls = append(decls, c19Item{file: i, kind: "exception", text: g.doc(20, "") + fmt.Sprintf("exception %s {\n%s}%s\n", name, g.fields(me, tyIncs, 1+r.Intn(3), false), g.anns(10))})
		me.excs = append(me.excs, name)
	}
	for k := 0; k < nSvc; k++ {
		name := g.id("Sv")
		ext := ""
		if r.Chance(60) {
			var cands []string
			cands = append(cands, me.services...)
			for _, j := range tyIncs {
				for _, s := range g.syms[j].services {
					cands = append(cands, g.syms[j].name+"."+s)
				}
			}
			if len(cands) > 0 {
				ext = " extends " + cands[r.Intn(len(cands))]
			}
		}
		nm := 1 + r.Intn(5)
		if big && k == 0 {
			nm = 13
		}
		body := ""
		for q := 0; q < nm; q++ {
			ret := "void"
			oneway := ""
			if r.Chance(12) {
				oneway = "oneway "
			} else if r.Chance(75) {
				ret = g.ty(me, tyIncs, 0)
			}
			args := []string{}
			na := r.Intn(4)
			for a := 0; a < na; a++ {
				args = append(args, fmt.Sprintf("%d: %s %s", a+1, g.ty(me, tyIncs, 0), g.id("x")))
			}
			throws := ""
			if oneway == "" && r.Chance(40) {
				var xs []string
				xs = append(xs, me.excs...)
				for _, j := range tyIncs {
					for _, x := range g.syms[j].excs {
						xs = append(xs, g.syms[j].name+"."+x)
					}
				}
				if len(xs) > 0 {
					nt := 1 + r.Intn(2)
					parts := []string{}
					for a := 0; a < nt; a++ {
						parts = append(parts, fmt.Sprintf("%d: %s %s", a+1, xs[r.Intn(len(xs))], g.id("x")))
					}
					throws = " throws (" + strings.Join(parts, ", ") + ")"
				}
			}
			body += g.doc(25, "    ") + fmt.Sprintf("    %s%s %s(%s)%s%s,\n", oneway, ret, g.id("m"), strings.Join(args, ", "), throws, g.anns(20))
		}
		decls = append(decls, c19Item{file: i, kind: "service", text: g.doc(30, "") + fmt.Sprintf("service %s%s {\n%s}%s\n", name, ext, body, g.anns(15))})
		me.services = append(me.services, name)
	}
	for k := 0; k < nScope; k++ {
		name := g.id("Sc")
		prefix := ""
		if r.Chance(70) {
			parts := []string{}
			for q := 0; q < 1+r.Intn(3); q++ {
				if r.Chance(40) {
					parts = append(parts, "{"+g.id("u")+"}")
				} else {
					parts = append(parts, c19Word(r, 1))
				}
			}
			prefix = " prefix " + strings.Join(parts, ".")
		}
		no := 1 + r.Intn(4)
		if big && k == 0 {
			no = 13
		}
		body := ""
		for q := 0; q < no; q++ {
			t := g.structTy(me, tyIncs)
			if r.Chance(15) {
				t = g.ty(me, tyIncs, 0)
			}
			body += g.doc(20, "    ") + fmt.Sprintf("    %s: %s%s\n", g.id("Op"), t, g.anns(10))
		}
		decls = append(decls, c19Item{file: i, kind: "scope", text: g.doc(30, "") + fmt.Sprintf("scope %s%s {\n%s}%s\n", name, prefix, body, g.anns(10))})
	}
	if g.p.cont && i == 0 {
		// one service and one scope per include; the include appears only inside a container:
		// list / set element, map key, map value, nested
		for k, j := range incs {
			o := g.syms[j]
			key := "i32"
			if len(o.enums) > 0 {
				key = o.name + "." + o.enums[0]
			} else if len(o.typedefs) > 0 {
				key = o.name + "." + o.typedefs[0]
			}
			val := "string"
			if len(o.structs) > 0 {
				val = o.name + "." + o.structs[0]
			}
			var t1, t2 string
			switch k % 5 {
			case 0:
				t1, t2 = "map<"+key+", string>", "map<"+key+", i64>" // map KEY only
			case 1:
				t1, t2 = "map<string, "+val+">", "list<"+val+">"
			case 2:
				t1, t2 = "set<"+key+">", "list<list<"+val+">>"
			case 3:
				t1, t2 = "map<i32, map<"+key+", list<string>>>", "map<"+key+", "+val+">"
			default:
				t1, t2 = "list<map<"+key+", string>>", "map<string, set<"+key+">>"
			}
			sv := g.id("Sv")
			decls = append(decls, c19Item{file: i, kind: "service", text: fmt.Sprintf("service %s {\n    %s %s(1: %s %s),\n    void %s(1: %s %s),\n}\n", sv, t2, g.id("m"), t1, g.id("x"), g.id("m"), t2, g.id("x"))})
			me.services = append(me.services, sv)
			decls = append(decls, c19Item{file: i, kind: "scope", text: fmt.Sprintf("scope %s prefix cont.{%s} {\n    %s: %s\n    %s: %s\n}\n", g.id("Sc"), g.id("u"), g.id("Op"), t1, g.id("Op"), t2)})
		}
	}
	// shuffle declaration order, except that a struct must follow the structs it may
	// contain by value: keep structs' relative order
	perm := make([]int, len(decls))
	for k := range perm {
		perm[k] = k
	}
	for k := len(perm) - 1; k > 0; k-- {
		j := r.Intn(k + 1)
		perm[k], perm[j] = perm[j], perm[k]
	}
	var structPos []int
	for pos, k := range perm {
		if decls[k].kind == "struct" {
			structPos = append(structPos, pos)
		}
	}
	var structIdx []int
	for k := range decls {
		if decls[k].kind == "struct" {
			structIdx = append(structIdx, k)
		}
	}
	for q, pos := range structPos {
		perm[pos] = structIdx[q]
	}
	for _, k := range perm {
		g.p.items = append(g.p.items, decls[k])
	}
}

var c19Dirs = []string{"", "", "sub1", "sub1/deep", "sub2", "lib/x", "lib/x/y", "vendor_idl"}

// c19Generate builds the program of a seed.  No two files have the same base
// name (known finding html-same-basename-modules is outside the generated class).
// program tokens: s = many-entries, t = small, u = many-entries with a repeated base name, v = small with one
func (p *c19Prog) seedToken() string {
	c := "s"
	switch {
	case p.cont:
		c = "x"
	case p.sib:
		c = "w"
	case p.small && p.dup:
		c = "v"
	case p.dup:
		c = "u"
	case p.small:
		c = "t"
	}
	return c + strconv.FormatUint(p.seed, 10)
}

func c19FromToken(tok string) (*c19Prog, bool) {
	if len(tok) < 2 || !strings.ContainsRune("stuvwx", rune(tok[0])) {
		return nil, false
	}
	seed, err := strconv.ParseUint(tok[1:], 10, 64)
	if err != nil {
		return nil, false
	}
	if tok[0] == 'w' {
		return c19GenerateSib(seed), true
	}
	if tok[0] == 'x' {
		return c19GenerateCont(seed), true
	}
	return c19GenerateKind(seed, tok[0] == 't' || tok[0] == 'v', tok[0] == 'u' || tok[0] == 'v'), true
}

func c19Generate(seed uint64) *c19Prog { return c19GenerateKind(seed, false, false) }

func c19GenerateSized(seed uint64, small bool) *c19Prog { return c19GenerateKind(seed, small, false) }

// c19GenerateSib: a small program spread over sibling directories a/ and b/ that include each other:
// the root a/main includes inner/f03 directly and b/f02, which includes ../a/inner/f03 (and a/f01
// likewise): files reached through DIFFERENT relative spellings, some climbing above the root's directory.
func c19GenerateSib(seed uint64) *c19Prog {
	p := c19GenerateKindSib(seed, true, false, true, false)
	return p
}

// c19GenerateCont: a small program whose root file mentions its includes only inside containers.
func c19GenerateCont(seed uint64) *c19Prog { return c19GenerateKindSib(seed, true, false, false, true) }

func c19GenerateKind(seed uint64, small, dup bool) *c19Prog {
	return c19GenerateKindSib(seed, small, dup, false, false)
}

func c19GenerateKindSib(seed uint64, small, dup, sib, cont bool) *c19Prog {
	r := NewRng(seed)
	g := &c19Gen{r: r, p: &c19Prog{seed: seed, small: small, dup: dup, sib: sib, cont: cont}}
	n := 14 + r.Intn(6)
	if small {
		n = 4 + r.Intn(2)
		if dup || sib {
			n = 5
		}
	}
	for i := 0; i < n; i++ {
		name := fmt.Sprintf("f%02d%s", i, c19Word(r, 1))
		if i == 0 {
			name = "main" + c19Word(r, 1)
		}
		ext := ".frugal"
		if i > 0 && r.Chance(25) {
			ext = ".thrift"
		}
		dir := c19Dirs[r.Intn(len(c19Dirs))]
		if i == 0 {
			dir = []string{"", "top", "top/idl"}[r.Intn(3)]
		}
		g.p.paths = append(g.p.paths, filepath.Join(dir, name+ext))
		g.syms = append(g.syms, &c19Syms{name: name})
	}
	if sib {
		for i, d := range []string{"a", "a", "b", "a/inner", "b/deep"} {
			g.p.paths[i] = filepath.Join(d, filepath.Base(g.p.paths[i]))
		}
	} else if !small {
		// some files of a big program live in (or below) the root file's directory and are included
		// from elsewhere as well: relative spellings that leave and re-enter that directory
		rootDir := filepath.Dir(g.p.paths[0])
		for i := 1; i < n; i++ {
			if r.Chance(20) {
				sub := []string{"", "inner"}[r.Intn(2)]
				g.p.paths[i] = filepath.Join(rootDir, sub, filepath.Base(g.p.paths[i]))
			}
		}
	}
	if dup { // the two last files get one base name, in different directories
		a, b := n-2, n-1
		g.syms[b].name = g.syms[a].name
		g.p.paths[a] = filepath.Join("dupa", g.syms[a].name+filepath.Ext(g.p.paths[a]))
		g.p.paths[b] = filepath.Join("dupb", "deeper", g.syms[b].name+filepath.Ext(g.p.paths[b]))
	}
	// include DAG: file i includes only files j > i; the root includes >= 12 files
	incs := make([][]int, n)
	nRoot := n - 1
	if !small {
		nRoot = 12 + r.Intn(n-12)
	}
	if nRoot > n-1 {
		nRoot = n - 1
	}
	perm := make([]int, 0, n-1)
	for j := 1; j < n; j++ {
		perm = append(perm, j)
	}
	for k := len(perm) - 1; k > 0; k-- {
		j := r.Intn(k + 1)
		perm[k], perm[j] = perm[j], perm[k]
	}
	incs[0] = append(incs[0], perm[:nRoot]...)
	included := map[int]bool{}
	for _, j := range incs[0] {
		included[j] = true
	}
	for i := 1; i < n; i++ {
		for j := i + 1; j < n; j++ {
			if r.Chance(22) || (!included[j] && i == j-1) {
				incs[i] = append(incs[i], j)
				included[j] = true
			}
		}
	}
	for j := 1; j < n; j++ { // everything is reachable
		if !included[j] {
			incs[0] = append(incs[0], j)
		}
	}
	if sib {
		has := func(l []int, x int) bool {
			for _, y := range l {
				if y == x {
					return true
				}
			}
			return false
		}
		for _, e := range [][2]int{{0, 1}, {0, 2}, {0, 3}, {2, 3}, {1, 4}, {2, 4}} {
			if !has(incs[e[0]], e[1]) {
				incs[e[0]] = append(incs[e[0]], e[1])
			}
		}
	}
	if dup {
		// no file may include both same-named files (validateIncludes rejects that; transitive is allowed):
		// the root includes a, file 1 includes b and not a, nobody else includes b
		a, b := n-2, n-1
		drop := func(l []int, x int) []int {
			out := l[:0:0]
			for _, y := range l {
				if y != x {
					out = append(out, y)
				}
			}
			return out
		}
		for i := range incs {
			incs[i] = drop(incs[i], b)
		}
		incs[1] = append(drop(incs[1], a), b)
		incs[0] = append(drop(incs[0], a), a)
		incs[0] = append(drop(incs[0], 1), 1)
	}
	vendored := map[int]bool{}
	for _, j := range incs[0] {
		if r.Chance(15) || (small && j == incs[0][0]) {
			vendored[j] = true
		}
	}
	big2 := 1 + r.Intn(n-1)
	for i := n - 1; i >= 0; i-- {
		g.genFile(i, incs[i], vendored, !small && (i == 0 || i == big2))
	}
	// items were appended from the last file to the first: order by file, stable
	sort.SliceStable(g.p.items, func(a, b int) bool { return g.p.items[a].file < g.p.items[b].file })
	return g.p
}

func c19AllKeep(p *c19Prog) []bool {
	k := make([]bool, len(p.items))
	for i := range k {
		k[i] = true
	}
	return k
}

// render returns the files (relative path -> text) reachable from the root
// through kept includes, and the include graph of those files.
func (p *c19Prog) render(keep []bool) (map[string]string, map[int][]c19Item) {
	text := map[int]string{}
	graph := map[int][]c19Item{}
	for i, it := range p.items {
		if i < len(keep) && !keep[i] {
			continue
		}
		text[it.file] += it.text
		if it.kind == "inc" {
			graph[it.file] = append(graph[it.file], it)
		} else if it.kind != "ns" {
			text[it.file] += "\n"
		}
	}
	reach := map[int]bool{}
	var visit func(i int)
	visit = func(i int) {
		if reach[i] {
			return
		}
		reach[i] = true
		for _, it := range graph[i] {
			visit(it.inc)
		}
	}
	visit(0)
	files := map[string]string{}
	g2 := map[int][]c19Item{}
	for i := range reach {
		files[p.paths[i]] = text[i]
		g2[i] = graph[i]
	}
	return files, g2
}

func c19GraphString(g map[int][]c19Item) string {
	idx := make([]int, 0, len(g))
	for i := range g {
		idx = append(idx, i)
	}
	sort.Ints(idx)
	parts := []string{}
	for _, i := range idx {
		incs := []string{}
		for _, it := range g[i] {
			v := "0"
			if it.vendor {
				v = "1"
			}
			incs = append(incs, fmt.Sprintf("%s.%d.%s", it.incName, it.inc, v))
		}
		s := "-"
		if len(incs) > 0 {
			s = strings.Join(incs, ",")
		}
		parts = append(parts, fmt.Sprintf("%d=%s", i, s))
	}
	return strings.Join(parts, ";")
}

// ---------------------------------------------------------------- running the compiler

func c19Frugal() string {
	if p := os.Getenv("VERIF_FRUGAL"); p != "" {
		return p
	}
	exe, err := os.Executable()
	if err == nil {
		p := filepath.Join(filepath.Dir(exe), "frugal")
		if _, err := os.Stat(p); err == nil {
			return p
		}
	}
	return "/verif/.build/frugal"
}

func c19VerifDir() string {
	if p := os.Getenv("VERIF_DIR"); p != "" {
		return p
	}
	exe, err := os.Executable()
	if err == nil {
		p := filepath.Dir(filepath.Dir(exe))
		if _, err := os.Stat(filepath.Join(p, "properties.jsonl")); err == nil {
			return p
		}
	}
	return "/verif"
}

func c19WriteTree(root string, files map[string]string) error {
	for name, text := range files {
		p := filepath.Join(root, name)
		if err := os.MkdirAll(filepath.Dir(p), 0o755); err != nil {
			return err
		}
		if err := os.WriteFile(p, []byte(text), 0o644); err != nil {
			return err
		}
	}
	return nil
}

// c19Hash walks an output directory: relative path -> sha256.
func c19Hash(out string) (map[string]string, error) {
	res := map[string]string{}
	err := filepath.Walk(out, func(path string, info os.FileInfo, err error) error {
		if err != nil {
			return err
		}
		if info.IsDir() {
			return nil
		}
		b, err := os.ReadFile(path)
		if err != nil {
			return err
		}
		rel, _ := filepath.Rel(out, path)
		h := sha256.Sum256(b)
		res[filepath.ToSlash(rel)] = hex.EncodeToString(h[:])
		return nil
	})
	return res, err
}

type c19Run struct {
	desc   string
	out    string // absolute output directory
	hashes map[string]string
	order  []string // source files in generation order (relative to the source root)
	err    string
}

// c19Layout: the variations of one repetition.
type c19Layout struct {
	srcSeen string // the source root as the compiler sees it (through a symlink), "" = src
	src     string // absolute source root
	cwd     string
	fileArg string
	outArg  string
	outAbs  string
	desc    string
}

// c19Layouts prepares source copies, working directories and output locations under base
// for R repetitions of one task.  Every repetition has a FRESH -out directory (goimports
// consults sibling files).  Besides neutral places the working directories include
// adversarial environments: inside a scratch Go module that declares look-alike packages
// (c19Adversarial fills it after the first run), the -out directory itself, a GOPATH-like
// tree with a vendor directory, a directory inside the frugal repository.
func c19Layouts(base string, rootRel string, files map[string]string, R int, tag string) ([]c19Layout, error) {
	kinds := make([]int, R)
	for i := range kinds {
		kinds[i] = i % c19NKinds
	}
	return c19LayoutsKinds(base, rootRel, files, kinds, tag)
}

// c19NKinds: number of layout kinds (cwd x spelling of the root path x -out)
const c19NKinds = 12

func c19LayoutsKinds(base string, rootRel string, files map[string]string, kinds []int, tag string) ([]c19Layout, error) {
	srcA := filepath.Join(base, "srcA", "p")
	srcB := filepath.Join(base, "elsewhere", "much", "deeper", "copy of sources")
	srcC := filepath.Join(base, "c")
	for _, s := range []string{srcA, srcB, srcC} {
		if _, err := os.Stat(s); err != nil {
			if err := c19WriteTree(s, files); err != nil {
				return nil, err
			}
		}
	}
	advMod := filepath.Join(base, "adv", "project")
	gopath := filepath.Join(base, "gopath")
	os.MkdirAll(filepath.Join(advMod, "cmd", "tool"), 0o755)
	os.WriteFile(filepath.Join(advMod, "go.mod"), []byte("module example.com/project\n\ngo 1.20\n"), 0o644)
	os.WriteFile(filepath.Join(advMod, "cmd", "tool", "main.go"), []byte("package main\n\nfunc main() {}\n"), 0o644)
	os.MkdirAll(filepath.Join(gopath, "src", "example.com", "proj"), 0o755)
	var ls []c19Layout
	for r, kind := range kinds {
		var l c19Layout
		fresh := filepath.Join(base, "o", tag, fmt.Sprintf("r%d", r))
		switch kind {
		case 0: // baseline: absolute everything, a cwd without any go.mod above it
			l.src, l.cwd = srcA, filepath.Join(base, "wd0")
			l.fileArg = filepath.Join(l.src, rootRel)
			l.outAbs = filepath.Join(fresh, "gen")
			l.outArg = l.outAbs
		case 1: // ADVERSARIAL: cwd inside a Go module with packages named like everything generated Go imports;
			// other absolute location of the sources, relative file argument with ..
			l.src, l.cwd = srcB, filepath.Join(advMod, "cmd", "tool")
			l.fileArg, _ = filepath.Rel(l.cwd, filepath.Join(l.src, rootRel))
			l.outAbs = filepath.Join(fresh, "other out")
			l.outArg = l.outAbs
		case 2: // cwd = the -out directory itself
			l.src = srcA
			l.outAbs = filepath.Join(fresh, "here")
			l.cwd = l.outAbs
			l.fileArg = filepath.Join(l.src, rootRel)
			l.outArg = "."
		case 3: // sources copy B, cwd = source root, relative file, -out relative
			l.src, l.cwd = srcB, srcB
			l.fileArg = rootRel
			l.outAbs = filepath.Join(fresh, "gen-inside")
			l.outArg, _ = filepath.Rel(l.cwd, l.outAbs)
		case 4: // cwd inside a GOPATH-like tree (src/<look-alike packages>, vendor/), -out a bare name below it
			l.src = srcC
			l.cwd = filepath.Join(gopath, "src", "example.com", "proj")
			l.fileArg = filepath.Join(l.src, rootRel)
			l.outArg = fmt.Sprintf("g%d", r)
			l.outAbs = filepath.Join(l.cwd, l.outArg)
		case 5: // cwd inside the frugal repository (the module the golden tests run in)
			l.src = srcA
			l.cwd = filepath.Join(c19RepoDir(), "compiler", "generator")
			l.fileArg = filepath.Join(l.src, rootRel)
			l.outAbs = filepath.Join(fresh, "from-repo")
			l.outArg = l.outAbs
		case 6: // the output directory lies inside a Go module; cwd = directory of the root file
			l.src = srcA
			l.cwd = filepath.Dir(filepath.Join(srcA, rootRel))
			l.fileArg = filepath.Base(rootRel)
			mod := filepath.Join(fresh, "mod")
			os.MkdirAll(mod, 0o755)
			os.WriteFile(filepath.Join(mod, "go.mod"), []byte("module example.com\n\ngo 1.20\n"), 0o644)
			l.outAbs = filepath.Join(mod, "gen")
			l.outArg, _ = filepath.Rel(l.cwd, l.outAbs)
		case 7: // adversarial module ROOT as cwd, -out below a sibling directory of the module
			l.src, l.cwd = srcC, advMod
			l.fileArg = filepath.Join(l.src, rootRel)
			l.outAbs = filepath.Join(fresh, "x", "y")
			l.outArg = l.outAbs
		// ---- spellings of the root path (the include cache, the cycle list and the table of generated
		// files are keyed by paths DERIVED from it)
		case 8: // from INSIDE the root file's directory, as ./name
			l.src = srcB
			l.cwd = filepath.Dir(filepath.Join(l.src, rootRel))
			l.fileArg = "." + string(filepath.Separator) + filepath.Base(rootRel)
			l.outAbs = filepath.Join(fresh, "dot")
			l.outArg = l.outAbs
		case 9: // from a SIBLING of the root file's directory (or of the source root): ../<dir>/name
			l.src = srcA
			rootDir := filepath.Dir(filepath.Join(l.src, rootRel))
			l.cwd = filepath.Join(filepath.Dir(rootDir), "zz sibling")
			l.fileArg = filepath.Join("..", filepath.Base(rootDir), filepath.Base(rootRel))
			l.outAbs = filepath.Join(fresh, "sib")
			l.outArg = l.outAbs
		case 10: // redundant components: <dir>/../<dir>/./name from the parent of the root file's directory
			l.src = srcC
			rootDir := filepath.Dir(filepath.Join(l.src, rootRel))
			l.cwd = filepath.Dir(rootDir)
			d := filepath.Base(rootDir)
			l.fileArg = d + "/../" + d + "/./" + filepath.Base(rootRel)
			l.outAbs = filepath.Join(fresh, "red")
			l.outArg, _ = filepath.Rel(l.cwd, l.outAbs)
		default: // through a symlinked directory: cwd = the root file's directory reached through the link
			l.src = srcA
			link := filepath.Join(base, "link to sources")
			if _, err := os.Lstat(link); err != nil {
				if err := os.Symlink(srcA, link); err != nil {
					link = srcA // no symlinks here: plain repetition from inside the directory
				}
			}
			l.srcSeen = link
			l.cwd = filepath.Dir(filepath.Join(link, rootRel))
			l.fileArg = filepath.Base(rootRel)
			l.outAbs = filepath.Join(fresh, "lnk")
			l.outArg = l.outAbs
		}
		l.desc = fmt.Sprintf("rep=%d cwd=%s file=%s out=%s", r, strings.TrimPrefix(l.cwd, base), strings.TrimPrefix(l.fileArg, base), strings.TrimPrefix(l.outArg, base))
		if err := os.MkdirAll(l.cwd, 0o755); err != nil {
			return nil, err
		}
		if err := os.MkdirAll(filepath.Dir(l.outAbs), 0o755); err != nil {
			return nil, err
		}
		ls = append(ls, l)
	}
	return ls, nil
}

func c19RepoDir() string {
	if p := os.Getenv("VERIF_REPO"); p != "" {
		return p
	}
	return "/repo"
}

// names generated Go may refer to without the harness having seen them in a first run
var c19AdvStatic = map[string][]string{
	"logrus": {"DebugLevel", "Warn", "Warnf", "Warning", "Warningf", "Debug", "Info", "Error", "Fields", "WithFields"},
	"thrift": {"ZERO", "PrependError", "TProtocol", "TStruct", "STRUCT", "STOP", "TException"},
	"frugal": {"FContext", "NewFContext", "FProtocol", "FScopeProvider", "Method", "ServiceMiddleware"},
	"golang": {"X"}, "context": {"Context", "Background"}, "fmt": {"Printf", "Sprintf", "Errorf", "Sprint"},
	"bytes": {"Equal", "Buffer"}, "errors": {"New"}, "sync": {"Mutex", "RWMutex"}, "time": {"Duration", "Now"},
	"log": {"Println", "Printf"}, "driver": {"Value"}, "strings": {"Join"}, "sort": {"Strings"}, "strconv": {"Itoa"},
	"math": {"MaxInt32"}, "reflect": {"DeepEqual"}, "json": {"Marshal"}, "io": {"EOF"},
}

// c19DerivePkgs reads the Go files a first run emitted: for every package name an import
// provides (alias or last path element) the exported selectors used on it, and for every
// generated package its name with its exported top-level names.
func c19DerivePkgs(out string) map[string]map[string]bool {
	pkgs := map[string]map[string]bool{}
	put := func(p, sym string) {
		if p == "" || p == "_" || p == "." {
			return
		}
		if pkgs[p] == nil {
			pkgs[p] = map[string]bool{}
		}
		if sym != "" && ast.IsExported(sym) {
			pkgs[p][sym] = true
		}
	}
	filepath.Walk(out, func(path string, info os.FileInfo, err error) error {
		if err != nil || info.IsDir() || !strings.HasSuffix(path, ".go") {
			return nil
		}
		f, err := goparser.ParseFile(token.NewFileSet(), path, nil, 0)
		if err != nil {
			return nil
		}
		names := map[string]bool{}
		for _, im := range f.Imports {
			pth, _ := strconv.Unquote(im.Path.Value)
			n := pth
			if i := strings.LastIndexByte(pth, '/'); i >= 0 {
				n = pth[i+1:]
			}
			if im.Name != nil {
				n = im.Name.Name
			}
			names[n] = true
			put(n, "")
		}
		ast.Inspect(f, func(nd ast.Node) bool {
			if se, ok := nd.(*ast.SelectorExpr); ok {
				// an imported name, or a name nothing in the file declares (a package whose import
				// goimports dropped or could not add, or a sibling file's variable: harmless extra)
				if id, ok := se.X.(*ast.Ident); ok && (names[id.Name] || id.Obj == nil) {
					put(id.Name, se.Sel.Name)
				}
			}
			return true
		})
		for _, d := range f.Decls {
			switch x := d.(type) {
			case *ast.FuncDecl:
				if x.Recv == nil {
					put(f.Name.Name, x.Name.Name)
				}
			case *ast.GenDecl:
				for _, sp := range x.Specs {
					switch y := sp.(type) {
					case *ast.TypeSpec:
						put(f.Name.Name, y.Name.Name)
					case *ast.ValueSpec:
						for _, n := range y.Names {
							put(f.Name.Name, n.Name)
						}
					}
				}
			}
		}
		return nil
	})
	return pkgs
}

// c19Adversarial declares, inside the scratch module and the GOPATH-like tree, a package for
// every name in pkgs (plus the static list) that exports every symbol generated code uses.
func c19Adversarial(base string, pkgs map[string]map[string]bool) {
	all := map[string]map[string]bool{}
	for p, syms := range c19AdvStatic {
		all[p] = map[string]bool{}
		for _, s := range syms {
			all[p][s] = true
		}
	}
	for p, syms := range pkgs {
		if all[p] == nil {
			all[p] = map[string]bool{}
		}
		for s := range syms {
			all[p][s] = true
		}
	}
	roots := []string{
		filepath.Join(base, "adv", "project"),
		filepath.Join(base, "gopath", "src"),
		filepath.Join(base, "gopath", "src", "example.com", "proj", "vendor"),
		filepath.Join(base, "gopath", "src", "example.com", "proj", "vendor", "github.com", "sirupsen"),
	}
	for p, syms := range all {
		if !token.IsIdentifier(p) || p == "main" {
			continue
		}
		names := make([]string, 0, len(syms))
		for s := range syms {
			names = append(names, s)
		}
		sort.Strings(names)
		src := "// look-alike package of the C19 determinism harness\npackage " + p + "\n\n"
		for _, s := range names {
			src += "var " + s + " int\n"
		}
		for _, root := range roots {
			d := filepath.Join(root, p)
			os.MkdirAll(d, 0o755)
			os.WriteFile(filepath.Join(d, p+".go"), []byte(src), 0o644)
		}
	}
}

func c19Exec(l c19Layout, gen string) c19Run {
	run := c19Run{desc: l.desc, out: l.outAbs}
	cmd := exec.Command(c19Frugal(), "-gen", gen, "-r", "-v", "-out", l.outArg, l.fileArg)
	cmd.Dir = l.cwd
	var so, se bytes.Buffer
	cmd.Stdout, cmd.Stderr = &so, &se
	done := make(chan error, 1)
	if err := cmd.Start(); err != nil {
		run.err = "start: " + err.Error()
		return run
	}
	go func() { done <- cmd.Wait() }()
	select {
	case err := <-done:
		if err != nil {
			msg := so.String()
			if i := strings.Index(msg, "Failed"); i >= 0 {
				msg = msg[i:]
			}
			if len(msg) > 300 {
				msg = msg[:300]
			}
			run.err = "exit: " + err.Error() + ": " + strings.TrimSpace(msg)
			return run
		}
	case <-time.After(120 * time.Second):
		cmd.Process.Kill()
		run.err = "timeout"
		return run
	}
	for _, line := range strings.Split(so.String(), "\n") {
		if strings.HasPrefix(line, "Generating ") {
			if i := strings.Index(line, " Frugal code for "); i >= 0 {
				f := line[i+len(" Frugal code for "):]
				seen := l.src
				if l.srcSeen != "" && strings.HasPrefix(f, l.srcSeen) {
					seen = l.srcSeen
				}
				rel, err := filepath.Rel(seen, f)
				if err != nil {
					rel = f
				}
				run.order = append(run.order, filepath.ToSlash(rel))
			}
		}
	}
	h, err := c19Hash(l.outAbs)
	if err != nil {
		run.err = "hash: " + err.Error()
	}
	run.hashes = h
	return run
}

var c19InProc sync.Mutex

// c19Compile runs compiler.Compile in this process (global compiler state is
// shared between all programs/targets compiled by this process).
func c19Compile(l c19Layout, gen string) c19Run {
	run := c19Run{desc: "in-process " + l.desc, out: l.outAbs}
	c19InProc.Lock()
	o := guard(120*time.Second, func() {
		err := compiler.Compile(compiler.Options{File: l.fileArg, Gen: gen, Out: l.outAbs, Delim: ".", Recurse: true})
		if err != nil {
			run.err = "compile: " + err.Error()
		}
	})
	c19InProc.Unlock()
	if o != "" {
		run.err = o
		return run
	}
	if run.err != "" {
		return run
	}
	h, err := c19Hash(l.outAbs)
	if err != nil {
		run.err = "hash: " + err.Error()
	}
	run.hashes = h
	return run
}

// c19Diff compares two runs; returns "" when identical, else the first
// differing file and a unified-diff style excerpt (<= 20 lines).
func c19Diff(a, b c19Run) (file, excerpt string) {
	names := map[string]bool{}
	for k := range a.hashes {
		names[k] = true
	}
	for k := range b.hashes {
		names[k] = true
	}
	keys := make([]string, 0, len(names))
	for k := range names {
		keys = append(keys, k)
	}
	sort.Strings(keys)
	for _, k := range keys {
		ha, oka := a.hashes[k]
		hb, okb := b.hashes[k]
		if oka && !okb {
			return k, "file emitted only by run A (" + a.desc + ")"
		}
		if !oka && okb {
			return k, "file emitted only by run B (" + b.desc + ")"
		}
		if ha != hb {
			ba, _ := os.ReadFile(filepath.Join(a.out, filepath.FromSlash(k)))
			bb, _ := os.ReadFile(filepath.Join(b.out, filepath.FromSlash(k)))
			return k, c19Excerpt(string(ba), string(bb))
		}
	}
	return "", ""
}

func c19Excerpt(a, b string) string {
	la, lb := strings.Split(a, "\n"), strings.Split(b, "\n")
	i := 0
	for i < len(la) && i < len(lb) && la[i] == lb[i] {
		i++
	}
	ea, eb := len(la), len(lb)
	for ea > i && eb > i && la[ea-1] == lb[eb-1] {
		ea--
		eb--
	}
	clipl := func(s string) string {
		if len(s) > 160 {
			return s[:160] + "..."
		}
		return s
	}
	out := []string{fmt.Sprintf("@@ -%d,%d +%d,%d @@", i+1, ea-i, i+1, eb-i)}
	for k := i - 2; k < i; k++ {
		if k >= 0 {
			out = append(out, " "+clipl(la[k]))
		}
	}
	for k := i; k < ea && len(out) < 11; k++ {
		out = append(out, "-"+clipl(la[k]))
	}
	for k := i; k < eb && len(out) < 20; k++ {
		out = append(out, "+"+clipl(lb[k]))
	}
	return strings.Join(out, "\n")
}

// ---------------------------------------------------------------- one task = (program, target, options)

// c19ParallelRuns: run the repetitions of one task concurrently (set outside the suite's
// worker pool, where the tasks themselves are the unit of parallelism).
var c19ParallelRuns = false

// c19Shrink removes items (scopes, services, constants, …, includes) one at a time while
// the same failure persists, within a time budget; cheap because a removal that breaks a
// reference just fails to compile.
func c19Shrink(p *c19Prog, keep []bool, gen string, what string, budget time.Duration) []bool {
	deadline := time.Now().Add(budget)
	cur := append([]bool{}, keep...)
	c19ParallelRuns = true
	defer func() { c19ParallelRuns = false }()
	fails := func(k []bool) bool {
		r := c19Task(p, k, gen, c19NKinds, false)
		return !r.ok && r.invalid == "" && r.what == what
	}
	kinds := []string{"scope", "service", "const", "union", "exception", "struct", "enum", "typedef", "inc", "ns"}
	try := func(sel func(i int) bool) {
		cand := append([]bool{}, cur...)
		n := 0
		for i := range cand {
			if cand[i] && sel(i) {
				cand[i] = false
				n++
			}
		}
		if n > 0 && !time.Now().After(deadline) && fails(cand) {
			cur = cand
		}
	}
	// coarse: every item of a kind at once, then per (kind, file), then one by one
	for _, kind := range kinds {
		try(func(i int) bool { return p.items[i].kind == kind })
	}
	for _, kind := range kinds {
		for f := len(p.paths) - 1; f >= 0; f-- {
			try(func(i int) bool { return p.items[i].kind == kind && p.items[i].file == f })
		}
	}
	for _, kind := range kinds {
		for i := len(p.items) - 1; i >= 0; i-- {
			if time.Now().After(deadline) {
				return cur
			}
			if cur[i] && p.items[i].kind == kind {
				try(func(j int) bool { return j == i })
			}
		}
	}
	return cur
}

var c19ModRe = regexp.MustCompile(`<td><a href="([^"#]+)\.html">`)

type c19Result struct {
	ok      bool   // property held
	invalid string // compile failed (same way in all runs): not a determinism statement
	what    string
	detail  map[string]interface{}
	order   string // canonical real generation order of run 0 ("ok 0,3,1")
	orders  []string
	mods    []string // html: module order of index.html per run (canonical)
	runs    int
}

func c19KeepString(keep []bool) string {
	parts := []string{}
	for i, k := range keep {
		if k {
			parts = append(parts, strconv.Itoa(i))
		}
	}
	if len(parts) == 0 {
		return "."
	}
	return strings.Join(parts, ",")
}

func c19ParseKeep(s string, n int) []bool {
	keep := make([]bool, n)
	if s == "all" {
		for i := range keep {
			keep[i] = true
		}
		return keep
	}
	for _, t := range strings.Split(s, ",") {
		if i, err := strconv.Atoi(t); err == nil && i >= 0 && i < n {
			keep[i] = true
		}
	}
	return keep
}

// c19Task compiles one (program, keep, cfg) R times under varying layouts and
// evaluates the property.  inproc adds in-process repetitions.
func c19Task(p *c19Prog, keep []bool, gen string, R int, inproc bool) c19Result {
	files, _ := p.render(keep)
	return c19TaskFiles(p, files, gen, R, inproc, fmt.Sprintf("c19det %s %s %d %s", p.seedToken(), gen, R, c19KeepString(keep)))
}

// c19TaskKinds: as c19Task with an explicit choice of layouts (the replay line asks for all 8).
func c19TaskKinds(p *c19Prog, keep []bool, gen string, kinds []int, inproc bool) c19Result {
	files, _ := p.render(keep)
	return c19TaskFiles(p, files, gen, -1, inproc, fmt.Sprintf("c19det %s %s %d %s", p.seedToken(), gen, c19NKinds, c19KeepString(keep)), kinds...)
}


func c19ReadTree(dir string) map[string]string {
	files := map[string]string{}
	filepath.Walk(dir, func(path string, info os.FileInfo, err error) error {
		if err == nil && !info.IsDir() && (strings.HasSuffix(path, ".frugal") || strings.HasSuffix(path, ".thrift")) {
			b, e := os.ReadFile(path)
			if e == nil {
				rel, _ := filepath.Rel(dir, path)
				files[filepath.ToSlash(rel)] = string(b)
			}
		}
		return nil
	})
	return files
}

func c19TaskFiles(p *c19Prog, files map[string]string, gen string, R int, inproc bool, line string, kinds ...int) c19Result {
	res := c19Result{detail: map[string]interface{}{}}
	base, err := os.MkdirTemp("", "verif-c19-")
	if err != nil {
		res.invalid = "mkdtemp: " + err.Error()
		return res
	}
	defer os.RemoveAll(base)
	var layouts []c19Layout
	if len(kinds) > 0 {
		layouts, err = c19LayoutsKinds(base, p.paths[0], files, kinds, "t")
	} else {
		layouts, err = c19Layouts(base, p.paths[0], files, R, "t")
	}
	if err != nil {
		res.invalid = "layout: " + err.Error()
		return res
	}
	runs := make([]c19Run, len(layouts), len(layouts)+1)
	runs[0] = c19Exec(layouts[0], gen)
	// the adversarial environments are built from what the first run emitted
	derived := map[string]map[string]bool{}
	if strings.HasPrefix(gen, "go") && runs[0].err == "" {
		derived = c19DerivePkgs(layouts[0].outAbs)
	}
	c19Adversarial(base, derived)
	if strings.HasPrefix(gen, "go") && runs[0].err == "" {
		if bad := c19UnimportedRefs(layouts[0].outAbs); len(bad) > 0 {
			res.runs = 1
			res.detail["line"] = line
			res.detail["target"] = gen
			res.what = "c19: emitted Go refers to a package it does not import — the import is left for goimports to find around the working directory: target=" + gen
			if len(bad) > 5 {
				bad = bad[:5]
			}
			res.detail["unimported"] = bad
			res.detail["run_a"] = runs[0].desc
			if len(files) <= 6 {
				res.detail["program"] = files
			}
			return res
		}
	}
	if c19ParallelRuns || (strings.HasPrefix(gen, "go") && !p.small) { // replays, shrinking, and the slow big-program go tasks: the R processes side by side
		var wg sync.WaitGroup
		for i := range layouts {
			if i == 0 {
				continue
			}
			wg.Add(1)
			go func(i int) {
				defer wg.Done()
				runs[i] = c19Exec(layouts[i], gen)
			}(i)
		}
		wg.Wait()
	} else {
		for i, l := range layouts {
			if i > 0 {
				runs[i] = c19Exec(l, gen)
			}
		}
	}
	if inproc {
		l := layouts[0]
		l.outAbs = filepath.Join(base, "o", "t", "inproc", "gen")
		l.desc = "rep=in-process"
		os.MkdirAll(filepath.Dir(l.outAbs), 0o755)
		runs = append(runs, c19Compile(l, gen))
	}
	res.runs = len(runs)
	res.detail["line"] = line
	res.detail["target"] = gen
	res.detail["program_seed"] = p.seed
	// compile failures: the same failure everywhere is an invalid program (generator
	// problem, counted), a failure in some runs only is a violation
	nerr := 0
	for _, r := range runs {
		if r.err != "" {
			nerr++
		}
	}
	if nerr == len(runs) {
		res.invalid = runs[0].err
		res.ok = true
		return res
	}
	if nerr > 0 {
		for _, r := range runs {
			if r.err != "" {
				res.what = "c19: compilation fails in some runs only: target=" + gen
				res.detail["failing_run"] = r.desc
				res.detail["error"] = r.err
				break
			}
		}
		return res
	}
	idxOf := map[string]int{}
	for i, pth := range p.paths {
		idxOf[filepath.ToSlash(pth)] = i
	}
	canon := func(order []string) string {
		parts := []string{}
		for _, f := range order {
			if i, ok := idxOf[f]; ok {
				parts = append(parts, strconv.Itoa(i))
			} else {
				parts = append(parts, "?"+f)
			}
		}
		if len(parts) == 0 {
			return "ok ."
		}
		return "ok " + strings.Join(parts, ",")
	}
	res.order = canon(runs[0].order)
	for _, r := range runs[1:] {
		if len(r.order) > 0 {
			if o := canon(r.order); o != res.order {
				res.orders = append(res.orders, o)
			}
		}
	}
	if strings.HasPrefix(gen, "html") {
		seen := map[string]bool{}
		for _, r := range runs {
			if b, err := os.ReadFile(filepath.Join(r.out, "index.html")); err == nil {
				names := []string{}
				for _, m := range c19ModRe.FindAllStringSubmatch(string(b), -1) {
					names = append(names, m[1])
				}
				o := "ok ."
				if len(names) > 0 {
					o = "ok " + strings.Join(names, ",")
				}
				if !seen[o] {
					seen[o] = true
					res.mods = append(res.mods, o)
				}
			}
		}
	}
	for _, r := range runs[1:] {
		if p.dup && strings.HasPrefix(gen, "html") {
			// recorded finding html-same-basename-modules: exactly index.html of a program with a
			// repeated base name is outside the comparison; every other file, every other target is in
			delete(runs[0].hashes, "index.html")
			delete(r.hashes, "index.html")
		}
		if f, ex := c19Diff(runs[0], r); f != "" {
			res.what = "c19: emitted files differ between runs of the same program and options: target=" + gen
			res.detail["first_differing_file"] = f
			res.detail["diff"] = ex
			res.detail["run_a"] = runs[0].desc
			res.detail["run_b"] = r.desc
			if len(files) <= 6 {
				res.detail["program"] = files
			} else {
				res.detail["program_files"] = len(files)
			}
			return res
		}
	}
	// no absolute scratch location may leak into the text (location independence,
	// checked directly as well: a leak that is the same in all runs cannot happen
	// because the locations differ, but a leak of the -out *argument* could)
	res.ok = true
	return res
}


// ---------------------------------------------------------------- output-directory history

// The directory given as -out may already hold output: of the same program with other options
// of the same target, of a superset / subset of the program, of another target, of the very same
// compile.  ORACLE: every file the compile writes into a FRESH directory is written byte-identically
// into the used one (exactly the paths of the fresh result are compared; files the compile does
// not write may remain).

var c19SiblingGens = map[string][]string{
	"go": {"go:slim", "go"}, "java": {"java:async,boxed_primitives", "java"}, "dart": {"dart:use_enums", "dart"},
	"py": {"py:tornado", "py:asyncio", "py"}, "json": {"json:indent", "json"}, "html": {"html:standalone", "html"},
}
var c19OtherTarget = map[string]string{"go": "java", "java": "go", "dart": "py:tornado", "py": "dart", "json": "html", "html": "json"}

var c19HistVariants = []string{"opts", "sup", "sub", "target", "twice"}

// c19GoModuleGen: the -gen value a Go user of module example.com/project generating into ./gen would use.
func c19GoModuleGen(gen string) string {
	lang, opts := c19Lang(gen)
	var keep []string
	if opts != "-" {
		for _, o := range strings.Split(opts, ",") {
			if !strings.HasPrefix(o, "package_prefix") {
				keep = append(keep, o)
			}
		}
	}
	keep = append(keep, "package_prefix=example.com/project/gen/")
	return lang + ":" + strings.Join(keep, ",")
}

// c19GoModule: the realistic layout of a Go user — cwd = the root of a Go module, `-r -out gen` inside
// it, package_prefix = <module path>/gen/ — compiled TWICE without cleaning, and once in a fresh copy
// of the module: run 1 = run 2 = fresh (goimports resolves unresolved packages from the module around
// the cwd, where the first run has just put the generated packages).
func c19GoModule(p *c19Prog, keep []bool, gen string) c19Result {
	res := c19Result{detail: map[string]interface{}{}}
	res.detail["line"] = fmt.Sprintf("c19hist %s %s gomodule %s", p.seedToken(), gen, c19KeepString(keep))
	res.detail["target"] = gen
	res.detail["history"] = "gomodule"
	mgen := c19GoModuleGen(gen)
	res.detail["compiled_as"] = "cd <module example.com/project>; frugal -gen " + mgen + " -r -out gen <root>   (twice, and once in a fresh copy of the module)"
	base, err := os.MkdirTemp("", "verif-c19m-")
	if err != nil {
		res.invalid = err.Error()
		return res
	}
	defer os.RemoveAll(base)
	files, _ := p.render(keep)
	src := filepath.Join(base, "idl")
	c19WriteTree(src, files)
	run := func(mod string) c19Run {
		os.MkdirAll(mod, 0o755)
		if _, err := os.Stat(filepath.Join(mod, "go.mod")); err != nil {
			os.WriteFile(filepath.Join(mod, "go.mod"), []byte("module example.com/project\n\ngo 1.20\n"), 0o644)
			os.WriteFile(filepath.Join(mod, "main.go"), []byte("package main\n\nfunc main() {}\n"), 0o644)
		}
		return c19Exec(c19Layout{src: src, cwd: mod, fileArg: filepath.Join(src, p.paths[0]), outArg: "gen", outAbs: filepath.Join(mod, "gen"), desc: "cwd=module root out=gen"}, mgen)
	}
	modA, modB := filepath.Join(base, "work", "project"), filepath.Join(base, "fresh", "project")
	r1 := run(modA)
	h1 := r1.hashes
	// keep a copy of run 1's tree for the diff excerpt
	first := filepath.Join(base, "run1copy")
	if r1.err == "" {
		for k := range h1 {
			b, _ := os.ReadFile(filepath.Join(r1.out, filepath.FromSlash(k)))
			os.MkdirAll(filepath.Dir(filepath.Join(first, filepath.FromSlash(k))), 0o755)
			os.WriteFile(filepath.Join(first, filepath.FromSlash(k)), b, 0o644)
		}
	}
	r2 := run(modA)
	r3 := run(modB)
	res.runs = 3
	if r1.err != "" && r2.err != "" && r3.err != "" {
		res.invalid = r1.err
		res.ok = true
		return res
	}
	r1.out, r1.desc = first, "run 1 (module tree without generated code)"
	r2.desc, r3.desc = "run 2 (same command, tree kept)", "fresh copy of the module, one run"
	for _, pr := range [][2]c19Run{{r1, r2}, {r1, r3}} {
		if pr[0].err != pr[1].err {
			res.what = "c19: compilation fails in some runs only: target=" + gen + " history=gomodule"
			res.detail["error"] = pr[0].err + pr[1].err
			return res
		}
		if f, ex := c19Diff(pr[0], pr[1]); f != "" {
			res.what = "c19: a file written into an -out directory that already held output differs from the fresh-directory result: target=" + gen + " history=gomodule"
			res.detail["first_differing_file"] = f
			res.detail["diff"] = ex
			res.detail["run_a"], res.detail["run_b"] = pr[0].desc, pr[1].desc
			if len(files) <= 6 {
				res.detail["program"] = files
			}
			return res
		}
	}
	res.ok = true
	return res
}

// c19UnimportedRefs: Go files under out that refer to `pkg.Name` without importing a package pkg
// (and without pkg being declared anywhere in the file's package): the import was left for goimports
// to find around the working directory — location-dependent by construction, whatever goimports found.
func c19UnimportedRefs(out string) []string {
	type gofile struct {
		path string
		f    *ast.File
	}
	byDir := map[string][]gofile{}
	filepath.Walk(out, func(path string, info os.FileInfo, err error) error {
		if err != nil || info.IsDir() || !strings.HasSuffix(path, ".go") {
			return nil
		}
		if f, err := goparser.ParseFile(token.NewFileSet(), path, nil, 0); err == nil {
			byDir[filepath.Dir(path)] = append(byDir[filepath.Dir(path)], gofile{path, f})
		}
		return nil
	})
	var bad []string
	for _, fs := range byDir {
		declared := map[string]bool{}
		for _, gf := range fs {
			for name := range gf.f.Scope.Objects {
				declared[name] = true
			}
		}
		for _, gf := range fs {
			names := map[string]bool{}
			for _, im := range gf.f.Imports {
				pth, _ := strconv.Unquote(im.Path.Value)
				n := pth
				if i := strings.LastIndexByte(pth, '/'); i >= 0 {
					n = pth[i+1:]
				}
				if im.Name != nil {
					n = im.Name.Name
				}
				names[n] = true
			}
			seen := map[string]bool{}
			ast.Inspect(gf.f, func(nd ast.Node) bool {
				if se, ok := nd.(*ast.SelectorExpr); ok {
					if id, ok := se.X.(*ast.Ident); ok && id.Obj == nil && !names[id.Name] && !declared[id.Name] && !seen[id.Name] {
						seen[id.Name] = true
						rel, _ := filepath.Rel(out, gf.path)
						bad = append(bad, filepath.ToSlash(rel)+": "+id.Name+"."+se.Sel.Name)
					}
				}
				return true
			})
		}
	}
	sort.Strings(bad)
	return bad
}


// c19SubsetKeep drops the last service and the last scope of the root file (nothing refers to them).
func c19SubsetKeep(p *c19Prog, keep []bool) []bool {
	sub := append([]bool{}, keep...)
	for _, kind := range []string{"service", "scope"} {
		for i := len(p.items) - 1; i >= 0; i-- {
			if sub[i] && p.items[i].file == 0 && p.items[i].kind == kind {
				sub[i] = false
				break
			}
		}
	}
	return sub
}

func c19CompileInto(base, src, rootRel, gen, out string) c19Run {
	cwd := filepath.Join(base, "wd0")
	os.MkdirAll(cwd, 0o755)
	os.MkdirAll(filepath.Dir(out), 0o755)
	return c19Exec(c19Layout{src: src, cwd: cwd, fileArg: filepath.Join(src, rootRel), outArg: out, outAbs: out, desc: "out=" + strings.TrimPrefix(out, base)}, gen)
}

// c19History runs one history variant of (program, keep, gen).
func c19History(p *c19Prog, keep []bool, gen, variant string) c19Result {
	if variant == "gomodule" {
		if !strings.HasPrefix(gen, "go") {
			return c19Result{invalid: "bad variant", detail: map[string]interface{}{}}
		}
		return c19GoModule(p, keep, gen)
	}
	res := c19Result{detail: map[string]interface{}{}}
	line := fmt.Sprintf("c19hist %s %s %s %s", p.seedToken(), gen, variant, c19KeepString(keep))
	res.detail["line"] = line
	res.detail["target"] = gen
	res.detail["history"] = variant
	lang, _ := c19Lang(gen)
	base, err := os.MkdirTemp("", "verif-c19h-")
	if err != nil {
		res.invalid = err.Error()
		return res
	}
	defer os.RemoveAll(base)
	full, _ := p.render(keep)
	subKeep := c19SubsetKeep(p, keep)
	sub, _ := p.render(subKeep)
	srcFull, srcSub := filepath.Join(base, "full"), filepath.Join(base, "sub")
	c19WriteTree(srcFull, full)
	c19WriteTree(srcSub, sub)
	// main = what is compiled last (and, alone, into the fresh directory); pre = what the directory holds before
	mainSrc, mainGen, preSrc, preGen, desc := srcFull, gen, srcFull, gen, ""
	switch variant {
	case "opts":
		for _, g := range c19SiblingGens[lang] {
			if g != gen {
				preGen = g
				break
			}
		}
		desc = "the same program compiled with -gen " + preGen
	case "sup":
		mainSrc = srcSub
		desc = "a superset of the program (one more service and scope in the root file), same options"
	case "sub":
		preSrc = srcSub
		desc = "a subset of the program (one service and one scope of the root file less), same options"
	case "target":
		preGen = c19OtherTarget[lang]
		desc = "the same program compiled with -gen " + preGen
	case "twice":
		desc = "the same compile"
	default:
		res.invalid = "bad variant"
		return res
	}
	res.detail["directory_held"] = desc
	fresh := c19CompileInto(base, mainSrc, p.paths[0], mainGen, filepath.Join(base, "fresh", "gen"))
	used := filepath.Join(base, "used", "gen")
	pre := c19CompileInto(base, preSrc, p.paths[0], preGen, used)
	res.runs = 3
	if fresh.err != "" || pre.err != "" {
		res.invalid = "does not compile: " + fresh.err + pre.err
		res.ok = true
		return res
	}
	again := c19CompileInto(base, mainSrc, p.paths[0], mainGen, used)
	if again.err != "" {
		res.what = "c19: compiling into a directory that already holds output fails: target=" + gen + " history=" + variant
		res.detail["error"] = again.err
		return res
	}
	keys := make([]string, 0, len(fresh.hashes))
	for k := range fresh.hashes {
		keys = append(keys, k)
	}
	sort.Strings(keys)
	for _, k := range keys {
		if again.hashes[k] != fresh.hashes[k] {
			res.what = "c19: a file written into an -out directory that already held output differs from the fresh-directory result: target=" + gen + " history=" + variant
			res.detail["first_differing_file"] = k
			if _, ok := again.hashes[k]; !ok {
				res.detail["diff"] = "file not written"
			} else {
				a, _ := os.ReadFile(filepath.Join(fresh.out, filepath.FromSlash(k)))
				b, _ := os.ReadFile(filepath.Join(again.out, filepath.FromSlash(k)))
				res.detail["diff"] = c19Excerpt(string(a), string(b))
			}
			if len(full) <= 6 {
				res.detail["program"] = full
			}
			return res
		}
	}
	res.ok = true
	return res
}

// ---------------------------------------------------------------- known finding: html-same-basename-modules

var c19WitnessEmbedded = map[string]string{
	"main.frugal":     "include \"a/x.frugal\"\ninclude \"b/y.frugal\"\n\nstruct Main {\n    1: x.XS fromX,\n    2: y.YS fromY\n}\n",
	"a/x.frugal":      "include \"common.frugal\"\n\nstruct XS {\n    1: common.CA c\n}\n",
	"b/y.frugal":      "include \"common.frugal\"\n\nstruct YS {\n    1: common.CB c\n}\n",
	"a/common.frugal": "struct CA {\n    1: i32 a\n}\n",
	"b/common.frugal": "struct CB {\n    1: string b\n}\n",
}

const c19KnownID = "html-same-basename-modules"
const c19KnownWhat = "html generator: index.html lists two transitively included files with the same base name (a/common.frugal, b/common.frugal) in Go map iteration order (unstable sort by base name over map values): index.html differs between runs"

func c19Witness() map[string]string {
	files := c19ReadTree(filepath.Join(c19VerifDir(), "known", "c19_same_basename"))
	if _, ok := files["main.frugal"]; !ok {
		Stat("known-witness-dir-missing-used-embedded")
		return c19WitnessEmbedded
	}
	return files
}

// c19ReplayKnown compiles the witness N times with the html target; it reports
// whether index.html varied and whether anything ELSE varied (that would be a
// violation outside the finding).
func c19ReplayKnown(N int) (varies bool, other string) {
	files := c19Witness()
	base, err := os.MkdirTemp("", "verif-c19k-")
	if err != nil {
		return false, ""
	}
	defer os.RemoveAll(base)
	layouts, err := c19Layouts(base, "main.frugal", files, N, "k")
	if err != nil {
		return false, ""
	}
	runs := make([]c19Run, N)
	var wg sync.WaitGroup
	sem := make(chan struct{}, c19Workers())
	for i := range layouts {
		wg.Add(1)
		go func(i int) {
			defer wg.Done()
			sem <- struct{}{}
			runs[i] = c19Exec(layouts[i], "html")
			<-sem
		}(i)
	}
	wg.Wait()
	for _, r := range runs[1:] {
		if r.err != "" || runs[0].err != "" {
			return false, "witness does not compile: " + r.err + runs[0].err
		}
		for k, h := range runs[0].hashes {
			if r.hashes[k] != h {
				if k == "index.html" {
					varies = true
				} else {
					other = k
				}
			}
		}
		if len(r.hashes) != len(runs[0].hashes) {
			other = "(set of files)"
		}
	}
	return varies, other
}

// ---------------------------------------------------------------- suite

func c19Workers() int {
	w := runtime.NumCPU() - 2
	if w < 2 {
		w = 2
	}
	if w > 14 {
		w = 14
	}
	return w
}

func c19R() int {
	if v, err := strconv.Atoi(os.Getenv("VERIF_C19_R")); err == nil && v >= 2 {
		return v
	}
	return 0
}

func runC19(r *Rng, n int) {
	c19Setup()
	// n encodes the tier: quick passes a small n, thorough a larger one
	R := 4
	if n >= 10 {
		R = 12
	}
	if v := c19R(); v > 0 {
		R = v
	}
	// 1. known finding first
	if varies, other := c19ReplayKnown(32); other != "" {
		OracleFail("c19: the known-finding witness differs in more than index.html: "+other, map[string]interface{}{"witness": "known/c19_same_basename", "file": other})
	} else if varies {
		Known(c19KnownID, c19KnownWhat)
		Stat("known:html-same-basename-modules-still-varies")
	} else {
		Stat("known:html-same-basename-modules-not-observed")
	}
	// 2. census tie (census19.go)
	c19CensusCases()
	// 3. generated programs: big (many entries per map-like collection) programs for the base
	// configurations, small ones for the sweep over every option alone and every option pair
	type task struct {
		p     *c19Prog
		gen   string
		R     int
		inpro bool
		kinds []int // explicit layouts (sweep); nil = the first R
		hist  string // output-directory history variant (c19History) instead of the layout runs
	}
	var tasks []task
	nSmall := n / 4
	if nSmall < 1 {
		nSmall = 1
	}
	nBig := n - nSmall
	if nBig < 1 {
		nBig = 1
	}
	sweep := c19SweepGens()
	// quick: every sweep configuration from the neutral cwd, from inside the adversarial module and
	// from two more places in rotation; thorough: all eight layouts
	rot := [][]int{{2, 4}, {5, 3}, {4, 7}, {2, 5}, {6, 4}, {5, 2}}
	for i := 0; i < nBig+nSmall; i++ {
		small := i >= nBig
		p := c19GenerateSized(r.U64(), small)
		files, _ := p.render(c19AllKeep(p))
		kind := "programs-big"
		if small {
			kind = "programs-small"
		}
		Stat(kind)
		StatN(kind+"-files", len(files))
		StatN(kind+"-items", len(p.items))
		for _, it := range p.items {
			Stat("item:" + it.kind)
		}
		if i == 0 || i == nBig {
			Sample(map[string]interface{}{"program": p.seedToken(), "files": len(files), "items": len(p.items), "root": p.paths[0], "root_head": clipStr(files[p.paths[0]], 400)})
		}
		if small {
			for k, g := range sweep {
				kinds := []int{0, 1, 2, 3, 4, 5, 6, 7, 8, 9, 10, 11}
				if R <= 8 {
					kinds = append([]int{0, 1}, rot[k%len(rot)]...)
				}
				tasks = append(tasks, task{p, g, len(kinds), R > 8, kinds, ""})
			}
		} else {
			for k, g := range c19BaseGens {
				// quick: the first big program gets every base configuration, the others every second one
				if R <= 8 && i > 0 && (k+i)%2 != 0 {
					continue
				}
				var kinds []int
				if R <= 8 {
					kinds = []int{0, 1, 2, 3, 6}
				}
				tasks = append(tasks, task{p, g, R, i == 0 || R > 8, kinds, ""})
			}
		}
	}
	// programs with a repeated base name (two files in different directories, never included by one
	// file): every base configuration of every target, with repetition
	nDup := 1
	if R > 8 {
		nDup = 3
	}
	for i := 0; i < nDup; i++ {
		p := c19GenerateKind(r.U64(), !(R > 8 && i == 0), true)
		Stat("programs-repeated-basename")
		for _, g := range c19BaseGens {
			tasks = append(tasks, task{p, g, 6, R > 8, nil, ""})
		}
	}
	// sibling directories with diamonds reached through different relative spellings: every base
	// configuration, from every spelling of the root path
	nSib := 1
	if R > 8 {
		nSib = 3
	}
	for i := 0; i < nSib; i++ {
		p := c19GenerateSib(r.U64())
		Stat("programs-sibling-diamond")
		for _, g := range c19BaseGens {
			tasks = append(tasks, task{p, g, 8, R > 8, []int{0, 6, 8, 9, 10, 11, 3, 1}, ""})
		}
	}
	// includes mentioned only inside containers of method / operation types: every base configuration,
	// and for every go option set (alone and in pairs) the Go user's module layout, compiled twice
	nCont := 1
	if R > 8 {
		nCont = 2
	}
	for i := 0; i < nCont; i++ {
		p := c19GenerateCont(r.U64())
		Stat("programs-container-only-includes")
		for _, g := range c19BaseGens {
			tasks = append(tasks, task{p, g, 4, R > 8, []int{0, 1, 6, 3}, ""})
		}
		for _, g := range sweep {
			if strings.HasPrefix(g, "go") {
				tasks = append(tasks, task{p, g, 0, false, nil, "gomodule"})
			}
		}
	}
	// output-directory history: the small programs (thorough: and one big one) for every base configuration
	for _, t := range append([]task{}, tasks...) {
		if t.hist == "" && t.p.small && !t.p.dup && !t.p.sib && !t.p.cont && t.gen == sweep[0] { // one marker task per small program
			for _, g := range c19BaseGens {
				for _, v := range c19HistVariants {
					tasks = append(tasks, task{t.p, g, 0, false, nil, v})
				}
			}
		}
	}
	if R > 8 {
		for _, g := range c19BaseGens {
			for _, v := range c19HistVariants {
				tasks = append(tasks, task{tasks[0].p, g, 0, false, nil, v})
			}
		}
	}
	// the slow target first (shorter critical path)
	sort.SliceStable(tasks, func(a, b int) bool {
		ga, gb := strings.HasPrefix(tasks[a].gen, "go"), strings.HasPrefix(tasks[b].gen, "go")
		if ga != gb {
			return ga
		}
		return !tasks[a].p.small && tasks[b].p.small
	})
	var wg sync.WaitGroup
	var failMu sync.Mutex
	var failed []task
	ch := make(chan task)
	for w := 0; w < c19Workers(); w++ {
		wg.Add(1)
		go func() {
			defer wg.Done()
			for t := range ch {
				keep := c19AllKeep(t.p)
				if t.hist != "" {
					res := c19History(t.p, keep, t.gen, t.hist)
					Stat("evaluations")
					Stat("history:" + t.hist)
					StatN("compiler-runs", res.runs)
					if res.invalid != "" {
						Stat("history-invalid")
						continue
					}
					out := "ok same"
					if !res.ok {
						out = "ok differ"
						OracleFail(res.what, res.detail)
					}
					Case(res.detail["line"].(string), out)
					continue
				}
				var res c19Result
				if len(t.kinds) > 0 {
					res = c19TaskKinds(t.p, keep, t.gen, t.kinds, t.inpro)
				} else {
					res = c19Task(t.p, keep, t.gen, t.R, t.inpro)
				}
				if !res.ok && res.invalid == "" {
					failMu.Lock()
					if rb, _ := res.detail["run_b"].(string); strings.HasPrefix(rb, "in-process") {
						failed = append(failed, t) // all separate processes agreed: shrink last
					} else {
						failed = append([]task{t}, failed...)
					}
					failMu.Unlock()
				}
				c19Report(t.p, keep, t.gen, res)
			}
		}()
	}
	for _, t := range tasks {
		ch <- t
	}
	close(ch)
	wg.Wait()
	// shrink the first failures (one per target language) and report the smaller programs too
	seenLang := map[string]bool{}
	attempts := 0
	for _, t := range failed {
		lang, _ := c19Lang(t.gen)
		if seenLang[lang] || len(seenLang) >= 3 || attempts >= 6 {
			continue
		}
		attempts++
		keep := c19AllKeep(t.p)
		c19ParallelRuns = true
		first := c19Task(t.p, keep, t.gen, c19NKinds, false)
		c19ParallelRuns = false
		Stat("shrink-attempts")
		if first.ok || first.invalid != "" {
			Stat("shrink-failure-not-reproduced") // e.g. only the in-process run differed
			continue
		}
		seenLang[lang] = true
		small := c19Shrink(t.p, keep, t.gen, first.what, 90*time.Second)
		c19ParallelRuns = true
		res := c19Task(t.p, small, t.gen, c19NKinds, false)
		c19ParallelRuns = false
		if !res.ok && res.invalid == "" {
			n := 0
			for _, k := range small {
				if k {
					n++
				}
			}
			res.detail["shrunk_items"] = n
			res.detail["shrunk_from_items"] = len(keep)
			OracleFail(res.what, res.detail)
		}
	}
}

func clipStr(s string, n int) string {
	if len(s) > n {
		return s[:n]
	}
	return s
}

func c19Report(p *c19Prog, keep []bool, gen string, res c19Result) {
	lang, opts := c19Lang(gen)
	Stat("evaluations")
	if p.small {
		Stat("sweep-target:" + lang)
		if opts != "-" {
			os := strings.Split(opts, ",")
			for _, o := range os {
				Stat("sweep-option:" + lang + "/" + o)
			}
			if len(os) == 2 {
				Stat("sweep-pairs:" + lang)
			}
		}
	} else {
		Stat("target:" + gen)
	}
	StatN("compiler-runs", res.runs)
	if res.invalid != "" {
		Stat("invalid-program:" + lang)
		Sample(map[string]interface{}{"invalid": res.invalid, "target": gen, "program_seed": p.seed})
		return
	}
	_, graph := p.render(keep)
	in := fmt.Sprintf("c19ord %s %s 0 %s", lang, opts, c19GraphString(graph))
	if res.order != "" {
		Case(in, res.order)
		for _, o := range res.orders { // a run that generated in another order: disagrees with the model
			Case(in, o)
		}
	}
	if len(res.mods) > 0 && !p.dup {
		rootName := strings.TrimSuffix(filepath.Base(p.paths[0]), filepath.Ext(p.paths[0]))
		min := fmt.Sprintf("c19mods %s 0 %s", rootName, c19GraphString(graph))
		for _, o := range res.mods {
			Case(min, o)
		}
	}
	if !res.ok {
		OracleFail(res.what, res.detail)
	}
}

// c19ValidGen: a -gen value of a known target that does not ask for the dated java annotation.
func c19ValidGen(gen string) bool {
	lang, opts := c19Lang(gen)
	if _, ok := generator.Languages[lang]; !ok {
		return false
	}
	if opts != "-" {
		for _, o := range strings.Split(opts, ",") {
			if strings.HasPrefix(o, "generated_annotations=") && o != "generated_annotations=undated" && o != "generated_annotations=suppress" {
				return false
			}
		}
	}
	return !strings.ContainsAny(gen, " \t")
}

var c19SetupOnce sync.Once

// c19Setup: the compiler prints warnings to os.Stdout when called in-process: keep the line
// protocol clean (the protocol writer holds the original stdout).  goimports may run the go
// command (only when an import is left for it to find): it must never edit a go.sum, and
// every run has the same environment.
func c19Setup() {
	c19SetupOnce.Do(func() {
		if devnull, err := os.OpenFile(os.DevNull, os.O_WRONLY, 0); err == nil {
			os.Stdout = devnull
		}
		os.Setenv("GOFLAGS", "-mod=readonly")
	})
}

func init() {
	suites["c19"] = runC19
	// c19det <s|t><progseed> <gen> <R> <keep>   (s = many-entries program, t = small program)
	lineOps["c19det"] = func(args []string) (string, bool) {
		if len(args) != 4 {
			return "bad-op", true
		}
		gen := args[1]
		R, e3 := strconv.Atoi(args[2])
		if e3 != nil || !c19ValidGen(gen) || R < 2 || R > 64 {
			return "bad-op", true
		}
		p, okp := c19FromToken(args[0])
		if !okp {
			return "bad-op", true
		}
		c19Setup()
		keep := c19ParseKeep(args[3], len(p.items))
		if R < c19NKinds { // a replay (corpus, shrinking) covers every layout
			R = c19NKinds
		}
		c19ParallelRuns = true
		res := c19Task(p, keep, gen, R, false)
		if res.invalid != "" { // the same failure in every run: no output anywhere, trivially the same
			Stat("c19det-invalid-program")
			return "ok same", true
		}
		if !res.ok {
			OracleFail(res.what, res.detail)
			return "ok differ", true // the failure has been reported with its detail
		}
		return "ok same", true
	}
	// c19hist <token> <gen> <variant> <keep>: the -out directory already holds output (see c19History)
	lineOps["c19hist"] = func(args []string) (string, bool) {
		if len(args) != 4 || !c19ValidGen(args[1]) {
			return "bad-op", true
		}
		p, okp := c19FromToken(args[0])
		if !okp {
			return "bad-op", true
		}
		c19Setup()
		res := c19History(p, c19ParseKeep(args[3], len(p.items)), args[1], args[2])
		if res.invalid == "bad variant" {
			return "bad-op", true
		}
		if res.invalid == "" && !res.ok {
			OracleFail(res.what, res.detail)
			return "ok differ", true
		}
		return "ok same", true
	}
	// c19dir <gen> <R> <dir relative to /verif>: a program kept on disk (root = main.frugal)
	lineOps["c19dir"] = func(args []string) (string, bool) {
		if len(args) != 3 {
			return "bad-op", true
		}
		gen := args[0]
		R, e3 := strconv.Atoi(args[1])
		if e3 != nil || !c19ValidGen(gen) || R < 2 || R > 64 || strings.Contains(args[2], "..") {
			return "bad-op", true
		}
		c19Setup()
		files := c19ReadTree(filepath.Join(c19VerifDir(), filepath.FromSlash(args[2])))
		if _, ok := files["main.frugal"]; !ok {
			OracleFail("c19: corpus program not found: "+args[2], map[string]interface{}{"line": "c19dir " + strings.Join(args, " ")})
			return "missing", true
		}
		p := &c19Prog{paths: []string{"main.frugal"}}
		c19ParallelRuns = true
		res := c19TaskFiles(p, files, gen, R, false, "c19dir "+strings.Join(args, " "))
		if res.invalid != "" {
			OracleFail("c19: corpus program does not compile: "+args[2]+": "+res.invalid, map[string]interface{}{"line": "c19dir " + strings.Join(args, " ")})
			return "ok same", true
		}
		if !res.ok {
			OracleFail(res.what, res.detail)
			return "ok differ", true
		}
		return "ok same", true
	}
	// c19ord <lang> <opts> <root> <graph>: cannot be re-executed without the program text;
	// the corpus/replay form of a C19 case is c19det.
}
