// C11: parse-only check of generated Java sources with the JDK's own parser
// (com.sun.source JavacTask.parse(): syntax only, no attribution: the Thrift/Frugal
// runtime jars are not available here). Usage: java -cp <dir> ParseOnly <file-with-paths>
// Prints `<path>\t<line>: <message>` per syntax error, then DONE.
import com.sun.source.util.JavacTask;
import java.nio.file.*;
import java.util.*;
import javax.tools.*;

public class ParseOnly {
    public static void main(String[] args) throws Exception {
        List<String> paths = new ArrayList<>();
        for (String l : Files.readAllLines(Paths.get(args[0]))) if (!l.isEmpty()) paths.add(l);
        JavaCompiler c = ToolProvider.getSystemJavaCompiler();
        DiagnosticCollector<JavaFileObject> d = new DiagnosticCollector<>();
        StandardJavaFileManager fm = c.getStandardFileManager(d, null, null);
        JavacTask t = (JavacTask) c.getTask(null, fm, d, Arrays.asList("-proc:none", "-encoding", "UTF-8"), null, fm.getJavaFileObjectsFromStrings(paths));
        t.parse();
        StringBuilder sb = new StringBuilder();
        for (Diagnostic<? extends JavaFileObject> x : d.getDiagnostics()) {
            if (x.getKind() != Diagnostic.Kind.ERROR || x.getSource() == null) continue;
            sb.append(Paths.get(x.getSource().toUri()).toString()).append('\t').append(x.getLineNumber()).append(": ")
              .append(x.getMessage(null).replace('\n', ' ')).append('\n');
        }
        sb.append("DONE\n");
        System.out.print(sb);
    }
}
