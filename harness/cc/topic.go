package main

// C08 — publisher and subscriber agree on the topic, in every target language.
//
// Suite "c08": a random scope (name of any capitalisation, 1–3 operations, a prefix
// of 0–5 tokens with 0–4 variables, a delimiter from {".", "/", ":", "-", "__"}) is
// written as IDL to a scratch directory and compiled IN-PROCESS by the real compiler
// (compiler.Compile) for go, java, dart, py, py:asyncio, py:tornado.  The emitted
// publisher / subscriber sources are read back as FUNCTIONS (parameter lists, forwarding
// calls, method tables; see "extraction" below): every public entry point (13 per
// operation) is called with pairwise different argument values, the i-th argument bound
// to the i-th parameter and followed through the forwarding calls to the `op`, `prefix`,
// `topic` (and delimiter constant) expressions, which are
// evaluated by an evaluator of the target language's formatting construct written
// here (Go: the real fmt.Sprintf; Java String.format, Python str.format, Dart string
// interpolation: small interpreters of the %s / {} / $name fragment that flag
// everything else).  Evaluation with marker values gives the canonical template
// (`L<hex>` literal / `V<i>` variable), evaluation with the random runtime values
// gives the topic string.
//
// Line:   c08 <prefix hex|-> <scope name hex> <delim hex> <op hex,…> <value hex,…|.>
// Output: err:badvar | err:parse |
//         ok vars=<hex,…|.> <op hex>:<lang.entry>=<template>@<topic hex|fail>;… (one group per operation;
//         H = the target is in the exact class of the finding prefix-token-format-chars, F = its generator failed)
//
// ORACLE (independent of the Lean model; it is the property): for every operation
// and language the publisher topic equals the subscriber topic; every language's
// topic equals the spec string computed here from the token list
//   [prefix tokens with variables substituted, joined by "." as written] delim Title(scope) delim op
// (no leading delimiter when there is no prefix); all languages agree.
// Recorded findings (KNOWN_FINDINGS.txt): Python uses the scope name as written
// (for names that are not capitalised Python is compared with the as-written spec
// and with itself only); a target is not evaluated where a static token contains a character of the
// finding prefix-token-format-chars' EXACT class for that target (known/c08_format_chars_expected.json,
// re-established by the census below); the Dart
// columns are expected to fail when the prefix ends in a variable and the delimiter
// starts with an identifier character.

import (
	"encoding/json"
	"fmt"
	"os"
	"path/filepath"
	"regexp"
	"sort"
	"strconv"
	"strings"
	"time"
	"unicode/utf8"

	"github.com/Workiva/frugal/compiler"
	"github.com/Workiva/frugal/compiler/parser"
)

type c08Case struct {
	prefix string
	name   string
	delim  string
	ops    []string
	vals   []string
}

var c08Delims = []string{".", "/", ":", "-", "__"}

// lang.entry-point columns in output order (sube = Go Subscribe<Op>Errorable, subt = Java subscribe<Op>Throwable);
// the internal functions behind the middleware method table (publish<Op>, _publish<Op>, _publish_<Op>) are
// evaluated as well and must agree with the public entry point of their column.
var c08Cols = []string{"go.pub", "go.sub", "go.sube", "java.pub", "java.sub", "java.subt", "dart.pub", "dart.sub", "py.pub", "pyaio.pub", "pyaio.sub", "pytor.pub", "pytor.sub"}

var c08Gens = []struct{ gen, key string }{
	{"go", "go"}, {"java", "java"}, {"dart", "dart"}, {"py", "py"}, {"py:asyncio", "pyaio"}, {"py:tornado", "pytor"},
}

// ---------- line encoding ----------

func hexList(xs []string) string {
	if len(xs) == 0 {
		return "."
	}
	p := make([]string, len(xs))
	for i, x := range xs {
		p[i] = hx([]byte(x))
	}
	return strings.Join(p, ",")
}

func unhexList(s string) (out []string, ok bool) {
	defer func() {
		if recover() != nil {
			out, ok = nil, false
		}
	}()
	if s == "." || s == "" {
		return nil, true
	}
	for _, p := range strings.Split(s, ",") {
		out = append(out, string(unhx(p)))
	}
	return out, true
}

func (c c08Case) line() string {
	return fmt.Sprintf("c08 %s %s %s %s %s", hx([]byte(c.prefix)), hx([]byte(c.name)), hx([]byte(c.delim)), hexList(c.ops), hexList(c.vals))
}

func c08ParseLine(args []string) (c c08Case, ok bool) {
	defer func() {
		if recover() != nil {
			ok = false
		}
	}()
	if len(args) != 5 {
		return c, false
	}
	c.prefix, c.name, c.delim = string(unhx(args[0])), string(unhx(args[1])), string(unhx(args[2]))
	var ok1, ok2 bool
	c.ops, ok1 = unhexList(args[3])
	c.vals, ok2 = unhexList(args[4])
	return c, ok1 && ok2
}

// ---------- token-level view of a prefix (independent of the compiler's regex) ----------

func isWordByte(b byte) bool {
	return b == '_' || (b >= '0' && b <= '9') || (b >= 'a' && b <= 'z') || (b >= 'A' && b <= 'Z')
}

// tokens: split on '.', a token `{w}` with w made of word characters is a variable.
func c08Tokens(prefix string) (toks []string, isVar []bool) {
	if prefix == "" {
		return nil, nil
	}
	for _, t := range strings.Split(prefix, ".") {
		v := len(t) >= 2 && t[0] == '{' && t[len(t)-1] == '}'
		if v {
			for i := 1; i < len(t)-1; i++ {
				if !isWordByte(t[i]) {
					v = false
				}
			}
		}
		toks = append(toks, t)
		isVar = append(isVar, v)
	}
	return
}

// The EXACT class of the recorded finding prefix-token-format-chars: per target and per
// "the prefix has variables", the characters of a static token the generated code does not read
// as text. Read from known/c08_format_chars_expected.json (the built-in copy is used when the file
// is absent); re-established against the real generators by c08Census.
type c08HzRow struct{ Novars, Vars string }

var c08HzBuiltin = map[string]c08HzRow{
	"go": {"\"\\", "\"\\%"}, "java": {"\"\\", "\"\\%"}, "dart": {"'\\$", "'\\$%"},
	"py": {"'\\", "'\\{}"}, "pyaio": {"'\\", "'\\{}"}, "pytor": {"'\\", "'\\{}"},
}

const c08HzChars = "%\"'\\${}"

var c08HzTable map[string]c08HzRow

func c08Hz() map[string]c08HzRow {
	if c08HzTable != nil {
		return c08HzTable
	}
	c08HzTable = c08HzBuiltin
	if data, err := os.ReadFile(filepath.Join(c08KnownDir(), "c08_format_chars_expected.json")); err == nil {
		var doc struct {
			Class map[string]struct{ Novars, Vars string } `json:"class"`
		}
		if json.Unmarshal(data, &doc) == nil && len(doc.Class) > 0 {
			t := map[string]c08HzRow{}
			for k, v := range doc.Class {
				t[k] = c08HzRow{v.Novars, v.Vars}
			}
			c08HzTable = t
		}
	}
	return c08HzTable
}

// c08Hazard: is the scope in the finding's class for target lang (go, java, dart, py, pyaio, pytor)?
func c08Hazard(lang, prefix string) bool {
	toks, isVar := c08Tokens(prefix)
	hv := false
	for _, v := range isVar {
		hv = hv || v
	}
	set := c08Hz()[lang].Novars
	if hv {
		set = c08Hz()[lang].Vars
	}
	for i, t := range toks {
		if !isVar[i] && set != "" && strings.ContainsAny(t, set) {
			return true
		}
	}
	return false
}

func c08ColLang(col string) string { return col[:strings.IndexByte(col, '.')] }

// the class of the Dart interpolation defect: the prefix ends in a variable and the
// delimiter starts with a character that continues a Dart identifier.
func c08DartGlue(prefix, delim string) bool {
	toks, isVar := c08Tokens(prefix)
	return len(toks) > 0 && isVar[len(toks)-1] && delim != "" && (isWordByte(delim[0]) || delim[0] == '$')
}

func c08Title(s string) string {
	if s != "" && s[0] >= 'a' && s[0] <= 'z' {
		return string(s[0]-32) + s[1:]
	}
	return s
}

// spec string: prefix tokens with the variables substituted in order (joined by "." as
// written in the IDL), then the scope name, then the operation, joined by the delimiter.
func c08Spec(c c08Case, scopeName, op string) string {
	toks, isVar := c08Tokens(c.prefix)
	k := 0
	parts := make([]string, len(toks))
	for i, t := range toks {
		if isVar[i] {
			if k < len(c.vals) {
				parts[i] = c.vals[k]
			}
			k++
		} else {
			parts[i] = t
		}
	}
	s := ""
	if len(toks) > 0 {
		s = strings.Join(parts, ".") + c.delim
	}
	return s + scopeName + c.delim + op
}

// ---------- evaluators of the target languages' formatting constructs ----------

type c08Env map[string]string

var c08Ident = regexp.MustCompile(`^[A-Za-z_][A-Za-z0-9_.]*$`)

func splitArgs(s string) []string {
	s = strings.TrimSpace(s)
	if s == "" {
		return nil
	}
	parts := strings.Split(s, ",")
	for i := range parts {
		parts[i] = strings.TrimSpace(parts[i])
	}
	return parts
}

func lookupArgs(names []string, env c08Env) ([]string, bool) {
	out := make([]string, len(names))
	for i, n := range names {
		v, ok := env[n]
		if !ok || !c08Ident.MatchString(n) {
			return nil, false
		}
		out[i] = v
	}
	return out, true
}

// quoted literal body: no escape sequences, no embedded quote
func plainBody(s string, q byte) bool {
	return !strings.ContainsRune(s, '\\') && strings.IndexByte(s, q) < 0
}

// Go: "lit" | fmt.Sprintf("fmt", a, b)
var (
	reGoSprintf  = regexp.MustCompile(`^fmt\.Sprintf\("(.*)", ([^"]*)\)$`)
	reDQ         = regexp.MustCompile(`^"(.*)"$`)
	reSQ         = regexp.MustCompile(`^'(.*)'$`)
	reJavaFormat = regexp.MustCompile(`^String\.format\("(.*)", ([^"]*)\)$`)
	rePyFormat   = regexp.MustCompile(`^'(.*)'\.format\(([^']*)\)$`)
)

func evalGo(expr string, env c08Env) (string, bool) {
	if m := reGoSprintf.FindStringSubmatch(expr); m != nil {
		args, ok := lookupArgs(splitArgs(m[2]), env)
		if !ok || !plainBody(m[1], '"') {
			return "", false
		}
		// the real fmt.Sprintf gives the value; the scan decides whether only %s verbs occur and the argument count fits
		n := 0
		for i := 0; i < len(m[1]); i++ {
			if m[1][i] == '%' {
				if i+1 < len(m[1]) && m[1][i+1] == 's' {
					n++
					i++
				} else {
					return "", false
				}
			}
		}
		if n != len(args) {
			return "", false
		}
		ia := make([]interface{}, len(args))
		for i, a := range args {
			ia[i] = a
		}
		return fmt.Sprintf(m[1], ia...), true
	}
	if m := reDQ.FindStringSubmatch(expr); m != nil && plainBody(m[1], '"') {
		return m[1], true
	}
	return "", false
}

// Java: "lit" | String.format("fmt", a, b): %s takes the next argument, %% is a percent sign,
// anything else is outside the fragment (IllegalFormatException / other conversions).
func evalJava(expr string, env c08Env) (string, bool) {
	if m := reJavaFormat.FindStringSubmatch(expr); m != nil {
		args, ok := lookupArgs(splitArgs(m[2]), env)
		if !ok || !plainBody(m[1], '"') {
			return "", false
		}
		var b strings.Builder
		k := 0
		f := m[1]
		for i := 0; i < len(f); i++ {
			if f[i] != '%' {
				b.WriteByte(f[i])
				continue
			}
			if i+1 >= len(f) {
				return "", false
			}
			switch f[i+1] {
			case 's':
				if k >= len(args) {
					return "", false // MissingFormatArgumentException
				}
				b.WriteString(args[k])
				k++
			case '%':
				b.WriteByte('%')
			default:
				return "", false
			}
			i++
		}
		if k != len(args) {
			return "", false // Java ignores extra arguments, the generator never emits any: flag it
		}
		return b.String(), true
	}
	if m := reDQ.FindStringSubmatch(expr); m != nil && plainBody(m[1], '"') {
		return m[1], true
	}
	return "", false
}

// Python: 'lit' | 'fmt'.format(a, b): {} takes the next argument, {{ and }} are braces.
func evalPy(expr string, env c08Env) (string, bool) {
	if m := rePyFormat.FindStringSubmatch(expr); m != nil {
		args, ok := lookupArgs(splitArgs(m[2]), env)
		if !ok || !plainBody(m[1], '\'') {
			return "", false
		}
		var b strings.Builder
		k := 0
		f := m[1]
		for i := 0; i < len(f); i++ {
			switch {
			case f[i] == '{' && i+1 < len(f) && f[i+1] == '}':
				if k >= len(args) {
					return "", false // IndexError
				}
				b.WriteString(args[k])
				k++
				i++
			case f[i] == '{' && i+1 < len(f) && f[i+1] == '{':
				b.WriteByte('{')
				i++
			case f[i] == '}' && i+1 < len(f) && f[i+1] == '}':
				b.WriteByte('}')
				i++
			case f[i] == '{' || f[i] == '}':
				return "", false // named / numbered field or a lone brace
			default:
				b.WriteByte(f[i])
			}
		}
		if k != len(args) {
			return "", false
		}
		return b.String(), true
	}
	if m := reSQ.FindStringSubmatch(expr); m != nil && plainBody(m[1], '\'') {
		return m[1], true
	}
	return "", false
}

func isDartIdentByte(b byte) bool { return isWordByte(b) }

// Dart: '…' with $name (the longest identifier) and ${name} interpolation.
func evalDart(expr string, env c08Env) (string, bool) {
	m := reSQ.FindStringSubmatch(expr)
	if m == nil || !plainBody(m[1], '\'') {
		return "", false
	}
	f := m[1]
	var b strings.Builder
	for i := 0; i < len(f); i++ {
		if f[i] != '$' {
			b.WriteByte(f[i])
			continue
		}
		var name string
		if i+1 < len(f) && f[i+1] == '{' {
			j := strings.IndexByte(f[i+2:], '}')
			if j < 0 {
				return "", false
			}
			name = f[i+2 : i+2+j]
			i = i + 2 + j
		} else {
			j := i + 1
			for j < len(f) && isDartIdentByte(f[j]) {
				j++
			}
			name = f[i+1 : j]
			i = j - 1
		}
		v, ok := env[name]
		if !ok || name == "" || !c08Ident.MatchString(name) || (name[0] >= '0' && name[0] <= '9') {
			return "", false // undefined name: the Dart source does not compile
		}
		b.WriteString(v)
	}
	return b.String(), true
}

// ---------- extraction ----------
//
// The emitted sources are read as a set of FUNCTIONS (header with its parameter list), each of
// which either contains the op / prefix / topic lines or only forwards its arguments to another
// function (directly: Go Subscribe<Op> -> Subscribe<Op>Errorable, Java Client.publish<Op> ->
// proxy.publish<Op>; or through the middleware method table: Go p.methods["publish<Op>"].Invoke,
// Dart this._methods['<Op>']!([…]), Python self._methods['publish_<Op>']([…])). A topic is always
// evaluated from an entry point inwards: the i-th ARGUMENT of the call is bound to the i-th
// declared parameter, forwarded argument lists are evaluated in that binding and bound to the
// callee's parameters, and the names in the prefix expression are looked up in the innermost
// binding. So a permuted, dropped or duplicated variable anywhere on the way changes the topic
// (the runtime values and the markers are pairwise different).

type c08Triple struct {
	op, prefix, topic string // right-hand sides as emitted
}

type c08Func struct {
	role, name string // role: pub | sub
	params     []string
	triple     *c08Triple
	hasFwd     bool
	fwdTable   bool // callee named by a key of the method table
	fwdCallee  string
	fwdArgs    []string
}

type c08Unit struct { // one generated tree
	lang   string
	funcs  []*c08Func
	table  map[string]string // role+" "+key -> function name
	delims map[string]string // role -> delimiter constant's right-hand side
}

type c08Pat struct {
	op, prefix, topic, delim *regexp.Regexp
	header                   *regexp.Regexp // group 1 = function name; the match ends at the opening parenthesis
	bodyOpens                string         // what a function DEFINITION's header line ends with
	paramName                func(piece string) string
	fwdDirect, fwdTable      *regexp.Regexp                 // group 1 = callee / key; the match ends at the opening bracket of the argument list
	table                    *regexp.Regexp                 // group 1 = key, group 2 = function
	role                     func(line, file string) string // "" = unchanged
	eval                     func(expr string, env c08Env) (string, bool)
	delimName                string
}

func lastWord(s string) string {
	f := strings.Fields(s)
	if len(f) == 0 {
		return ""
	}
	return f[len(f)-1]
}

var c08Pats = map[string]*c08Pat{
	"go": {
		op:        regexp.MustCompile(`^\s*op := (".*")$`),
		prefix:    regexp.MustCompile(`^\s*prefix := (.*)$`),
		topic:     regexp.MustCompile(`^\s*topic := (.*)$`),
		header:    regexp.MustCompile(`^func \(\w+ \*?\w+\) (\w+)\(`),
		bodyOpens: "{",
		paramName: func(p string) string { return strings.Fields(p + " _")[0] },
		fwdDirect: regexp.MustCompile(`^\s*return \w+\.(\w+)\(`),
		fwdTable:  regexp.MustCompile(`\.methods\["(\w+)"\]\.Invoke\(\[\]interface\{\}\{`),
		table:     regexp.MustCompile(`methods\["(\w+)"\] = frugal\.NewMethod\(\w+, \w+\.(\w+),`),
		role: func(line, file string) string {
			if strings.HasPrefix(line, "func ") {
				switch {
				case strings.HasPrefix(line, "func (") && strings.Contains(line, "Publisher) "):
					return "pub"
				case strings.HasPrefix(line, "func (") && strings.Contains(line, "Subscriber) "):
					return "sub"
				case strings.Contains(line, "Publisher("): // constructor: fills the publisher's method table
					return "pub"
				}
				return "none"
			}
			return ""
		},
		eval: evalGo,
	},
	"java": {
		op:        regexp.MustCompile(`^\s*(?:final )?String op = (".*");$`),
		prefix:    regexp.MustCompile(`^\s*(?:final )?String prefix = (.*);$`),
		topic:     regexp.MustCompile(`^\s*(?:final )?String topic = (.*);$`),
		delim:     regexp.MustCompile(`^\s*private static final String DELIMITER = (".*");$`),
		header:    regexp.MustCompile(`^\s*public [\w.<>\[\]]+ (\w+)\(`),
		bodyOpens: "{",
		paramName: lastWord,
		fwdDirect: regexp.MustCompile(`^\s*(?:return )?proxy\.(\w+)\(`),
		role: func(line, file string) string {
			switch {
			case strings.HasSuffix(file, "Publisher.java"):
				return "pub"
			case strings.HasSuffix(file, "Subscriber.java"):
				return "sub"
			}
			return "none"
		},
		eval: evalJava, delimName: "DELIMITER",
	},
	"dart": {
		op:        regexp.MustCompile(`^\s*var op = ('.*');$`),
		prefix:    regexp.MustCompile(`^\s*var prefix = ('.*');$`),
		topic:     regexp.MustCompile(`^\s*var topic = ('.*');$`),
		delim:     regexp.MustCompile(`^const String delimiter = ('.*');$`),
		header:    regexp.MustCompile(`^\s*Future(?:<[\w.<>]+>)? (\w+)\(`),
		bodyOpens: "{",
		paramName: func(p string) string {
			if i := strings.IndexByte(p, '('); i >= 0 { // function-typed parameter: dynamic onX(…)
				p = p[:i]
			}
			return lastWord(p)
		},
		fwdTable: regexp.MustCompile(`_methods\['(\w+)'\]!?\(\[`),
		table:    regexp.MustCompile(`_methods\['(\w+)'\] = frugal\.FMethod\(this\.(\w+),`),
		role: func(line, file string) string {
			if strings.HasPrefix(line, "class ") {
				switch {
				case strings.Contains(line, "Publisher "):
					return "pub"
				case strings.Contains(line, "Subscriber "):
					return "sub"
				}
				return "none"
			}
			return ""
		},
		eval: evalDart, delimName: "delimiter",
	},
	"py": {
		op:        regexp.MustCompile(`^\s*op = ('.*')$`),
		prefix:    regexp.MustCompile(`^\s*prefix = (.*)$`),
		topic:     regexp.MustCompile(`^\s*topic = (.*)$`),
		delim:     regexp.MustCompile(`^\s*_DELIMITER = ('.*')$`),
		header:    regexp.MustCompile(`^\s*(?:async )?def (\w+)\(`),
		bodyOpens: ":",
		paramName: func(p string) string {
			if i := strings.IndexByte(p, '='); i >= 0 {
				p = p[:i]
			}
			return strings.TrimSpace(p)
		},
		fwdTable: regexp.MustCompile(`self\._methods\['(\w+)'\]\(\[`),
		table:    regexp.MustCompile(`'(\w+)': Method\(self\.(\w+),`),
		role: func(line, file string) string {
			switch {
			case strings.HasSuffix(file, "_publisher.py"):
				return "pub"
			case strings.HasSuffix(file, "_subscriber.py"):
				return "sub"
			}
			return "none"
		},
		eval: evalPy, delimName: "self._DELIMITER",
	},
}

// bracketed returns the text between the bracket at s[open] and its partner (or the end of the
// line when the list continues on the next line: a closure argument) and what follows it.
func bracketed(s string, open int) (inside, rest string) {
	depth := 0
	for i := open; i < len(s); i++ {
		switch s[i] {
		case '(', '[', '{':
			depth++
		case ')', ']', '}':
			depth--
			if depth == 0 {
				return s[open+1 : i], s[i+1:]
			}
		}
	}
	return s[open+1:], ""
}

// splitTop splits at commas that are not inside brackets.
func splitTop(s string) []string {
	var out []string
	depth, start := 0, 0
	for i := 0; i < len(s); i++ {
		switch s[i] {
		case '(', '[', '{':
			depth++
		case ')', ']', '}':
			depth--
		case ',':
			if depth == 0 {
				out = append(out, strings.TrimSpace(s[start:i]))
				start = i + 1
			}
		}
	}
	if t := strings.TrimSpace(s[start:]); t != "" || len(out) > 0 {
		out = append(out, t)
	}
	return out
}

// extract reads one generated tree into functions, method table and delimiter constants.
func c08Extract(dir, lang string) (*c08Unit, error) {
	pat := c08Pats[lang]
	u := &c08Unit{lang: lang, table: map[string]string{}, delims: map[string]string{}}
	var files []string
	filepath.Walk(dir, func(p string, info os.FileInfo, e error) error {
		if e == nil && !info.IsDir() {
			files = append(files, p)
		}
		return nil
	})
	sort.Strings(files)
	for _, p := range files {
		data, e := os.ReadFile(p)
		if e != nil {
			return nil, e
		}
		role := "none"
		fileDelim, sawTopic := "", false
		var cur *c08Func
		var tr c08Triple
		for _, line := range strings.Split(string(data), "\n") {
			line = strings.TrimRight(line, "\r")
			if r := pat.role(line, p); r != "" {
				role = r
			}
			if pat.delim != nil {
				if m := pat.delim.FindStringSubmatch(line); m != nil {
					fileDelim = m[1]
					if lang == "java" || lang == "py" {
						u.delims[role] = m[1]
					}
				}
			}
			if role == "none" {
				cur = nil
				continue
			}
			if pat.table != nil {
				if m := pat.table.FindStringSubmatch(line); m != nil {
					u.table[role+" "+m[1]] = m[2]
				}
			}
			if loc := pat.header.FindStringSubmatchIndex(line); loc != nil {
				inside, rest := bracketed(line, loc[1]-1)
				if strings.HasSuffix(strings.TrimSpace(rest), pat.bodyOpens) { // a definition, not an interface declaration
					cur = &c08Func{role: role, name: line[loc[2]:loc[3]]}
					for _, piece := range splitTop(inside) {
						if n := pat.paramName(piece); !(lang == "py" && n == "self") {
							cur.params = append(cur.params, n)
						}
					}
					u.funcs = append(u.funcs, cur)
					tr = c08Triple{}
					continue
				}
			}
			if cur == nil {
				continue
			}
			if m := pat.op.FindStringSubmatch(line); m != nil {
				tr.op = m[1]
			}
			if m := pat.prefix.FindStringSubmatch(line); m != nil {
				tr.prefix = m[1]
			}
			if m := pat.topic.FindStringSubmatch(line); m != nil && cur.triple == nil {
				tr.topic = m[1]
				t := tr
				cur.triple = &t
				sawTopic = true
			}
			if cur.triple == nil && !cur.hasFwd {
				for _, fw := range []struct {
					re    *regexp.Regexp
					table bool
				}{{pat.fwdTable, true}, {pat.fwdDirect, false}} {
					if fw.re == nil {
						continue
					}
					if loc := fw.re.FindStringSubmatchIndex(line); loc != nil {
						inside, _ := bracketed(line, loc[1]-1)
						cur.hasFwd, cur.fwdTable, cur.fwdCallee, cur.fwdArgs = true, fw.table, line[loc[2]:loc[3]], splitTop(inside)
						break
					}
				}
			}
		}
		if lang == "dart" && sawTopic {
			u.delims["pub"], u.delims["sub"] = fileDelim, fileDelim
		}
	}
	return u, nil
}

const c08Opaque = "\x00opaque" // the value of an argument that is not a plain name (context, message, handler closure)

// evalEntry calls function f with the positional values pos, following forwarding calls.
func (u *c08Unit) evalEntry(f *c08Func, pos []string, depth int) (opName, topic string, ok bool) {
	if len(f.params) != len(pos) || depth > 4 {
		return "", "", false
	}
	env := c08Env{}
	for i, n := range f.params {
		if _, dup := env[n]; dup {
			return "", "", false
		}
		env[n] = pos[i]
	}
	if f.triple != nil {
		return u.evalTriple(*f.triple, u.delims[f.role], env)
	}
	if !f.hasFwd {
		return "", "", false
	}
	name := f.fwdCallee
	if f.fwdTable {
		var found bool
		if name, found = u.table[f.role+" "+f.fwdCallee]; !found {
			return "", "", false
		}
	}
	args := make([]string, len(f.fwdArgs))
	for i, a := range f.fwdArgs {
		if v, bound := env[a]; bound && c08Ident.MatchString(a) {
			args[i] = v
		} else {
			args[i] = c08Opaque
		}
	}
	var callee *c08Func
	for _, g := range u.funcs {
		if g != f && g.role == f.role && g.name == name && (callee == nil || (callee.triple == nil && g.triple != nil)) {
			callee = g
		}
	}
	if callee == nil {
		return "", "", false
	}
	return u.evalEntry(callee, args, depth+1)
}

// opOf: the operation an entry point belongs to = the op literal of the topic lines it reaches.
func (u *c08Unit) opOf(f *c08Func, depth int) string {
	if f.triple != nil {
		o, _ := c08Pats[u.lang].eval(f.triple.op, c08Env{})
		return o
	}
	if !f.hasFwd || depth > 4 {
		return ""
	}
	name := f.fwdCallee
	if f.fwdTable {
		name = u.table[f.role+" "+f.fwdCallee]
	}
	var callee *c08Func
	for _, g := range u.funcs {
		if g != f && g.role == f.role && g.name == name && (callee == nil || (callee.triple == nil && g.triple != nil)) {
			callee = g
		}
	}
	if callee == nil {
		return ""
	}
	return u.opOf(callee, depth+1)
}

// evalTriple evaluates the op / prefix / topic lines in the binding env (parameter name -> value).
func (u *c08Unit) evalTriple(t c08Triple, delimExpr string, env c08Env) (opName, topic string, ok bool) {
	pat := c08Pats[u.lang]
	opName, ok = pat.eval(t.op, c08Env{})
	if !ok {
		return "", "", false
	}
	// a name bound to something that is not a string (context, message, handler) is not part of the
	// binding the prefix may use: such a use is flagged by the evaluators as an unbound name
	penv := c08Env{}
	for n, v := range env {
		if v != c08Opaque {
			penv[n] = v
		}
	}
	pv, ok := pat.eval(t.prefix, penv)
	if !ok {
		return opName, "", false
	}
	tenv := c08Env{"prefix": pv, "op": opName}
	if pat.delimName != "" {
		dv, ok := pat.eval(delimExpr, c08Env{})
		if !ok {
			return opName, "", false
		}
		tenv[pat.delimName] = dv
	}
	topic, ok = pat.eval(t.topic, tenv)
	return opName, topic, ok
}

// column of an entry point: pub | sub | sube (Go Subscribe<Op>Errorable) | subt (Java subscribe<Op>Throwable)
func c08Kind(f *c08Func, opName string) string {
	n := strings.ToLower(strings.TrimLeft(f.name, "_"))
	op := strings.ToLower(opName)
	switch {
	case f.role == "pub" && (n == "publish"+op || n == "publish_"+op):
		return "pub"
	case f.role == "sub" && (n == "subscribe"+op || n == "subscribe_"+op):
		return "sub"
	case f.role == "sub" && n == "subscribe"+op+"errorable":
		return "sube"
	case f.role == "sub" && n == "subscribe"+op+"throwable":
		return "subt"
	}
	return ""
}

// private-use runes delimit a variable marker
const c08MarkL, c08MarkR = "\uE000", "\uE001"

func c08Marker(i int) string { return c08MarkL + strconv.Itoa(i) + c08MarkR }

// template renders a marker-evaluated string as L<hex>/V<i> segments.
func c08Template(s string) string {
	var segs []string
	for s != "" {
		i := strings.Index(s, c08MarkL)
		if i < 0 {
			segs = append(segs, "L"+hx([]byte(s)))
			break
		}
		if i > 0 {
			segs = append(segs, "L"+hx([]byte(s[:i])))
		}
		j := strings.Index(s, c08MarkR)
		segs = append(segs, "V"+s[i+len(c08MarkL):j])
		s = s[j+len(c08MarkR):]
	}
	if len(segs) == 0 {
		return "E"
	}
	return strings.Join(segs, ",")
}

// ---------- running the real compiler ----------

func c08Quiet(f func()) {
	old := os.Stdout
	dn, err := os.OpenFile(os.DevNull, os.O_WRONLY, 0)
	if err == nil {
		os.Stdout = dn
		defer func() { os.Stdout = old; dn.Close() }()
	}
	f()
}

func c08IDL(c c08Case) string {
	var b strings.Builder
	b.WriteString("struct Event { 1: i64 ID }\n\nscope " + c.name)
	if c.prefix != "" {
		b.WriteString(" prefix " + c.prefix)
	}
	b.WriteString(" {\n")
	for _, op := range c.ops {
		b.WriteString("    " + op + ": Event\n")
	}
	b.WriteString("}\n")
	return b.String()
}

type c08Cell struct {
	tmpl, topic string
	ok          bool // the evaluator stayed inside the plain fragment
	found       bool
	conflict    bool // several occurrences for the same (op, lang.role) that differ
}

type c08Result struct {
	status string // ok | err:…
	vars   []string
	cells  map[string]map[string]*c08Cell // op -> lang.role -> cell
	failed map[string]bool                // target -> the generator returned an error / panicked
}

func c08RunIDL(idl, delim string, ops, vals []string) (res c08Result) {
	res.cells = map[string]map[string]*c08Cell{}
	res.failed = map[string]bool{}
	dir, err := os.MkdirTemp("", "verif-c08-")
	if err != nil {
		res.status = "err:scratch"
		return
	}
	defer os.RemoveAll(dir)
	file := filepath.Join(dir, "t.frugal")
	if err := os.WriteFile(file, []byte(idl), 0o644); err != nil {
		res.status = "err:scratch"
		return
	}
	var f *parser.Frugal
	var perr error
	if o := guard(20*time.Second, func() { c08Quiet(func() { f, perr = parser.ParseFrugal(file) }) }); o != "" {
		res.status = "err:" + o
		return
	}
	if perr != nil {
		if strings.Contains(perr.Error(), "invalid prefix variable") {
			res.status = "err:badvar"
		} else {
			res.status = "err:parse"
		}
		return
	}
	if len(f.Scopes) != 1 {
		res.status = "err:parse"
		return
	}
	res.vars = append([]string{}, f.Scopes[0].Prefix.Variables...)
	for _, g := range c08Gens {
		outDir := filepath.Join(dir, "out_"+g.key)
		var cerr error
		o := guard(30*time.Second, func() {
			c08Quiet(func() {
				cerr = compiler.Compile(compiler.Options{File: file, Gen: g.gen, Out: outDir, Delim: delim})
			})
		})
		if o != "" || cerr != nil {
			res.failed[g.key] = true // this target's generator failed (e.g. the emitted Go does not parse): its columns are F
			continue
		}
		lang := g.key
		if strings.HasPrefix(lang, "py") {
			lang = "py"
		}
		unit, err := c08Extract(outDir, lang)
		if err != nil {
			res.status = "err:compile"
			return
		}
		nv := len(res.vars)
		call := func(f *c08Func, vs []string) (string, string, bool) {
			if len(vs) < nv {
				return "", "", false
			}
			pos := append([]string{}, vs[:nv]...)
			if f.role == "pub" { // Publish<Op>(ctx, vars…, req)
				pos = append(append([]string{c08Opaque}, pos...), c08Opaque)
			} else { // Subscribe<Op>(vars…, handler)
				pos = append(pos, c08Opaque)
			}
			return unit.evalEntry(f, pos, 0)
		}
		for _, f := range unit.funcs {
			if f.triple == nil && !f.hasFwd {
				continue
			}
			opName := unit.opOf(f, 0)
			_, mt, ok1 := call(f, markers(nv))
			_, vt, ok2 := call(f, vals)
			kind := c08Kind(f, opName)
			if kind == "" {
				continue
			}
			col := g.key + "." + kind
			if res.cells[opName] == nil {
				res.cells[opName] = map[string]*c08Cell{}
			}
			cell := &c08Cell{found: true, ok: ok1 && ok2}
			if cell.ok {
				cell.tmpl, cell.topic = c08Template(mt), vt
			}
			if old := res.cells[opName][col]; old != nil {
				if *old != *cell {
					old.conflict = true
				}
				continue
			}
			res.cells[opName][col] = cell
		}
	}
	res.status = "ok"
	return
}

func markers(n int) []string {
	m := make([]string, n)
	for i := range m {
		m[i] = c08Marker(i)
	}
	return m
}

func (r c08Result) render(prefix string, ops []string) string {
	if r.status != "ok" {
		return r.status
	}
	var b strings.Builder
	b.WriteString("ok vars=" + hexList(r.vars))
	for _, op := range ops {
		b.WriteString(" " + hx([]byte(op)) + ":")
		for i, col := range c08Cols {
			if i > 0 {
				b.WriteByte(';')
			}
			b.WriteString(col + "=")
			cell := r.cells[op][col]
			switch {
			case c08Hazard(c08ColLang(col), prefix):
				b.WriteString("H") // the exact class of the finding prefix-token-format-chars for this target: not evaluated
			case r.failed[c08ColLang(col)]:
				b.WriteString("F")
			case cell == nil || !cell.found:
				b.WriteString("X") // not extractable: the emitted text no longer has the expected shape
			case cell.conflict:
				b.WriteString("C")
			case !cell.ok:
				b.WriteString("B@fail")
			default:
				b.WriteString(cell.tmpl + "@" + hx([]byte(cell.topic)))
			}
		}
	}
	return b.String()
}

// ---------- the oracle ----------

type c08Fail struct{ what, detail string }

func c08ValidUTF8(c c08Case) bool {
	for _, s := range append(append([]string{c.prefix, c.name, c.delim}, c.ops...), c.vals...) {
		if !utf8.ValidString(s) || strings.ContainsAny(s, c08MarkL+c08MarkR) {
			return false
		}
	}
	return true
}

func c08Oracle(c c08Case, r c08Result) (fails []c08Fail, knownTitle bool) {
	if r.status != "ok" {
		return nil, false
	}
	titled := c08Title(c.name) == c.name
	for _, op := range c.ops {
		cells := r.cells[op]
		specT := c08Spec(c, c08Title(c.name), op)
		specR := c08Spec(c, c.name, op)
		get := func(col string) *c08Cell {
			if cells == nil {
				return nil
			}
			return cells[col]
		}
		// publisher = subscriber, per language
		for _, l := range []string{"go", "java", "dart", "pyaio", "pytor"} {
			if c08Hazard(l, c.prefix) || r.failed[l] {
				continue
			}
			p := get(l + ".pub")
			for _, sk := range []string{"sub", "sube", "subt"} {
				s := get(l + "." + sk)
				if p == nil || s == nil {
					continue // not an entry point of this language, or extraction failed (= a disagreement with the model)
				}
				if p.conflict || s.conflict {
					fails = append(fails, c08Fail{"two functions of the same entry point give different topics within one language", l + " op " + op})
					continue
				}
				if p.ok && s.ok && (p.topic != s.topic || p.tmpl != s.tmpl) {
					fails = append(fails, c08Fail{"publisher topic differs from subscriber topic", fmt.Sprintf("%s op %s pub %q %s %q", l, op, p.topic, sk, s.topic)})
				}
			}
		}
		// every language = spec (hence all languages agree)
		for _, col := range c08Cols {
			lang := c08ColLang(col)
			if c08Hazard(lang, c.prefix) {
				continue // recorded finding prefix-token-format-chars, exact class for this target
			}
			if r.failed[lang] {
				fails = append(fails, c08Fail{"the " + langName(lang) + " generator fails on a valid scope outside the recorded classes", col})
				continue
			}
			cell := get(col)
			if cell == nil || cell.conflict {
				continue
			}
			want := specT
			if strings.HasPrefix(lang, "py") && !titled {
				want = specR // recorded finding python-scope-name-not-titled: compared with the name as written
				if cell.ok && cell.topic != specT {
					knownTitle = true
				}
			}
			if lang == "dart" && c08DartGlue(c.prefix, c.delim) && !cell.ok {
				continue // recorded finding dart-variable-glued-to-delimiter: `$var` runs into the delimiter
			}
			if !cell.ok {
				fails = append(fails, c08Fail{"generated " + langName(lang) + " topic expression is not a plain format (wrong at run time or does not compile)", fmt.Sprintf("%s op %s", col, op)})
				continue
			}
			if cell.topic != want {
				what := "topic differs from the spec string (prefix with the arguments substituted in order, scope name, operation joined by the delimiter)"
				fails = append(fails, c08Fail{what, fmt.Sprintf("%s op %s got %q want %q", col, op, cell.topic, want)})
			}
		}
	}
	return
}

func langName(l string) string {
	switch l {
	case "go":
		return "Go"
	case "java":
		return "Java"
	case "dart":
		return "Dart"
	}
	return "Python"
}

// c08Exec runs one case against the real compiler: canonical output, oracle verdict.
func c08Exec(c c08Case) (outp string, fails []c08Fail) {
	if !c08ValidUTF8(c) || len(c.ops) == 0 {
		return "err:parse", nil
	}
	r := c08RunIDL(c08IDL(c), c.delim, c.ops, c.vals)
	if r.status == "ok" && len(c.vals) < len(r.vars) {
		return "err:parse", nil // not a well-formed case: fewer values than variables
	}
	fails, _ = c08Oracle(c, r)
	return r.render(c.prefix, c.ops), fails
}

// ---------- generators ----------

var c08Reserved = map[string]bool{}

func init() {
	for _, w := range strings.Fields(`op prefix topic ctx fctx req handler transport delimiter provider middleware self this
		if in is as or do go for var val def new try int map nil null true false void byte bool list set string double binary
		func type chan else case enum class const final super yield async await import return switch default package
		struct union scope service include typedef namespace exception extends throws oneway optional required
		i8 i16 i32 i64 and not del from pass with while break print exec lambda None True False long short char float
		method methods client cb err ret args result buffer oprot iprot msg protocol Event event dynamic is on`) {
		c08Reserved[w] = true
	}
}

const (
	c08Lower = "abcdefghijklmnopqrstuvwxyz"
	c08Upper = "ABCDEFGHIJKLMNOPQRSTUVWXYZ"
	c08Digit = "0123456789"
)

func c08Ident2(r *Rng, first string, minLen, maxLen int) string {
	for {
		n := minLen + r.Intn(maxLen-minLen+1)
		b := make([]byte, n)
		b[0] = first[r.Intn(len(first))]
		rest := c08Lower + c08Upper + c08Digit + "_"
		for i := 1; i < n; i++ {
			b[i] = rest[r.Intn(len(rest))]
		}
		s := string(b)
		// identifiers with an empty `_`-separated word (`_x`, `x_`, `a__b`) crash the Go generator's
		// snakeToCamel (C11's defect, not a topic question): not generated
		if !c08Reserved[s] && !c08Reserved[strings.ToLower(s)] && !strings.HasSuffix(s, "_") && !strings.Contains(s, "__") {
			return s
		}
	}
}

// scope / operation names: any capitalisation
func c08Name(r *Rng) string {
	switch r.Intn(9) {
	case 0, 1, 2, 3:
		return c08Ident2(r, c08Upper, 1, 8)
	case 4, 5, 6, 7:
		return c08Ident2(r, c08Lower, 1, 8)
	default:
		return r.pickStr("Events", "events", "eVENTS", "E", "e", "fooBar", "Foo_bar", "x9")
	}
}

func (r *Rng) pickStr(xs ...string) string { return xs[r.Intn(len(xs))] }

// a variable name the parser accepts: ^[A-Za-z]+[A-Za-z0-9] then word characters
func c08VarName(r *Rng) string {
	return c08Ident2(r, c08Lower+c08Upper, 2, 7)
}

var c08WordAlphabet = []string{"a", "b", "c", "x", "y", "z", "A", "Q", "Z", "0", "7", "_", "-", "*", ">", "/", ":", "+", "~", "!", "@", "#", "&", "=", ",", ";", "<", "(", ")", "[", "]", "|", "?", "^", "é", "日", "ß"}

func c08Word(r *Rng) string {
	if r.Chance(12) { // format / quoting characters: outside the finding's exact class they must be read as text
		w := r.pickStr("%", "%d", "%s", "%%", "50%", "a%b", "\"", "a\"b", "'", "it's", "\\", "a\\n", "$", "$x", "a$", "{a-b}", "{x+}", "100%.", "{-}")
		return strings.TrimSuffix(w, ".")
	}
	if r.Chance(30) {
		return r.pickStr("foo", "bar", "v1", "events", "*", ">", "a-b", "x_y", "A", "frugal")
	}
	n := 1 + r.Intn(6)
	var b strings.Builder
	for i := 0; i < n; i++ {
		if r.Chance(75) {
			b.WriteString(c08WordAlphabet[r.Intn(11)]) // mostly alphanumerics
		} else {
			b.WriteString(c08WordAlphabet[r.Intn(len(c08WordAlphabet))])
		}
	}
	return b.String()
}

func c08Value(r *Rng) string {
	switch r.Intn(8) {
	case 0:
		return ""
	case 1:
		return r.pickStr("bill", "%s", "%d", "{}", "{0}", "$user", "${x}", "a.b", "/", "\\", "\"", "'", "%", "日本")
	default:
		n := 1 + r.Intn(8)
		var b strings.Builder
		for i := 0; i < n; i++ {
			if r.Chance(80) {
				b.WriteByte((c08Lower + c08Upper + c08Digit)[r.Intn(62)])
			} else {
				b.WriteString(r.pickStr("%", "{", "}", "$", ".", "/", "_", "-", " ", "é", "😀", "'", "\""))
			}
		}
		return b.String()
	}
}

func genC08(r *Rng) (c c08Case, kind string) {
	c.name = c08Name(r)
	c.delim = c08Delims[r.Intn(len(c08Delims))]
	nops := 1 + r.Intn(3)
	seen := map[string]bool{strings.ToLower(c.name): true}
	for len(c.ops) < nops {
		o := c08Name(r)
		if seen[strings.ToLower(o)] {
			continue
		}
		seen[strings.ToLower(o)] = true
		c.ops = append(c.ops, o)
	}
	kind = "valid"
	ntok := r.Pick(0, 0, 1, 1, 2, 2, 3, 3, 4, 5)
	pvar := 45
	if r.Chance(35) { // scopes with 2–4 variables: the binding of arguments to variables matters
		ntok, pvar = 2+r.Intn(4), 75
	}
	nvars := 0
	var toks []string
	for i := 0; i < ntok; i++ {
		if nvars < 4 && r.Chance(pvar) {
			v := c08VarName(r)
			if seen[strings.ToLower(v)] {
				i--
				continue
			}
			seen[strings.ToLower(v)] = true
			toks = append(toks, "{"+v+"}")
			nvars++
		} else {
			toks = append(toks, c08Word(r))
		}
	}
	// a few prefixes the parser must reject: a brace-wrapped word that is not an identifier of ≥ 2 characters
	if ntok > 0 && r.Chance(6) {
		kind = "badvar"
		toks[r.Intn(len(toks))] = "{" + r.pickStr("u", "X", "1a", "_a", "9", "a", "__") + "}"
	}
	// `prefix` is followed by `__`, which also skips comments: a first token that opens a
	// comment (#…, //…, /*…) is not a prefix token for the IDL lexer
	for len(toks) > 0 && (strings.HasPrefix(toks[0], "#") || strings.HasPrefix(toks[0], "//") || strings.HasPrefix(toks[0], "/*")) {
		toks[0] = toks[0][1:] + "x"
	}
	c.prefix = strings.Join(toks, ".")
	nv := 0
	_, isVar := c08Tokens(c.prefix)
	for _, v := range isVar {
		if v {
			nv++
		}
	}
	// pairwise DIFFERENT runtime values: a permuted, dropped or duplicated variable anywhere between
	// the public entry point and the prefix expression then changes the topic
	for len(c.vals) < nv {
		v := c08Value(r)
		dup := false
		for _, w := range c.vals {
			dup = dup || w == v
		}
		if !dup {
			c.vals = append(c.vals, v)
		}
	}
	return
}

// ---------- known-finding witnesses ----------

func c08KnownDir() string {
	if d := os.Getenv("VERIF_DIR"); d != "" {
		return filepath.Join(d, "known")
	}
	if exe, err := os.Executable(); err == nil {
		d := filepath.Join(filepath.Dir(filepath.Dir(exe)), "known")
		if st, err := os.Stat(d); err == nil && st.IsDir() {
			return d
		}
	}
	return "/verif/known"
}

// witness files: the IDL plus `// c08: delim=<d> vals=<v,…> ops=<o,…>` in a comment line
func c08Witness(file string) (idl, delim string, ops, vals []string, ok bool) {
	data, err := os.ReadFile(filepath.Join(c08KnownDir(), file))
	if err != nil {
		return
	}
	delim = "."
	for _, l := range strings.Split(string(data), "\n") {
		if strings.HasPrefix(l, "// c08:") {
			for _, kv := range strings.Fields(l[len("// c08:"):]) {
				k, v, _ := strings.Cut(kv, "=")
				switch k {
				case "delim":
					delim = v
				case "vals":
					vals = strings.Split(v, ",")
				case "ops":
					ops = strings.Split(v, ",")
				}
			}
		}
	}
	return string(data), delim, ops, vals, len(ops) > 0
}

func c08Known() {
	// (b) Python uses the scope name as written, Go/Java/Dart capitalise it
	if idl, delim, ops, vals, ok := c08Witness("c08_python_scope_title.frugal"); ok {
		r := c08RunIDL(idl, delim, ops, vals)
		if r.status == "ok" {
			g, p := r.cells[ops[0]]["go.pub"], r.cells[ops[0]]["pytor.pub"]
			if g != nil && p != nil && g.ok && p.ok && g.topic != p.topic {
				Known("python-scope-name-not-titled", fmt.Sprintf("scope `events`: generated Python publishes/subscribes on %q, generated Go/Java/Dart on %q (Python uses the scope name as written, the others strings.Title)", p.topic, g.topic))
			}
		}
	}
	// (c) static prefix tokens are pasted into format strings / string literals
	if idl, delim, ops, vals, ok := c08Witness("c08_prefix_format_chars.frugal"); ok {
		r := c08RunIDL(idl, delim, ops, vals)
		if r.status == "ok" {
			g := r.cells[ops[0]]["go.pub"]
			if g != nil && !g.ok {
				Known("prefix-token-format-chars", "scope Events prefix a%d.{user}: static prefix token pasted into the format string: Go emits fmt.Sprintf(\"a%d.%s.\", user) (topic a%!d(string=bill).%!s(MISSING).Events.…), Java/Python raise at run time, Dart bakes the garbage into the source; the exact class per target is known/c08_format_chars_expected.json")
			}
		} else if r.status == "err:compile" {
			Known("prefix-token-format-chars", "scope Events prefix a%d.{user}: static prefix token pasted into the format string and the compiler fails to generate; the exact class per target is known/c08_format_chars_expected.json")
		}
	}
}

func c08KnownDart() {
	// Dart: `$var` directly followed by a delimiter that continues the identifier
	if idl, delim, ops, vals, ok := c08Witness("c08_dart_variable_glued.frugal"); ok {
		r := c08RunIDL(idl, delim, ops, vals)
		if r.status == "ok" {
			d, g := r.cells[ops[0]]["dart.pub"], r.cells[ops[0]]["go.pub"]
			if d != nil && g != nil && !d.ok && g.ok {
				Known("dart-variable-glued-to-delimiter", fmt.Sprintf("scope Events prefix foo.{user} with -delim __: generated Dart has var prefix = 'foo.$user__' (undefined identifier user__, does not compile); Go/Java/Python give %q", g.topic))
			}
		}
	}
}

// ---------- census of the finding's class ----------
//
// For one character ch of % " ' \ $ { } and a prefix without (hv=false) or with (hv=true) variables:
// scopes with ch in a static token at every position of the token list (before / between / after
// the variables; with hv: one and two variables) and at the start / middle / end of the token are
// compiled by the real generators; per target: "ok" = every entry point of every such scope gives
// the spec string, "fail" = none does, "mixed" otherwise. Line: c08hz <target> <0|1> <char hex>.
func c08CensusScopes(ch byte, hv bool) []c08Case {
	var toksT []string
	if ch == '{' || ch == '}' {
		toksT = []string{"{a-b}"} // the only grammatical static token with braces
	} else {
		c := string(ch)
		toksT = []string{c + "ab", "a" + c + "b", "ab" + c}
	}
	var shapes [][]string
	if !hv {
		shapes = [][]string{{"T"}, {"w", "T"}, {"T", "w"}}
	} else {
		shapes = [][]string{{"T", "{va}"}, {"{va}", "T"}, {"w", "T", "{va}"}, {"T", "{va}", "{vb}"}, {"{va}", "T", "{vb}"}, {"{va}", "{vb}", "T"}}
	}
	var out []c08Case
	for _, sh := range shapes {
		for _, t := range toksT {
			var toks, vals []string
			for _, x := range sh {
				switch x {
				case "T":
					toks = append(toks, t)
				case "w":
					toks = append(toks, "foo")
				default:
					toks = append(toks, x)
					vals = append(vals, "val"+x[2:3])
				}
			}
			out = append(out, c08Case{prefix: strings.Join(toks, "."), name: "Events", delim: ".", ops: []string{"Op"}, vals: vals})
		}
	}
	return out
}

var c08CensusCache = map[string]c08Result{}

func c08CensusCell(target string, ch byte, hv bool) (verdict string, witness c08Case) {
	nOK, nFail := 0, 0
	for _, c := range c08CensusScopes(ch, hv) {
		r, seen := c08CensusCache[c.prefix]
		if !seen {
			r = c08RunIDL(c08IDL(c), c.delim, c.ops, c.vals)
			c08CensusCache[c.prefix] = r
		}
		good := r.status == "ok" && !r.failed[target]
		if good {
			want := c08Spec(c, c.name, "Op")
			n := 0
			for _, col := range c08Cols {
				if c08ColLang(col) != target {
					continue
				}
				cell := r.cells["Op"][col]
				n++
				good = good && cell != nil && cell.ok && !cell.conflict && cell.topic == want
			}
			good = good && n > 0
		}
		if good {
			nOK++
		} else {
			nFail++
			witness = c
		}
	}
	switch {
	case nFail == 0:
		return "ok", witness
	case nOK == 0:
		return "fail", witness
	}
	return "mixed", witness
}

func c08Census() {
	for _, g := range c08Gens {
		for _, hv := range []bool{false, true} {
			for i := 0; i < len(c08HzChars); i++ {
				ch := c08HzChars[i]
				got, w := c08CensusCell(g.key, ch, hv)
				row := c08Hz()[g.key]
				set, hvs := row.Novars, "0"
				if hv {
					set, hvs = row.Vars, "1"
				}
				line := fmt.Sprintf("c08hz %s %s %s", g.key, hvs, hx([]byte{ch}))
				Case(line, got)
				Stat("census:" + got)
				if got != "ok" && strings.IndexByte(set, ch) < 0 {
					// outside the recorded class and the property fails: a violation with its failing scope
					OracleFail("a static prefix token with a character OUTSIDE the recorded class of prefix-token-format-chars is not read as text by generated "+langName(g.key)+" code",
						map[string]interface{}{"op": "c08", "line": w.line(), "idl": c08IDL(w), "char": string(ch), "target": g.key, "has_variables": hv})
				}
			}
		}
	}
}

// ---------- suite ----------

// the check splits a suite into jobs with seeds seed*1000+i: the census runs in the first one only
func c08FirstJob() bool {
	for i, a := range os.Args {
		if a == "-seed" && i+1 < len(os.Args) {
			if n, err := strconv.ParseUint(os.Args[i+1], 10, 64); err == nil {
				return n%1000 == 0 || n < 1000
			}
		}
	}
	return true
}

func c08Report(c c08Case, fails []c08Fail) {
	seen := map[string]bool{}
	for _, f := range fails {
		if seen[f.what] {
			continue
		}
		seen[f.what] = true
		OracleFail(f.what, map[string]interface{}{"op": "c08", "line": c.line(), "detail": f.detail, "idl": c08IDL(c), "delim": c.delim})
	}
}

func init() {
	suites["c08"] = func(r *Rng, n int) {
		c08Known()
		c08KnownDart()
		if c08FirstJob() {
			c08Census()
		}
		for i := 0; i < n; i++ {
			c, kind := genC08(r)
			outp, fails := c08Exec(c)
			for _, g := range c08Gens {
				if c08Hazard(g.key, c.prefix) {
					Stat("format-chars-class:" + g.key)
				}
			}
			if tk, iv := c08Tokens(c.prefix); true {
				for k, t := range tk {
					if !iv[k] && strings.ContainsAny(t, c08HzChars) {
						Stat("static-token-with-format-character")
						break
					}
				}
			}
			Case(c.line(), outp)
			c08Report(c, fails)
			Stat("evaluations")
			Stat("kind:" + kind)
			Stat("outcome:" + clip(outp))
			Stat("delim:" + c.delim)
			Stat(fmt.Sprintf("ops:%d", len(c.ops)))
			Stat(fmt.Sprintf("vars:%d", len(c.vals)))
			toks, _ := c08Tokens(c.prefix)
			Stat(fmt.Sprintf("tokens:%d", len(toks)))
			switch {
			case c08Title(c.name) == c.name:
				Stat("name:capitalised")
			default:
				Stat("name:lower-case(python-finding-class)")
			}
			if c08DartGlue(c.prefix, c.delim) {
				Stat("dart:variable-then-identifier-delimiter")
			}
			if i < 4 {
				Sample(map[string]interface{}{"idl": c08IDL(c), "delim": c.delim, "vals": c.vals, "real": outp})
			}
		}
	}
	lineOps["c08hz"] = func(args []string) (string, bool) {
		if len(args) != 3 {
			return "err:parse", true
		}
		ch := unhx(args[2])
		if len(ch) != 1 {
			return "err:parse", true
		}
		got, _ := c08CensusCell(args[0], ch[0], args[1] == "1")
		return got, true
	}
	lineOps["c08"] = func(args []string) (string, bool) {
		c, ok := c08ParseLine(args)
		if !ok {
			return "err:parse", true
		}
		outp, fails := c08Exec(c)
		c08Report(c, fails) // reported here with the specific `what` (the shrinker follows one failure)
		return outp, true
	}
}
