package main

import (
	"os"
	"path/filepath"

	"github.com/Workiva/frugal/compiler/parser"
)

// parseText parses IDL text through the real parser (files are written to a
// scratch directory that is removed afterwards).
func parseText(files map[string]string, main string) (*parser.Frugal, error) {
	dir, err := os.MkdirTemp("", "verif-cc-")
	if err != nil {
		return nil, err
	}
	defer os.RemoveAll(dir)
	for name, text := range files {
		p := filepath.Join(dir, name)
		os.MkdirAll(filepath.Dir(p), 0o755)
		if err := os.WriteFile(p, []byte(text), 0o644); err != nil {
			return nil, err
		}
	}
	return parser.ParseFrugal(filepath.Join(dir, main))
}

func init() {
	suites["smoke"] = func(r *Rng, n int) {
		f, err := parseText(map[string]string{"a.frugal": "struct S { 1: i32 x }\n"}, "a.frugal")
		if err != nil || len(f.Structs) != 1 {
			OracleFail("smoke: parser did not return one struct", map[string]interface{}{"err": err})
		}
		Case("smoke", "bad-op")
		Stat("evaluations")
	}
}
