module verif/locks

go 1.20
