// locks reads /repo's current lib/go sources (go/ast, no type checker) and regenerates
// lean/FV/Generated/Locks.lean: for every function that touches a mutex, which mutexes it acquires,
// which calls it makes WHILE a mutex is held, and where it can return with a mutex it locked itself
// still held. The Lean side (FV/Model/Locks.lean) closes the call graph and decides the discipline
// the atomic-step models of the registry, the processor's write mutex, the transports' lifecycle lock and
// FContext rest on:
//
//   (N) no function calls — directly or through callees — something that acquires a mutex it is holding
//       (Go mutexes are not re-entrant; a second RLock blocks for ever once a writer waits);
//   (L) every Lock / RLock is released on every path out of the function that took it.
//
// usage: locks <repo> <out.lean>
//
// Abstraction (stated in DESIGN.md): lexical, path-insensitive at joins (a mutex counts as held after an
// if/else when it is held on a branch that falls through); a mutex is identified by the text of the
// expression it is reached through, with the method receiver replaced by its type and promoted fields
// attributed to the embedded struct that declares them; calls are resolved to methods of the receiver,
// of concretely typed fields (through embedding) and to package-level functions; calls through interfaces,
// function values and other packages are NOT followed; `go` statements do not inherit the caller's locks.
package main

import (
	"fmt"
	"go/ast"
	"go/parser"
	"go/printer"
	"go/token"
	"os"
	"path/filepath"
	"sort"
	"strings"
)

type structInfo struct {
	fields   map[string]string // field name -> type name (pointer/package stripped) ; "" for non-named
	byValue  map[string]bool   // field declared without `*`
	embedded []string
}

var (
	fset    = token.NewFileSet()
	structs = map[string]*structInfo{}
	methods = map[string]*ast.FuncDecl{} // "T.m" or "f"
	pkgVars = map[string]bool{}
	lockCopies []string
	loopShares []string
	sharedCtors []string
	// perLoopVarShared: lib/go's go.mod declares a Go version below 1.22 (loop variables are per loop, not per iteration)
	perLoopVarShared bool
)

// sharedConstructors: a function named New… that returns the ADDRESS of a package-level variable hands every
// caller the same mutable object (a caller customising "its" value reconfigures everybody's).
func sharedConstructors(name string, fd *ast.FuncDecl) {
	if !strings.HasPrefix(fd.Name.Name, "New") {
		return
	}
	ast.Inspect(fd.Body, func(n ast.Node) bool {
		if _, ok := n.(*ast.FuncLit); ok {
			return false
		}
		ret, ok := n.(*ast.ReturnStmt)
		if !ok {
			return true
		}
		for _, r := range ret.Results {
			if u, ok := r.(*ast.UnaryExpr); ok && u.Op == token.AND {
				if id, ok := u.X.(*ast.Ident); ok && pkgVars[id.Name] && (id.Obj == nil || id.Obj.Pos() < fd.Pos() || id.Obj.Pos() > fd.End()) {
					sharedCtors = append(sharedCtors, name+":"+id.Name)
				}
			}
			if id, ok := r.(*ast.Ident); ok && pkgVars[id.Name] && ptrVars[id.Name] && (id.Obj == nil || id.Obj.Pos() < fd.Pos() || id.Obj.Pos() > fd.End()) {
				sharedCtors = append(sharedCtors, name+":"+id.Name)
			}
		}
		return true
	})
}

// ptrVars: package-level variables initialised with &T{…} or new(T) (returning them is returning a shared pointer).
var ptrVars = map[string]bool{}

// loopSharedCaptures: inside a `for` body, a `go func(){…}()` that uses a variable which is declared OUTSIDE
// the loop and assigned (`=`) inside the loop body outside the literal: every goroutine started by the loop
// shares that one variable (the accept-loop hazard: two goroutines serve the newest connection).
func loopSharedCaptures(name string, body *ast.BlockStmt) {
	ast.Inspect(body, func(n ast.Node) bool {
		var loopBody *ast.BlockStmt
		var loopPos token.Pos
		switch x := n.(type) {
		case *ast.ForStmt:
			loopBody, loopPos = x.Body, x.Pos()
		case *ast.RangeStmt:
			loopBody, loopPos = x.Body, x.Pos()
		}
		if loopBody == nil {
			return true
		}
		assigned := map[*ast.Object]bool{}
		if perLoopVarShared {
			// before Go 1.22 (per go.mod's go directive) the loop's own variables are ONE variable for all
			// iterations: a goroutine literal that uses them (instead of taking them as arguments) shares them
			switch x := n.(type) {
			case *ast.RangeStmt:
				if x.Tok == token.DEFINE {
					for _, e := range []ast.Expr{x.Key, x.Value} {
						if id, ok := e.(*ast.Ident); ok && id.Obj != nil && id.Name != "_" {
							assigned[id.Obj] = true
						}
					}
				}
			case *ast.ForStmt:
				if as, ok := x.Init.(*ast.AssignStmt); ok && as.Tok == token.DEFINE {
					for _, e := range as.Lhs {
						if id, ok := e.(*ast.Ident); ok && id.Obj != nil && id.Name != "_" {
							assigned[id.Obj] = true
						}
					}
				}
			}
		}
		var lits []*ast.FuncLit
		var walk func(m ast.Node, inLit bool)
		walk = func(m ast.Node, inLit bool) {
			ast.Inspect(m, func(k ast.Node) bool {
				switch y := k.(type) {
				case *ast.GoStmt:
					if lit, ok := y.Call.Fun.(*ast.FuncLit); ok {
						lits = append(lits, lit)
						for _, a := range y.Call.Args {
							walk(a, inLit)
						}
						return false
					}
				case *ast.AssignStmt:
					if y.Tok == token.ASSIGN && !inLit {
						for _, l := range y.Lhs {
							if id, ok := l.(*ast.Ident); ok && id.Obj != nil && id.Obj.Pos() < loopPos {
								assigned[id.Obj] = true
							}
						}
					}
				}
				return true
			})
		}
		walk(loopBody, false)
		for _, lit := range lits {
			seen := map[*ast.Object]bool{}
			ast.Inspect(lit.Body, func(k ast.Node) bool {
				if id, ok := k.(*ast.Ident); ok && id.Obj != nil && assigned[id.Obj] && !seen[id.Obj] {
					seen[id.Obj] = true
					loopShares = append(loopShares, name+":"+id.Name)
				}
				return true
			})
		}
		return true
	})
}

// aliases: two names for ONE mutex. FBaseProcessorFunction.writeMu is the *sync.Mutex that the emitted
// processor constructors obtain from FBaseProcessor.GetWriteMutex() (trusted; see DESIGN.md).
var aliases = map[string]string{"FBaseProcessorFunction.writeMu": "FBaseProcessor.writeMu"}

// callRoots: the calls whose duration C13 bounds by the FContext timeout; their masks are emitted so that
// the Lean side can decide that no lifecycle lock (held across the underlying Open / Close) is on their path.
var callRoots = []string{"fAdapterTransport.Request", "fAdapterTransport.Oneway", "fNatsTransport.Request", "fNatsTransport.Oneway",
	"fHTTPTransport.Request", "fHTTPTransport.Oneway"}

// tags: which lock a mutex is, for the property-specific theorems (0 = unclassified, counted everywhere).
var tags = map[string]int{
	"fRegistryImpl.mu": 1, "fAdapterTransport.mu": 2, "TFramedTransport.mu": 3, "FContextImpl.mu": 4,
	"FBaseProcessor.writeMu": 5, "fNatsServer.sendMu": 6,
	"fNatsSubscriberTransport.openMu": 7, "fStompSubscriberTransport.openMu": 7, "pkg.loggerMu": 8,
}

func typeName(e ast.Expr) string {
	switch x := e.(type) {
	case *ast.StarExpr:
		return typeName(x.X)
	case *ast.Ident:
		return x.Name
	case *ast.SelectorExpr:
		return exprText(x)
	case *ast.IndexExpr: // generic instantiation: atomic.Pointer[T]
		return typeName(x.X)
	}
	return ""
}

func exprText(e ast.Expr) string {
	var b strings.Builder
	printer.Fprint(&b, fset, e)
	return b.String()
}

// fieldOwner: the struct (T or something it embeds) that declares field f, and the field's type.
func fieldOwner(t, f string, depth int) (string, string, bool) {
	si := structs[t]
	if si == nil || depth > 4 {
		return "", "", false
	}
	if ft, ok := si.fields[f]; ok {
		return t, ft, true
	}
	for _, e := range si.embedded {
		if o, ft, ok := fieldOwner(e, f, depth+1); ok {
			return o, ft, true
		}
	}
	return "", "", false
}

// methodOwner: T or an embedded struct that declares method m.
func methodOwner(t, m string, depth int) (string, bool) {
	if _, ok := methods[t+"."+m]; ok {
		return t, true
	}
	si := structs[t]
	if si == nil || depth > 4 {
		return "", false
	}
	for _, e := range si.embedded {
		if o, ok := methodOwner(e, m, depth+1); ok {
			return o, true
		}
	}
	return "", false
}

// hasMutexByValue: struct t declares (or embeds a struct that declares) a sync.Mutex / sync.RWMutex by value.
func hasMutexByValue(t string, depth int) bool {
	si := structs[t]
	if si == nil || depth > 4 {
		return false
	}
	for f := range si.fields {
		if si.byValue[f] && (si.fields[f] == "sync.Mutex" || si.fields[f] == "sync.RWMutex") {
			return true
		}
	}
	for _, e := range si.embedded {
		if hasMutexByValue(e, depth+1) {
			return true
		}
	}
	return false
}

type fn struct {
	name      string
	acquires  map[string]bool     // mutex key
	heldCalls map[[2]string]bool  // (mutex key, callee)
	calls     map[string]bool     // every resolved callee (for the closure)
	leaks     map[string]bool     // mutex key still held at a return / at the end
	heldAcq   map[[2]string]bool  // (mutex held, OTHER mutex acquired lexically under it)
	recvName  string
	recvType  string
	// guarded-by: writes to fields of the receiver's struct (when that struct holds a mutex) made while no
	// mutex of the receiver is WRITE-held, and every resolved call site with whether one was write-held
	manualCalls map[string]bool  // "mutex:callee text" — a call made while the mutex is held and no deferred unlock covers it
	bareWrites map[string]bool   // "Owner.field"
	callSites  map[string][]bool // callee -> per call site: a mutex of the caller's receiver write-held
}

// mutexKey renders the expression a Lock/Unlock is called on.
func (f *fn) mutexKey(x ast.Expr) string {
	k := f.mutexKey0(x)
	if a, ok := aliases[k]; ok {
		return a
	}
	return k
}

func (f *fn) mutexKey0(x ast.Expr) string {
	switch e := x.(type) {
	case *ast.Ident:
		if pkgVars[e.Name] {
			return "pkg." + e.Name // a package-level mutex
		}
		return f.name + "#" + e.Name // a local mutex
	case *ast.SelectorExpr:
		if id, ok := e.X.(*ast.Ident); ok && id.Name == f.recvName && f.recvType != "" {
			if owner, _, ok := fieldOwner(f.recvType, e.Sel.Name, 0); ok {
				return owner + "." + e.Sel.Name
			}
			return f.recvType + "." + e.Sel.Name
		}
		// recv.field.mu : attribute to the field's type when it is a concrete struct of the package
		if inner, ok := e.X.(*ast.SelectorExpr); ok {
			if id, ok := inner.X.(*ast.Ident); ok && id.Name == f.recvName && f.recvType != "" {
				if _, ft, ok := fieldOwner(f.recvType, inner.Sel.Name, 0); ok && structs[ft] != nil {
					if owner, _, ok := fieldOwner(ft, e.Sel.Name, 0); ok {
						return owner + "." + e.Sel.Name
					}
				}
			}
		}
	}
	return f.name + "#" + exprText(x)
}

// callee resolves a call to a function of the package, "" when it is not followed.
func (f *fn) callee(c *ast.CallExpr) string {
	switch e := c.Fun.(type) {
	case *ast.Ident:
		if _, ok := methods[e.Name]; ok {
			return e.Name
		}
	case *ast.SelectorExpr:
		if id, ok := e.X.(*ast.Ident); ok && id.Name == f.recvName && f.recvType != "" {
			if o, ok := methodOwner(f.recvType, e.Sel.Name, 0); ok {
				return o + "." + e.Sel.Name
			}
			return ""
		}
		if inner, ok := e.X.(*ast.SelectorExpr); ok {
			if id, ok := inner.X.(*ast.Ident); ok && id.Name == f.recvName && f.recvType != "" {
				if _, ft, ok := fieldOwner(f.recvType, inner.Sel.Name, 0); ok && structs[ft] != nil {
					if o, ok := methodOwner(ft, e.Sel.Name, 0); ok {
						return o + "." + e.Sel.Name
					}
				}
			}
		}
	}
	return ""
}

type state struct {
	held     map[string]bool
	deferred map[string]bool
	wheld    map[string]bool // subset of held: taken with Lock (not RLock)
}

func newState() state { return state{map[string]bool{}, map[string]bool{}, map[string]bool{}} }

func (s state) copy() state {
	n := newState()
	for k := range s.held {
		n.held[k] = true
	}
	for k := range s.wheld {
		n.wheld[k] = true
	}
	for k := range s.deferred {
		n.deferred[k] = true
	}
	return n
}

func union(a, b state) state {
	n := a.copy()
	for k := range b.held {
		n.held[k] = true
	}
	// write-held only when write-held on BOTH branches (a write after the join is guarded only then)
	for k := range n.wheld {
		if !b.wheld[k] {
			delete(n.wheld, k)
		}
	}
	for k := range b.deferred {
		n.deferred[k] = true
	}
	return n
}

func lockCall(c *ast.CallExpr) (ast.Expr, string) {
	s, ok := c.Fun.(*ast.SelectorExpr)
	if !ok || len(c.Args) != 0 {
		return nil, ""
	}
	switch s.Sel.Name {
	case "Lock", "RLock":
		return s.X, "acq"
	case "Unlock", "RUnlock":
		return s.X, "rel"
	}
	return nil, ""
}

// exprCalls records every call inside an expression / simple statement (function literals excluded).
func (f *fn) exprCalls(n ast.Node, st *state) {
	if n == nil {
		return
	}
	ast.Inspect(n, func(m ast.Node) bool {
		switch x := m.(type) {
		case *ast.FuncLit:
			return false
		case *ast.CallExpr:
			if mx, what := lockCall(x); what == "acq" {
				k := f.mutexKey(mx)
				f.acquires[k] = true
				for h := range st.held {
					if h == k {
						f.heldCalls[[2]string{h, "<relock>"}] = true
					} else {
						f.heldAcq[[2]string{h, k}] = true
					}
				}
				st.held[k] = true
				if x.Fun.(*ast.SelectorExpr).Sel.Name == "Lock" {
					st.wheld[k] = true
				}
			} else if what == "rel" {
				delete(st.held, f.mutexKey(mx))
				delete(st.wheld, f.mutexKey(mx))
			} else if f.noteManual(x, st); false {
			} else if cal := f.callee(x); cal != "" {
				f.calls[cal] = true
				for h := range st.held {
					f.heldCalls[[2]string{h, cal}] = true
				}
				f.callSites[cal] = append(f.callSites[cal], f.ownWriteHeld(st))
			} else {
				f.callWrites(x, st)
			}
		}
		return true
	})
}

// builtins and conversions that cannot run foreign code
var harmlessCalls = map[string]bool{"len": true, "cap": true, "make": true, "new": true, "append": true, "delete": true, "copy": true, "close": true,
	"string": true, "int": true, "int32": true, "int64": true, "uint32": true, "uint64": true, "byte": true, "panic": true, "recover": true, "min": true, "max": true}

// noteManual: a call made while a mutex is held that no deferred unlock covers — if the callee panics the mutex
// stays locked for ever (the recover further up keeps the process alive and every later user of the mutex hangs).
func (f *fn) noteManual(c *ast.CallExpr, st *state) {
	if id, ok := c.Fun.(*ast.Ident); ok && harmlessCalls[id.Name] {
		return
	}
	for k := range st.held {
		if !st.deferred[k] {
			f.manualCalls[k+":"+exprText(c.Fun)] = true
		}
	}
}

// ownWriteHeld: some mutex that belongs to the receiver's struct (or a struct it embeds) is write-held.
func (f *fn) ownWriteHeld(st *state) bool {
	if f.recvType == "" {
		return false
	}
	for k := range st.wheld {
		if i := strings.Index(k, "."); i > 0 && ownsType(f.recvType, k[:i], 0) {
			return true
		}
	}
	return false
}

func ownsType(t, owner string, depth int) bool {
	if t == owner {
		return true
	}
	si := structs[t]
	if si == nil || depth > 4 {
		return false
	}
	for _, e := range si.embedded {
		if ownsType(e, owner, depth+1) {
			return true
		}
	}
	return false
}

// hasMutex: struct t declares (or embeds a struct that declares) a sync.Mutex / sync.RWMutex, by value or pointer.
func hasMutex(t string, depth int) bool {
	si := structs[t]
	if si == nil || depth > 4 {
		return false
	}
	for f := range si.fields {
		if si.fields[f] == "sync.Mutex" || si.fields[f] == "sync.RWMutex" {
			return true
		}
	}
	for _, e := range si.embedded {
		if hasMutex(e, depth+1) {
			return true
		}
	}
	return false
}

// recvField: e is recv.f, recv.f[i], recv.f.g, *recv.f … — the field of the receiver's struct it starts at.
func (f *fn) recvField(e ast.Expr) (string, bool) {
	for {
		switch x := e.(type) {
		case *ast.ParenExpr:
			e = x.X
		case *ast.StarExpr:
			e = x.X
		case *ast.IndexExpr:
			e = x.X
		case *ast.UnaryExpr:
			e = x.X
		case *ast.SelectorExpr:
			if id, ok := x.X.(*ast.Ident); ok {
				if id.Name == f.recvName && f.recvType != "" {
					if owner, _, ok := fieldOwner(f.recvType, x.Sel.Name, 0); ok {
						return owner + "." + x.Sel.Name, true
					}
				}
				return "", false
			}
			e = x.X
		default:
			return "", false
		}
	}
}

// noteWrite: a write to a field of the receiver's struct; recorded when the struct holds a mutex and none of
// its mutexes is write-held here (the mutex fields themselves are not data).
func (f *fn) noteWrite(e ast.Expr, st *state) {
	if f.recvType == "" || !hasMutex(f.recvType, 0) {
		return
	}
	key, ok := f.recvField(e)
	if !ok {
		return
	}
	if i := strings.Index(key, "."); i > 0 {
		if _, ft, ok := fieldOwner(key[:i], key[i+1:], 0); ok && (ft == "sync.Mutex" || ft == "sync.RWMutex") {
			return
		}
	}
	if !f.ownWriteHeld(st) {
		f.bareWrites[key] = true
	}
}

var atomicWriters = map[string]bool{"Store": true, "Swap": true, "CompareAndSwap": true, "Add": true}

// callWrites: writes that have the shape of a call — delete(recv.f, k), recv.f.Store(v) (sync/atomic types),
// atomic.StoreX(&recv.f, v) / atomic.AddX / atomic.SwapX / atomic.CompareAndSwapX.
func (f *fn) callWrites(c *ast.CallExpr, st *state) {
	switch fun := c.Fun.(type) {
	case *ast.Ident:
		if fun.Name == "delete" && len(c.Args) == 2 {
			f.noteWrite(c.Args[0], st)
		}
	case *ast.SelectorExpr:
		if id, ok := fun.X.(*ast.Ident); ok && id.Name == "atomic" && len(c.Args) > 0 {
			n := fun.Sel.Name
			if strings.HasPrefix(n, "Store") || strings.HasPrefix(n, "Add") || strings.HasPrefix(n, "Swap") || strings.HasPrefix(n, "CompareAndSwap") {
				f.noteWrite(c.Args[0], st)
			}
			return
		}
		if atomicWriters[fun.Sel.Name] {
			if key, ok := f.recvField(fun.X); ok {
				if i := strings.Index(key, "."); i > 0 {
					if _, ft, ok := fieldOwner(key[:i], key[i+1:], 0); ok && strings.HasPrefix(ft, "atomic.") {
						f.noteWrite(fun.X, st)
					}
				}
			}
		}
	}
}

func (f *fn) leakCheck(st state) {
	for k := range st.held {
		if !st.deferred[k] && f.acquires[k] {
			f.leaks[k] = true
		}
	}
}

// block walks statements; returns the fall-through state and whether the block always leaves
// (return / panic / break / continue / goto).
func (f *fn) block(list []ast.Stmt, st state) (state, bool) {
	for _, s := range list {
		var term bool
		st, term = f.stmt(s, st)
		if term {
			return st, true
		}
	}
	return st, false
}

func (f *fn) stmt(s ast.Stmt, st state) (state, bool) {
	switch x := s.(type) {
	case *ast.ReturnStmt:
		for _, r := range x.Results {
			f.exprCalls(r, &st)
		}
		f.leakCheck(st)
		return st, true
	case *ast.BranchStmt:
		return st, true
	case *ast.ExprStmt:
		f.exprCalls(x.X, &st)
		if c, ok := x.X.(*ast.CallExpr); ok {
			if id, ok := c.Fun.(*ast.Ident); ok && id.Name == "panic" {
				return st, true
			}
		}
		return st, false
	case *ast.DeferStmt:
		if mx, what := lockCall(x.Call); what == "rel" {
			st.deferred[f.mutexKey(mx)] = true
			return st, false
		}
		if lit, ok := x.Call.Fun.(*ast.FuncLit); ok {
			ast.Inspect(lit.Body, func(m ast.Node) bool {
				if c, ok := m.(*ast.CallExpr); ok {
					if mx, what := lockCall(c); what == "rel" {
						st.deferred[f.mutexKey(mx)] = true
					}
				}
				return true
			})
		}
		return st, false
	case *ast.GoStmt:
		return st, false
	case *ast.BlockStmt:
		return f.block(x.List, st)
	case *ast.LabeledStmt:
		return f.stmt(x.Stmt, st)
	case *ast.IfStmt:
		if x.Init != nil {
			st, _ = f.stmt(x.Init, st)
		}
		f.exprCalls(x.Cond, &st)
		a, ta := f.block(x.Body.List, st.copy())
		b, tb := st.copy(), false
		if x.Else != nil {
			b, tb = f.stmt(x.Else, st.copy())
		}
		switch {
		case ta && tb:
			return st, true
		case ta:
			return b, false
		case tb:
			return a, false
		}
		return union(a, b), false
	case *ast.ForStmt:
		if x.Init != nil {
			st, _ = f.stmt(x.Init, st)
		}
		f.exprCalls(x.Cond, &st)
		body, _ := f.block(x.Body.List, st.copy())
		if x.Post != nil {
			f.stmt(x.Post, body.copy())
		}
		return union(st, body), false
	case *ast.RangeStmt:
		f.exprCalls(x.X, &st)
		body, _ := f.block(x.Body.List, st.copy())
		return union(st, body), false
	case *ast.SwitchStmt, *ast.TypeSwitchStmt, *ast.SelectStmt:
		var body *ast.BlockStmt
		hasDefault := false
		switch y := x.(type) {
		case *ast.SwitchStmt:
			if y.Init != nil {
				st, _ = f.stmt(y.Init, st)
			}
			f.exprCalls(y.Tag, &st)
			body = y.Body
		case *ast.TypeSwitchStmt:
			if y.Init != nil {
				st, _ = f.stmt(y.Init, st)
			}
			body = y.Body
		case *ast.SelectStmt:
			body = y.Body
			hasDefault = true // a select always takes one clause
		}
		out, any := st.copy(), false
		allTerm := true
		for _, c := range body.List {
			var list []ast.Stmt
			cs := st.copy()
			switch cc := c.(type) {
			case *ast.CaseClause:
				if cc.List == nil {
					hasDefault = true
				}
				for _, e := range cc.List {
					f.exprCalls(e, &cs)
				}
				list = cc.Body
			case *ast.CommClause:
				if cc.Comm != nil {
					cs, _ = f.stmt(cc.Comm, cs)
				}
				list = cc.Body
			}
			o, t := f.block(list, cs)
			if !t {
				allTerm = false
				if any {
					out = union(out, o)
				} else {
					out, any = o, true
				}
			}
		}
		if !hasDefault {
			allTerm = false
			if any {
				out = union(out, st)
			} else {
				out = st
			}
		}
		if allTerm && len(body.List) > 0 {
			return st, true
		}
		return out, false
	case *ast.AssignStmt:
		for _, e := range x.Rhs {
			f.exprCalls(e, &st)
		}
		for _, e := range x.Lhs {
			f.exprCalls(e, &st)
			f.noteWrite(e, &st)
		}
		return st, false
	case *ast.IncDecStmt:
		f.exprCalls(s, &st)
		f.noteWrite(x.X, &st)
		return st, false
	case *ast.DeclStmt, *ast.SendStmt, *ast.EmptyStmt:
		f.exprCalls(s, &st)
		return st, false
	}
	f.exprCalls(s, &st)
	return st, false
}

func fail(msg string) {
	fmt.Fprintln(os.Stderr, "locks:", msg)
	os.Exit(1)
}

func main() {
	if len(os.Args) != 3 && len(os.Args) != 4 {
		fail("usage: locks <repo> <out.lean> [<expected unguarded writes>]")
	}
	repo, out := os.Args[1], os.Args[2]
	expected := map[string]bool{}
	if len(os.Args) == 4 {
		raw, err := os.ReadFile(os.Args[3])
		if err != nil {
			fail("expectation file not readable: " + err.Error())
		}
		for _, ln := range strings.Split(string(raw), "\n") {
			if i := strings.Index(ln, "#"); i >= 0 {
				ln = ln[:i]
			}
			if ln = strings.TrimSpace(ln); ln != "" {
				expected[ln] = true
			}
		}
	}
	if gm, err := os.ReadFile(filepath.Join(repo, "lib/go/go.mod")); err == nil {
		for _, ln := range strings.Split(string(gm), "\n") {
			f := strings.Fields(ln)
			if len(f) == 2 && f[0] == "go" {
				var maj, min int
				fmt.Sscanf(f[1], "%d.%d", &maj, &min)
				perLoopVarShared = maj == 1 && min < 22
			}
		}
	} else {
		fail("lib/go/go.mod not readable")
	}
	files, _ := filepath.Glob(filepath.Join(repo, "lib/go/*.go"))
	sort.Strings(files)
	var decls []*ast.FuncDecl
	for _, p := range files {
		base := filepath.Base(p)
		if strings.HasSuffix(base, "_test.go") || strings.HasPrefix(base, "export_verif") || strings.HasPrefix(base, "hooks_") {
			continue
		}
		af, err := parser.ParseFile(fset, p, nil, 0)
		if err != nil {
			fail("cannot parse " + base + ": " + err.Error())
		}
		for _, d := range af.Decls {
			switch x := d.(type) {
			case *ast.GenDecl:
				for _, sp := range x.Specs {
					if vs, ok := sp.(*ast.ValueSpec); ok && x.Tok == token.VAR {
						for i, n := range vs.Names {
							pkgVars[n.Name] = true
							if i < len(vs.Values) {
								if u, ok := vs.Values[i].(*ast.UnaryExpr); ok && u.Op == token.AND {
									ptrVars[n.Name] = true
								}
								if c, ok := vs.Values[i].(*ast.CallExpr); ok {
									if id, ok := c.Fun.(*ast.Ident); ok && id.Name == "new" {
										ptrVars[n.Name] = true
									}
								}
							}
						}
					}
					ts, ok := sp.(*ast.TypeSpec)
					if !ok {
						continue
					}
					stt, ok := ts.Type.(*ast.StructType)
					if !ok {
						continue
					}
					si := &structInfo{fields: map[string]string{}, byValue: map[string]bool{}}
					for _, fl := range stt.Fields.List {
						tn := typeName(fl.Type)
						if len(fl.Names) == 0 {
							si.embedded = append(si.embedded, tn)
							continue
						}
						_, isPtr := fl.Type.(*ast.StarExpr)
						for _, n := range fl.Names {
							si.fields[n.Name] = tn
							si.byValue[n.Name] = !isPtr
						}
					}
					structs[ts.Name.Name] = si
				}
			case *ast.FuncDecl:
				if x.Body == nil {
					continue
				}
				name := x.Name.Name
				if x.Recv != nil && len(x.Recv.List) == 1 {
					name = typeName(x.Recv.List[0].Type) + "." + name
				}
				methods[name] = x
				decls = append(decls, x)
			}
		}
	}
	var fns []*fn
	for _, d := range decls {
		f := &fn{acquires: map[string]bool{}, heldCalls: map[[2]string]bool{}, calls: map[string]bool{}, leaks: map[string]bool{}, heldAcq: map[[2]string]bool{}, manualCalls: map[string]bool{}, bareWrites: map[string]bool{}, callSites: map[string][]bool{}}
		f.name = d.Name.Name
		if d.Recv != nil && len(d.Recv.List) == 1 {
			f.recvType = typeName(d.Recv.List[0].Type)
			f.name = f.recvType + "." + d.Name.Name
			if len(d.Recv.List[0].Names) == 1 {
				f.recvName = d.Recv.List[0].Names[0].Name
			}
		}
		st, term := f.block(d.Body.List, newState())
		if !term {
			f.leakCheck(st)
		}
		// function literals inside (callbacks, goroutines): analysed on their own with no lock held; their
		// acquisitions, held-calls and leaks are attributed to the enclosing function (conservative for N,
		// exact for L), but a literal does not inherit what the enclosing function holds
		ast.Inspect(d.Body, func(m ast.Node) bool {
			if lit, ok := m.(*ast.FuncLit); ok {
				st, term := f.block(lit.Body.List, newState())
				if !term {
					f.leakCheck(st)
				}
				return false
			}
			return true
		})
		// a VALUE copy of the receiver's struct when that struct holds a mutex by value: `x := *c` copies the
		// mutex in whatever state it is in (what `go vet -copylocks` reports)
		if f.recvType != "" && f.recvName != "" && hasMutexByValue(f.recvType, 0) {
			selX := map[ast.Expr]bool{}
			ast.Inspect(d.Body, func(m ast.Node) bool {
				if se, ok := m.(*ast.SelectorExpr); ok {
					selX[se.X] = true
					if pe, ok := se.X.(*ast.ParenExpr); ok {
						selX[pe.X] = true
					}
				}
				return true
			})
			ast.Inspect(d.Body, func(m ast.Node) bool {
				if st, ok := m.(*ast.StarExpr); ok && !selX[st] {
					if id, ok := st.X.(*ast.Ident); ok && id.Name == f.recvName {
						lockCopies = append(lockCopies, f.name)
					}
				}
				return true
			})
		}
		loopSharedCaptures(f.name, d.Body)
		sharedConstructors(f.name, d)
		fns = append(fns, f)
	}
	sort.Slice(fns, func(i, j int) bool { return fns[i].name < fns[j].name })

	// guarded-by: a method whose every resolved call site is made with a mutex of the receiver write-held (or
	// from a method of the same struct family that is itself always called so) runs under its caller's lock;
	// a method with no resolved call site may be called from anywhere.
	always := map[string]bool{}
	recvOf := map[string]string{}
	for _, f := range fns {
		recvOf[f.name] = f.recvType
	}
	for round := 0; round < 8; round++ {
		for _, g := range fns {
			if g.recvType == "" || always[g.name] {
				continue
			}
			sites, ok := 0, true
			for _, c := range fns {
				for _, held := range c.callSites[g.name] {
					sites++
					if !held && !(always[c.name] && c.recvType != "" && (ownsType(c.recvType, g.recvType, 0) || ownsType(g.recvType, c.recvType, 0))) {
						ok = false
					}
				}
			}
			if sites > 0 && ok {
				always[g.name] = true
			}
		}
	}
	var unguarded []string
	for _, f := range fns {
		if always[f.name] {
			continue
		}
		for k := range f.bareWrites {
			unguarded = append(unguarded, f.name+":"+k)
		}
	}
	sort.Strings(unguarded)
	var manual []string
	for _, f := range fns {
		for k := range f.manualCalls {
			manual = append(manual, f.name+":"+k)
		}
	}
	sort.Strings(manual)
	if os.Getenv("LOCKS_DEBUG") != "" {
		for _, m := range manual {
			fmt.Println("MANUAL", m)
		}
	}

	// Only what the discipline speaks about is emitted: S = functions that lock something or call under a
	// lock, R = everything reachable (through resolved calls) from a callee of a call made under a lock —
	// the masks of exactly these are consulted by (N). R is closed under calls; a function in S \ R is
	// emitted without its calls (nobody asks for its mask).
	byName := map[string]*fn{}
	for _, f := range fns {
		byName[f.name] = f
	}
	inR := map[string]bool{}
	var work []string
	for _, f := range fns {
		for k := range f.heldCalls {
			if k[1] != "<relock>" && !inR[k[1]] {
				inR[k[1]] = true
				work = append(work, k[1])
			}
		}
	}
	for _, rt := range callRoots {
		if byName[rt] == nil {
			fail("call root " + rt + " not found in lib/go")
		}
		if !inR[rt] {
			inR[rt] = true
			work = append(work, rt)
		}
	}
	for len(work) > 0 {
		g := byName[work[len(work)-1]]
		work = work[:len(work)-1]
		for c := range g.calls {
			if !inR[c] {
				inR[c] = true
				work = append(work, c)
			}
		}
	}
	var kept []*fn
	for _, f := range fns {
		inS := len(f.acquires) > 0 || len(f.heldCalls) > 0 || len(f.leaks) > 0 || len(f.heldAcq) > 0
		if !inS && !inR[f.name] {
			continue
		}
		if !inR[f.name] {
			f.calls = map[string]bool{}
		}
		kept = append(kept, f)
	}
	total := len(fns)
	fns = kept

	// numbering: functions and mutexes
	fid := map[string]int{}
	for i, f := range fns {
		fid[f.name] = i
	}
	mset := map[string]bool{}
	for _, f := range fns {
		for k := range f.acquires {
			mset[k] = true
		}
	}
	var mnames []string
	for k := range mset {
		mnames = append(mnames, k)
	}
	sort.Strings(mnames)
	mid := map[string]int{}
	for i, k := range mnames {
		mid[k] = i
	}

	var b strings.Builder
	b.WriteString("-- GENERATED by harness/locks from /repo/lib/go on every check. Do not edit.\nimport FV.Model.Locks\nnamespace FV.Generated.Locks\nopen FV.Locks\n\n")
	b.WriteString("/-- mutex id -> the expression it is reached through (receiver replaced by its type). -/\ndef mutexNames : List String := [")
	for i, k := range mnames {
		if i > 0 {
			b.WriteString(", ")
		}
		fmt.Fprintf(&b, "%q", k)
	}
	b.WriteString("]\n\n/-- mutex id -> which lock it is (1 registry, 2 adapter lifecycle, 3 framed reader, 4 FContext, 5 processor write mutex,\n6 NATS server send, 7 subscriber open, 8 logger, 0 unclassified). -/\ndef mutexTags : List Nat := [")
	for i, k := range mnames {
		if i > 0 {
			b.WriteString(", ")
		}
		fmt.Fprintf(&b, "%d", tags[k])
	}
	b.WriteString("]\n\n/-- function id -> name. -/\ndef funNames : List String := [")
	for i, f := range fns {
		if i > 0 {
			b.WriteString(", ")
		}
		fmt.Fprintf(&b, "%q", f.name)
	}
	b.WriteString("]\n\n")
	ints := func(xs []int) string {
		sort.Ints(xs)
		s := make([]string, len(xs))
		for i, x := range xs {
			s[i] = fmt.Sprint(x)
		}
		return "[" + strings.Join(s, ", ") + "]"
	}
	fmt.Fprintf(&b, "/-- functions of lib/go seen by the extractor; `facts` lists the %d of them that lock, call under a lock, or are reachable from such a call. -/\ndef totalFunctions : Nat := %d\n\n", len(fns), total)
	b.WriteString("def facts : List Fn := [\n")
	for i, f := range fns {
		var acq, calls, leaks []int
		for k := range f.acquires {
			acq = append(acq, mid[k])
		}
		for c := range f.calls {
			calls = append(calls, fid[c])
		}
		for k := range f.leaks {
			leaks = append(leaks, mid[k])
		}
		var hc []string
		var keys [][2]string
		for k := range f.heldCalls {
			keys = append(keys, k)
		}
		sort.Slice(keys, func(a, b int) bool { return keys[a][0]+"|"+keys[a][1] < keys[b][0]+"|"+keys[b][1] })
		relock := []int{}
		for _, k := range keys {
			if k[1] == "<relock>" {
				relock = append(relock, mid[k[0]])
				continue
			}
			hc = append(hc, fmt.Sprintf("(%d, %d)", mid[k[0]], fid[k[1]]))
		}
		sep := ","
		if i == len(fns)-1 {
			sep = ""
		}
		var ha []string
		var hak [][2]string
		for k := range f.heldAcq {
			hak = append(hak, k)
		}
		sort.Slice(hak, func(a, b int) bool { return hak[a][0]+"|"+hak[a][1] < hak[b][0]+"|"+hak[b][1] })
		for _, k := range hak {
			ha = append(ha, fmt.Sprintf("(%d, %d)", mid[k[0]], mid[k[1]]))
		}
		fmt.Fprintf(&b, "  ⟨%d, %s, %s, [%s], %s, %s, [%s]⟩%s  -- %s\n", i, ints(acq), ints(calls), strings.Join(hc, ", "), ints(relock), ints(leaks), strings.Join(ha, ", "), sep, f.name)
	}
	b.WriteString("]\n\n/-- Request / Oneway of the client transports (the calls C13 bounds by the FContext timeout). -/\ndef callRoots : List Nat := [")
	for i, rt := range callRoots {
		if i > 0 {
			b.WriteString(", ")
		}
		fmt.Fprintf(&b, "%d", fid[rt])
	}
	b.WriteString("]\n\n/-- methods that copy their receiver's struct BY VALUE although it holds a mutex by value (`x := *c`). -/\ndef lockCopies : List String := [")
	sort.Strings(lockCopies)
	for i, n := range lockCopies {
		if i > 0 {
			b.WriteString(", ")
		}
		fmt.Fprintf(&b, "%q", n)
		fmt.Printf("COPY %s copies its receiver's struct, which holds a mutex, by value\n", n)
	}
	b.WriteString("]\n\n/-- `function:variable` — a goroutine started in a loop uses a variable declared outside the loop and assigned in it. -/\ndef loopShares : List String := [")
	sort.Strings(loopShares)
	for i, n := range loopShares {
		if i > 0 {
			b.WriteString(", ")
		}
		fmt.Fprintf(&b, "%q", n)
		fmt.Printf("SHARED %s: goroutines started by a loop share this variable\n", n)
	}
	b.WriteString("]\n\n/-- `function:variable` — a function named New… returns (the address of) a package-level variable: every caller gets the same mutable object. -/\ndef sharedCtors : List String := [")
	sort.Strings(sharedCtors)
	for i, n := range sharedCtors {
		if i > 0 {
			b.WriteString(", ")
		}
		fmt.Fprintf(&b, "%q", n)
		fmt.Printf("SHAREDCTOR %s: the constructor returns a package-level object\n", n)
	}
	b.WriteString("]\n\n/-- `method:Struct.field` — a field of a struct that holds a mutex is written (assignment, ++, delete, atomic store)\nin a method while no mutex of that struct is WRITE-held, and the method is not only ever called under one. -/\ndef unguardedWrites : List String := [")
	for i, n := range unguarded {
		if i > 0 {
			b.WriteString(", ")
		}
		fmt.Fprintf(&b, "%q", n)
	}
	b.WriteString("]\n\n/-- (tag of the struct's lock, site): the unguarded writes that known/locks_unguarded_expected.txt does not classify. -/\ndef unguardedUnexpected : List (Nat × String) := [")
	first := true
	seenExp := map[string]bool{}
	for _, n := range unguarded {
		if expected[n] {
			seenExp[n] = true
			continue
		}
		owner := n[strings.Index(n, ":")+1:]
		owner = owner[:strings.Index(owner, ".")]
		tag := 0
		for mk, t := range tags {
			if strings.HasPrefix(mk, owner+".") {
				tag = t
			}
		}
		if !first {
			b.WriteString(", ")
		}
		first = false
		fmt.Fprintf(&b, "(%d, %q)", tag, n)
		fmt.Printf("UNGUARDED %s is written while no mutex of its struct is write-held (not classified in known/locks_unguarded_expected.txt)\n", n)
	}
	b.WriteString("]\n\n/-- (tag of the mutex, `function:mutex:callee`): calls made while a mutex is held that NO deferred unlock covers (a panic in\nthe callee leaves the mutex locked for ever) and that known/locks_unguarded_expected.txt does not classify (`manual:` lines). -/\ndef manualUnexpected : List (Nat × String) := [")
	first = true
	for _, n := range manual {
		if expected["manual:"+n] {
			seenExp["manual:"+n] = true
			continue
		}
		parts := strings.SplitN(n, ":", 3)
		if !first {
			b.WriteString(", ")
		}
		first = false
		fmt.Fprintf(&b, "(%d, %q)", tags[parts[1]], n)
		fmt.Printf("MANUALUNLOCK %s calls %s while holding %s, which is released by hand, not by defer: a panic in the callee leaves it locked (not classified in known/locks_unguarded_expected.txt)\n", parts[0], parts[2], parts[1])
	}
	fmt.Fprintf(&b, "]\n\n/-- lib/go's go.mod declares a Go version below 1.22: loop variables are shared by the iterations (counted in `loopShares`). -/\ndef loopVariablesShared : Bool := %v\n\nend FV.Generated.Locks\n", perLoopVarShared)
	for n := range expected {
		if !seenExp[n] {
			fmt.Printf("NOTE expected site %s no longer occurs\n", n)
		}
	}
	// human-readable report of what breaks the discipline (the Lean side decides; this is for the replay file)
	acq := map[string]map[string]bool{}
	var reach func(n string, seen map[string]bool) map[string]bool
	reach = func(n string, seen map[string]bool) map[string]bool {
		if r, ok := acq[n]; ok {
			return r
		}
		r := map[string]bool{}
		if seen[n] || byName[n] == nil {
			return r
		}
		seen[n] = true
		for k := range byName[n].acquires {
			r[k] = true
		}
		for c := range byName[n].calls {
			for k := range reach(c, seen) {
				r[k] = true
			}
		}
		return r
	}
	for _, f := range fns {
		for k := range f.heldCalls {
			if k[1] == "<relock>" {
				fmt.Printf("NESTED %s locks %s again while holding it\n", f.name, k[0])
			} else if reach(k[1], map[string]bool{})[k[0]] {
				fmt.Printf("NESTED %s calls %s while holding %s, and %s (or a callee) acquires %s\n", f.name, k[1], k[0], k[1], k[0])
			}
		}
		for k := range f.leaks {
			fmt.Printf("LEAK %s can return with %s (which it locked) still held\n", f.name, k)
		}
	}
	old, _ := os.ReadFile(out)
	if string(old) != b.String() {
		if err := os.WriteFile(out, []byte(b.String()), 0o644); err != nil {
			fail(err.Error())
		}
	}
}
