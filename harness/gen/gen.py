#!/usr/bin/env python3
"""Generated-code harness (suite binary `.build/gen`): random multi-file IDL programs are compiled by the
REAL frugal compiler, the emitted Go is built together with a generic reflection runner
(harness/gen/runner) in a scratch module, and values / TProtocol event streams / calls are pushed through
the emitted code. Output: the usual C/O/S/X line protocol of bin/check.

  gen.py <suite> -seed N -n N       suites are defined in harness/gen/suites/*.py (each exports SUITES)
"""
import glob, importlib.util, os, sys
sys.path.insert(0, os.path.dirname(os.path.abspath(__file__)))
import genlib


def load_suites():
    suites = {}
    for path in sorted(glob.glob(os.path.join(os.path.dirname(os.path.abspath(__file__)), "suites", "*.py"))):
        spec = importlib.util.spec_from_file_location("gen_suite_" + os.path.basename(path)[:-3], path)
        mod = importlib.util.module_from_spec(spec)
        spec.loader.exec_module(mod)
        suites.update(mod.SUITES)
    return suites


def main():
    if len(sys.argv) < 2:
        print("usage: gen.py <suite> [-seed N] [-n N]", file=sys.stderr); sys.exit(2)
    suite, seed, n, i = sys.argv[1], 1, 100, 2
    while i < len(sys.argv):
        if sys.argv[i] == "-seed": seed = int(sys.argv[i + 1]); i += 2
        elif sys.argv[i] == "-n": n = int(sys.argv[i + 1]); i += 2
        elif sys.argv[i] == "-lines": print("S\tevaluations\t0"); return     # replay of generated-code cases needs the generating run
        else: i += 1
    suites = load_suites()
    if suite not in suites:
        print("unknown suite", suite, file=sys.stderr); sys.exit(2)
    genlib.RERUN.update({"suite": suite, "seed": seed, "n": n})
    suites[suite](genlib.Rng(seed), n)


if __name__ == "__main__":
    main()
