"""Suite c02: emitted Read/Write of struct-likes."""
from genlib import *

# ------------------------------------------------------------------ suite c02
def suite_c02(r, n):
    nprogs = max(1, min(12, n // 40))
    progs = [gen_prog(r, i) for i in range(nprogs)]
    for p in progs:
        if r.chance(40): p.genopts = "slim"      # the slim generator option emits calls to lib/go/encoder.go helpers
        Stat("genopts:" + (p.genopts or "default"))
    # regression (KNOWN_FINDINGS: fixed C02 slim+i8): program 0 is always slim and has i8 fields
    p0 = progs[0]
    p0.genopts = "slim"
    p0.structs[(p0.files[-1], "StRegI8")] = ("s", [(1, "r", "fregA1", Ty("y", alias="i8")), (2, "o", "fregB2", Ty("y", alias="i8")), (4, "d", "fregC4", Ty("L", Ty("y", alias="i8")))])
    p0.order[p0.files[-1]].append(("r", "StRegI8"))
    # regression / coverage of IDL defaults: program 0 always has a struct with one defaulted field of every
    # shape (optional / default / required x base, string, binary, enum by name, typedef, container) and a
    # struct nesting it (directly, in a list and as a map value)
    add_defaults_struct(p0)
    jobs, meta = [], []
    per = max(1, n // nprogs)
    # the fixed MATRIX programs (see matrix_progs below) run first in every check: bin/check splits a suite
    # into parallel jobs with seeds seed*1000+i — the matrix belongs to job 0 (seed divisible by 1000, which
    # a replay of one of its failures reruns; or the explicit flag -matrix of props_d suite_args_first)
    import sys as _sys
    mprogs = matrix_progs() if (RERUN.get("seed", 0) % 1000 == 0 or "-matrix" in _sys.argv) else []
    for p in mprogs: matrix_jobs(r, p, jobs, meta)
    wprogs, wjobs, wmeta = [], [], []
    # fixed NAME-COLLISION programs (std, slim), with the matrix in job 0: every pairing of {typedef i32, typedef
    # i64, typedef string, enum, struct} under ONE bare name in an included file and in the file including it
    if mprogs:
        # 300/301: all kinds; 302/303: typedefs of the four integer widths only (a confusion of two of these still
        # compiles, so it shows as a wrong wire type / value rather than as a build failure)
        cprogs = [build_collide(300, False), build_collide(301, True)]
        for p in cprogs: collide_jobs(r, p, jobs, meta)
        mprogs = mprogs + cprogs
        wprogs = [build_collide(302, False, CX_WIDTHS), build_collide(303, True, CX_WIDTHS)]
        for p in wprogs: collide_jobs(r, p, wjobs, wmeta)
    # ILL-FORMED values: two fixed programs (std, slim) in which a union sits in every kind of position, in
    # every job; plus, below, random injection into the random programs' values
    bprogs = [build_badunion(200, False), build_badunion(201, True)]
    for p in bprogs: badunion_jobs(r, p, jobs, meta)
    for p in progs:
        keys = list(p.structs)
        if not keys: continue
        Stat("programs"); Stat("files", len(p.files)); Stat("structs", len(keys)); Stat("typedefs", len(p.typedefs)); Stat("enums", len(p.enums))
        for k2 in keys:
            for (i, req, _, t) in p.structs[k2][1]:
                dv = p.dflt(k2, i)
                if dv is not None: Stat("dflt:field:%s:%s" % ("union" if p.structs[k2][0] == "u" else {"r": "required", "o": "optional", "d": "default"}[req], "scalar" if dv[0] in "bngq" else "container"))
        defs = p.defs_code()
        # known finding go-union-default-field: one witness job per union field with a compared default
        for k2 in keys:
            if p.structs[k2][0] != "u": continue
            for (i, _, fn, t) in p.structs[k2][1]:
                cd = p.cmp_dflt(k2, i)
                if cd is None: continue
                st2, v2 = Ty("S", file=k2[0], name=k2[1]), ("(", {i: cd})
                ev = ";".join(["SB:" + k2[1], "FB:%s:%d:%d" % (fn, p.wire(t), i)] + events(r, p, t, cd) + ["FE", "FS", "SE"])
                jobs.append(("r", "p%d" % p.pid, "%s/%s" % k2, "%s/%s" % k2, ev))
                meta.append(("r", p, st2, v2, "union-default-value", "g2r %s %s/%s %s" % (defs, k2[0], k2[1], ev)))
        for _ in range(per):
            key = r.pick(keys)
            kind, fields = p.structs[key]
            sname, gotype, st = "%s/%s" % key, "%s/%s" % key, Ty("S", file=key[0], name=key[1])
            v = gen_struct(r, p, key)
            c = r.intn(10)
            inj = inject_bad_union(r, p, st, v) if r.chance(25) else None
            if inj is not None:
                # ill-formed at depth: one union somewhere below the top level has 0 or 2 fields set — Write must
                # return an error (emitted recorder and the three real protocols)
                bv, where = inj
                op = "w" if r.chance(60) else "p"
                jobs.append((op, "p%d" % p.pid, gotype, sname, dump_val(bv)))
                meta.append((op, p, st, bv, "bad-nested:" + where, "g2%s %s %s %s" % (op, defs, sname, dump_val(bv))))
                continue
            if c < 4:       # write
                variant = "valid"
                if kind == "u" and fields and r.chance(30):
                    # a union value with 0 or 2 fields set must be refused by Write
                    if r.chance(50) or len(fields) < 2: v, variant = ("(", {}), "union0"
                    else:
                        f1, f2 = r.shuffle(fields)[:2]
                        v, variant = ("(", {f1[0]: gen_set_val(r, p, key, f1[0], f1[3], 2), f2[0]: gen_set_val(r, p, key, f2[0], f2[3], 2)}), "union2"
                vs = v
                if variant == "valid" and kind != "u" and r.chance(40):
                    # the value does not list some default-requiredness fields that have an IDL default: the Go
                    # fields keep what the constructor New<T>() put there, and that is what must be written
                    vs, ve = omit_defaulted(r, p, st, v)
                    if dump_val(vs) != dump_val(v): v, variant = ve, "valid+defaulted-unlisted"
                jobs.append(("w", "p%d" % p.pid, gotype, sname, dump_val(vs)))
                meta.append(("w", p, st, v, variant, "g2w %s %s %s" % (defs, sname, dump_val(vs))))
            elif c < 8:     # read
                variant, drop, unk = "conforming", None, False
                reqs = [f[0] for f in fields if f[1] == "r"]
                cc = r.intn(10)
                if cc < 3: unk, variant = True, "unknown-fields"
                elif cc < 5 and reqs and kind != "u": drop, variant = r.pick(reqs), "missing-required"
                elif cc < 6 and kind == "u" and fields:
                    if r.chance(50) or len(fields) < 2: v, variant = ("(", {}), "union0"
                    else:
                        f1, f2 = r.shuffle(fields)[:2]
                        v, variant = ("(", {f1[0]: gen_set_val(r, p, key, f1[0], f1[3], 2), f2[0]: gen_set_val(r, p, key, f2[0], f2[3], 2)}), "union2"
                vs = v
                if variant in ("conforming", "unknown-fields") and kind != "u" and r.chance(50):
                    # a peer that does not send default-requiredness fields which have an IDL default (any
                    # depth): the reader must hold the declared defaults there
                    vs, ve = omit_defaulted(r, p, st, v)
                    if dump_val(vs) != dump_val(v): v, variant = ve, variant + "+defaulted-omitted"
                ev = ";".join(events(r, p, st, vs, extra_unknown=unk, drop=drop, top=True))
                jobs.append(("r", "p%d" % p.pid, gotype, sname, ev))
                meta.append(("r", p, st, v, variant, "g2r %s %s %s" % (defs, sname, ev)))
            else:           # real protocols round trip
                vs, variant = v, "valid"
                if kind != "u" and r.chance(40):
                    vs, ve = omit_defaulted(r, p, st, v)
                    if dump_val(vs) != dump_val(v): v, variant = ve, "valid+defaulted-unlisted"
                jobs.append(("p", "p%d" % p.pid, gotype, sname, dump_val(vs)))
                meta.append(("p", p, st, v, variant, "g2p %s %s %s" % (defs, sname, dump_val(vs))))
    # the width-only collision programs are built and run on their own (a second scratch module): a generator
    # that confuses two of their typedefs still emits Go that compiles, and must not be masked by a build
    # failure of another program of this job
    batches = [(mprogs + bprogs + progs, jobs, meta)] + ([(wprogs, wjobs, wmeta)] if wprogs else [])
    for (bprogs_, bjobs, bmeta) in batches:
        evaluate_batch(bprogs_, bjobs, bmeta)
    Finish()


def evaluate_batch(progs, jobs, meta):
    res, err = build_and_run(progs, jobs)
    if res is None:
        OracleFail("valid IDL was not compiled to Go that builds (C02 needs the generated code)", {"op": "build", "detail": err[:3000]})
        Stat("evaluations"); return
    if err:
        OracleFail("the runner crashed while executing generated code", {"op": "run", "detail": err[:2000]})
    for (op, p, st, v, variant, line), real in zip(meta, res):
        if real is None: real = "no-result"
        Case(line, real)
        Stat("op:%s:%s" % (op, variant)); Stat("outcome:" + real.split(" ")[0]); Stat("evaluations")
        if getattr(p, "collide", None): Stat("collision-program-cases")
        if getattr(p, "matrix", None): Stat("matrix-cases"); Stat("matrix:%s:%s%s" % (p.matrix[0], "dflt" if p.matrix[1] else "plain", ":slim" if p.genopts else ""))
        Sample({"line": line[:600], "real": real[:300]})
        # ---- the property oracle, from Thrift's rules, independent of the Lean model
        bad = None
        if variant.startswith("bad-nested:"):
            Stat("bad-nested-cases")
            parts = [real] if op == "w" else [x.split("=", 1)[1] for x in real.split(" ")[1:]] if real.startswith("ok ") else [real]
            if not parts or not all(x.startswith("err:") or x.startswith("write-err:") for x in parts):
                bad = "generated Write accepted a value in which a nested union does not have exactly one field set (%s)" % variant[11:]
        elif op == "w":
            if variant.startswith("valid"):
                want = "ok " + tree(p, st, v)
                if real != want: bad = "generated Write does not produce the declared encoding (field ids, wire types, values, presence)"
            elif not real.startswith("err:"): bad = "generated Write accepted a union with %s fields set" % variant[-1]
        elif op == "r":
            if variant == "union-default-value":
                # Thrift's rules: a union carrying one field is conforming whatever the value. The emitted Go
                # union cannot hold a field at its default (IsSet compares with the default): known finding.
                if real != "ok %s rest=0" % dump_val(v):
                    Known("go-union-default-field", "a union whose only field carries that field's IDL default value is rejected by the emitted Go Read (and cannot be written): %s" % real)
                    Stat("known:go-union-default-field")
            elif variant.split("+")[0] in ("conforming", "unknown-fields"):
                want = "ok %s rest=0" % canon_dump(p, st, v)
                if real != want: bad = "generated Read of a conforming encoding (%s) does not reproduce the value" % variant
            elif not real.startswith("err:"): bad = "generated Read accepted an encoding with %s" % variant
        else:
            d = canon_dump(p, st, v)
            want = "ok binary=%s compact=%s json=%s" % (d, d, d)
            if real != want: bad = "round trip through a real Thrift protocol does not reproduce the value"
        if bad:
            OracleFail(bad, {"op": "g2" + op, "variant": variant, "line": line, "got": real[:2000], "idl": "\n".join(p.text(f) for f in p.files)[:4000]})



# ------------------------------------------------------------------ the fixed matrix programs
# Cross product  field position {required, optional, default requiredness, union member} x {without, with IDL
# default} x type class {every base type, enum with / without a 0 constant, typedef of base, typedef of a local
# enum, typedef of an INCLUDED enum, typedef of container, struct, list / set / map of those}, std and slim;
# per field the Go ZERO value (0, "", empty binary, empty list/map, false, the 0-numbered enum constant — also
# for the enum that has no such constant) and a non-zero value, through the same w / r / p ops and oracles as
# the random programs. Not in the matrix (known findings, C11): typedef of a struct as a field type
# (go-typedef-of-struct), a typedef chain whose second hop is in an included file, binary/containers as keys.
def _bits(x): 
    import struct as _st
    return _st.unpack(">Q", _st.pack(">d", x))[0]

def mx_zero(p, t):
    t = p.resolve(t)
    if t.k == "b": return ("b", False)
    if t.k in "yhilE": return ("n", 0)
    if t.k == "d": return ("g", 0)
    if t.k in "sx": return ("q", b"")
    if t.k in "LZ": return ("[", [])
    if t.k == "M": return ("{", [])
    kind, fields = p.structs[(t.file, t.name)]
    return ("(", {i: mx_zero(p, ty) for (i, req, _, ty) in fields if req != "o"})

def mx_nonzero(p, t):
    t = p.resolve(t)
    if t.k == "b": return ("b", True)
    if t.k in "yhil": return ("n", {"y": 7, "h": 300, "i": 70000, "l": 5000000000}[t.k])
    if t.k == "E": return ("n", p.enums[(t.file, t.name)][1])
    if t.k == "d": return ("g", _bits(1.5))
    if t.k == "s": return ("q", b"ab")
    if t.k == "x": return ("q", b"\x00\xff")
    if t.k == "L": return ("[", [mx_nonzero(p, t.a), mx_zero(p, t.a)])
    if t.k == "Z": return ("[", [mx_zero(p, t.a), mx_nonzero(p, t.a)])
    if t.k == "M": return ("{", [(mx_zero(p, t.a), mx_nonzero(p, t.b)), (mx_nonzero(p, t.a), mx_zero(p, t.b))])
    kind, fields = p.structs[(t.file, t.name)]
    return ("(", {i: mx_nonzero(p, ty) for (i, req, _, ty) in fields})

def mx_default(p, t, nonzero, inner=False):
    """the IDL default a matrix field of type t gets (None: this type class gets none, as in genlib.gen_default)."""
    rt = p.resolve(t)
    if rt.k in "bhyilds" or (rt.k in "Ex" and not inner): return mx_nonzero(p, t) if nonzero else mx_zero(p, t)
    if inner or rt.k not in "LZM": return None
    if rt.k in "LZ":
        e = mx_default(p, rt.a, True, True)
        return None if e is None else ("[", [e] if nonzero else [])
    a, b = mx_default(p, rt.a, True, True), mx_default(p, rt.b, False, True)
    return None if a is None or b is None else ("{", [(a, b)] if nonzero else [])

def build_matrix(pid, pos, with_dflt, slim):
    p = Prog(pid)
    inc, f = "mx%dinc" % pid, "mx%dmain" % pid
    p.files = [inc, f]; p.includes = {inc: [], f: [inc]}; p.order = {inc: [], f: []}
    p.genopts = "slim" if slim else ""
    p.matrix = (pos, with_dflt)
    for (ff, n, vals) in [(inc, "EnIZ", [0, 2]), (inc, "EnIN", [1, 4]), (f, "EnZ", [0, 3]), (f, "EnN", [1, 5])]:
        p.enums[(ff, n)] = vals; p.order[ff].append(("e", n))
    E = lambda ff, n: Ty("E", file=ff, name=n)
    for (n, t) in [("TdI", Ty("i")), ("TdS", Ty("s")), ("TdD", Ty("d")), ("TdEZ", E(f, "EnZ")), ("TdEN", E(f, "EnN")), ("TdIZ", E(inc, "EnIZ")),
                   ("TdIN", E(inc, "EnIN")), ("TdL", Ty("L", Ty("i"))), ("TdM", Ty("M", Ty("s"), Ty("i")))]:
        p.typedefs[(f, n)] = t; p.order[f].append(("t", n))
    p.structs[(f, "StLeaf")] = ("s", [(1, "d", "la1", Ty("i")), (2, "o", "lb2", Ty("s"))]); p.order[f].append(("r", "StLeaf"))
    T = lambda n: Ty("T", file=f, name=n)
    leaves = [("b", Ty("b")), ("y", Ty("y")), ("h", Ty("h")), ("i", Ty("i")), ("l", Ty("l")), ("d", Ty("d")), ("s", Ty("s")), ("x", Ty("x")),
              ("ez", E(f, "EnZ")), ("en", E(f, "EnN")), ("ti", T("TdI")), ("ts", T("TdS")), ("td", T("TdD")), ("tez", T("TdEZ")), ("ten", T("TdEN")),
              ("tiz", T("TdIZ")), ("tin", T("TdIN")), ("tl", T("TdL")), ("tm", T("TdM")), ("st", Ty("S", file=f, name="StLeaf"))]
    keyable = [x for x in leaves if x[0] in ("b", "y", "h", "i", "l", "s", "ez", "en", "ti", "ts", "tez", "tiz")]
    types = list(leaves)
    types += [("L" + tg, Ty("L", t)) for tg, t in leaves]
    types += [("Z" + tg, Ty("Z", t)) for tg, t in keyable]
    types += [("K" + tg, Ty("M", t, Ty("i"))) for tg, t in keyable]
    types += [("M" + tg, Ty("M", Ty("s"), t)) for tg, t in leaves]
    fields, dm = [], {}
    for idx, (tg, t) in enumerate(types):
        fid = idx + 1
        if with_dflt:
            dv = mx_default(p, t, idx % 2 == 0)
            if dv is None: continue
            dm[fid] = dv
        fields.append((fid, "o" if pos == "u" else pos, "m%s%d" % (tg, fid), t))
    name = "UnMx" if pos == "u" else "StMx"
    p.structs[(f, name)] = ("u" if pos == "u" else "s", fields); p.order[f].append(("r", name))
    if dm: p.defaults[(f, name)] = dm
    p.mxkey = (f, name)
    return p

def matrix_progs():
    progs, j = [], 0
    for slim in (False, True):
        for pos in ("r", "o", "d", "u"):
            for with_dflt in (False, True):
                progs.append(build_matrix(100 + j, pos, with_dflt, slim)); j += 1
    return progs

def matrix_jobs(r, p, jobs, meta):
    key = p.mxkey
    kind, fields = p.structs[key]
    pos, with_dflt = p.matrix
    defs, sname, st = p.defs_code(), "%s/%s" % key, Ty("S", file=key[0], name=key[1])
    def add(op, v, variant, vs=None, drop=None, unk=False):
        vs = v if vs is None else vs
        if op == "r":
            ev = ";".join(events(r, p, st, vs, extra_unknown=unk, drop=drop, top=True))
            jobs.append(("r", "p%d" % p.pid, sname, sname, ev)); meta.append(("r", p, st, v, variant, "g2r %s %s %s" % (defs, sname, ev)))
        else:
            jobs.append((op, "p%d" % p.pid, sname, sname, dump_val(vs))); meta.append((op, p, st, v, variant, "g2%s %s %s %s" % (op, defs, sname, dump_val(vs))))
    if kind == "u":
        rot = 0
        for (i, _, _, t) in fields:
            cd = p.cmp_dflt(key, i)
            for which, val in (("zero", mx_zero(p, t)), ("nonzero", mx_nonzero(p, t))):
                if cd is not None and go_eq(val, cd): continue        # known finding go-union-default-field (witness job below)
                v = ("(", {i: val})
                ops = ("w", "r", "p") if which == "zero" else ("wrp"[rot % 3],)
                rot += 1
                for op in ops: add(op, v, "valid" if op != "r" else "conforming")
            if with_dflt:
                # values at the boundary of the declared default (one ulp away, one byte changed, the next constant…)
                for _ in range(3):
                    nv = gen_near(r, p, t, p.dflt(key, i))
                    if nv is None or (cd is not None and go_eq(nv, cd)): continue
                    rot += 1
                    add("wrp"[rot % 3], ("(", {i: nv}), "valid" if "wrp"[rot % 3] != "r" else "conforming")
        f1, f2 = fields[0], fields[1]
        two = ("(", {f1[0]: gen_set_val(r, p, key, f1[0], f1[3], 2), f2[0]: gen_set_val(r, p, key, f2[0], f2[3], 2)})
        for op in ("w", "r"): add(op, ("(", {}), "union0"); add(op, two, "union2")
        return
    vals = [("(", {i: mx_zero(p, t) for (i, _, _, t) in fields}), ("(", {i: mx_nonzero(p, t) for (i, _, _, t) in fields})]
    for _ in range(6):
        fv = {}
        for (i, req, _, t) in fields:
            c = r.intn(3)
            if req == "o" and c == 2: continue
            fv[i] = mx_zero(p, t) if c == 0 else (mx_nonzero(p, t) if c == 1 or req != "o" else mx_zero(p, t))
        vals.append(("(", fv))
    if with_dflt:
        for _ in range(8):      # every field at the boundary of its declared default
            fv = {}
            for (i, req, _, t) in fields:
                nv = gen_near(r, p, t, p.dflt(key, i))
                fv[i] = nv if nv is not None else mx_nonzero(p, t)
            vals.append(("(", fv))
    for v in vals:
        add("w", v, "valid"); add("r", v, "conforming"); add("p", v, "valid"); add("r", v, "unknown-fields", unk=True)
        if with_dflt and pos == "d":
            vs, ve = omit_defaulted(r, p, st, v)
            if dump_val(vs) != dump_val(v):
                add("r", ve, "conforming+defaulted-omitted", vs=vs); add("w", ve, "valid+defaulted-unlisted", vs=vs); add("p", ve, "valid+defaulted-unlisted", vs=vs)
    if pos == "r":
        for _ in range(4): add("r", vals[1], "missing-required", drop=r.pick(fields)[0])


# ------------------------------------------------------------------ the fixed name-collision programs
CX_KINDS = ["Ti", "Tl", "Ts", "En", "St"]
CX_WIDTHS = ["Ty", "Th", "Ti", "Tl"]

def build_collide(pid, slim, kinds=CX_KINDS):
    """Two files, main including inc. For every pairing (a, b) of CX_KINDS the bare name N<a><b> is declared as
    kind a in inc and as kind b in main (typedef i32 / typedef i64 / typedef string / enum / struct; enums with
    other numbers, structs with other fields). Both files declare a struct StUse, a union UnUse, an exception
    ExUse and a service SvUse (same bare names again) whose fields are typed with the BARE names — each file's
    own meaning — plain, optional, as list element, map key and map value; main's StCross uses inc's meanings
    through qualified names. Everything is compiled in one -r run."""
    p = Prog(pid)
    inc, f = "cx%dinc" % pid, "cx%dmain" % pid
    p.files = [inc, f]; p.includes = {inc: [], f: [inc]}; p.order = {inc: [], f: []}
    p.genopts = "slim" if slim else ""
    p.collide = True
    p.args_ctors = True
    def declare(ff, n, kind, other):
        if kind in ("Ty", "Th"): p.typedefs[(ff, n)] = Ty(kind[1]); p.order[ff].append(("t", n))
        elif kind == "Ti": p.typedefs[(ff, n)] = Ty("i"); p.order[ff].append(("t", n))
        elif kind == "Tl": p.typedefs[(ff, n)] = Ty("l"); p.order[ff].append(("t", n))
        elif kind == "Ts": p.typedefs[(ff, n)] = Ty("s"); p.order[ff].append(("t", n))
        elif kind == "En": p.enums[(ff, n)] = [0, 2] if ff == inc else [1, 5, 70000]; p.order[ff].append(("e", n))
        else:
            p.structs[(ff, n)] = ("s", [(1, "d", "ia1", Ty("i"))] if ff == inc else [(1, "d", "ms1", Ty("s")), (2, "o", "mb2", Ty("l"))])
            p.order[ff].append(("r", n))
    def ref(ff, n, kind): return Ty({"En": "E", "St": "S"}.get(kind, "T"), file=ff, name=n)
    names = [("N%s%s" % (a, b), a, b) for a in kinds for b in kinds]
    for (n, a, b) in names: declare(inc, n, a, b); declare(f, n, b, a)
    for ff in (inc, f):
        use, fid = [], 0
        for (n, a, b) in names:
            k = a if ff == inc else b
            t = ref(ff, n, k)
            shapes = [("d", t), ("o", t), ("d", Ty("L", t)), ("d", Ty("M", Ty("s"), t))] + ([("d", Ty("M", t, Ty("i")))] if k != "St" else [])
            for (req, ty) in shapes:
                fid += 1; use.append((fid, req, "u%s%d" % (n.lower(), fid), ty))
        p.structs[(ff, "StUse")] = ("s", use); p.order[ff].append(("r", "StUse"))
        p.structs[(ff, "UnUse")] = ("u", [(i + 1, "o", "w%s%d" % (n.lower(), i + 1), ref(ff, n, a if ff == inc else b)) for i, (n, a, b) in enumerate(names)])
        p.order[ff].append(("r", "UnUse"))
        p.structs[(ff, "ExUse")] = ("x", [(i + 1, "d", "x%s%d" % (n.lower(), i + 1), ref(ff, n, a if ff == inc else b)) for i, (n, a, b) in enumerate(names) if a != b][:8])
        p.order[ff].append(("r", "ExUse"))
        args = [(i + 1, "a%s%d" % (n.lower(), i + 1), ref(ff, n, a if ff == inc else b)) for i, (n, a, b) in enumerate(names) if a != b][:10]
        ret = ref(ff, "NTiTl", "Ti" if ff == inc else "Tl")     # both kind sets have Ti and Tl
        p.services[(ff, "SvUse")] = {"extends": None, "methods": [{"name": "pick", "oneway": False, "args": args, "ret": ret,
                                                                   "throws": [(1, "e", Ty("S", file=ff, name="ExUse"))]}]}
        p.order[ff].append(("v", "SvUse"))
        p.synth[(ff, "SvUse_pick_args")] = ("s", [(i, "d", fn, t) for (i, fn, t) in args])
        p.synth[(ff, "SvUse_pick_result")] = ("s", [(0, "o", "success", ret), (1, "o", "e", Ty("S", file=ff, name="ExUse"))])
    cross, fid = [], 0
    for (n, a, b) in names:
        for (req, ty) in [("d", ref(inc, n, a)), ("o", Ty("L", ref(inc, n, a)))]:
            fid += 1; cross.append((fid, req, "c%s%d" % (n.lower(), fid), ty))
    p.structs[(f, "StCross")] = ("s", cross); p.order[f].append(("r", "StCross"))
    return p

def collide_jobs(r, p, jobs, meta):
    defs = p.defs_code()
    def add(op, key, v, variant):
        sname, st = "%s/%s" % key, Ty("S", file=key[0], name=key[1])
        if op == "r":
            ev = ";".join(events(r, p, st, v, top=True))
            jobs.append(("r", "p%d" % p.pid, sname, sname, ev)); meta.append(("r", p, st, v, variant, "g2r %s %s %s" % (defs, sname, ev)))
        else:
            jobs.append((op, "p%d" % p.pid, sname, sname, dump_val(v))); meta.append((op, p, st, v, variant, "g2%s %s %s %s" % (op, defs, sname, dump_val(v))))
    for ff in p.files:
        for nm in ("StUse", "ExUse", "StCross"):
            key = (ff, nm)
            if key not in p.structs: continue
            kind, fields = p.structs[key]
            vals = [("(", {i: mx_zero(p, t) for (i, _, _, t) in fields}), ("(", {i: mx_nonzero(p, t) for (i, _, _, t) in fields})]
            vals += [gen_struct(r, p, key) for _ in range(4)]
            for v in vals:
                for op in ("w", "r", "p"): add(op, key, v, "valid" if op != "r" else "conforming")
        key = (ff, "UnUse")
        for rot, (i, _, _, t) in enumerate(p.structs[key][1]):
            for val in (mx_zero(p, t), mx_nonzero(p, t)):
                for op in ("w", "r", "p"): add(op, key, ("(", {i: val}), "valid" if op != "r" else "conforming")
        # the emitted args / result structs (their struct name on the wire is not the defs key: r and p only)
        akey, rkey = (ff, "SvUse_pick_args"), (ff, "SvUse_pick_result")
        for mk in (mx_zero, mx_nonzero):
            av = ("(", {i: mk(p, t) for (i, _, _, t) in p.synth[akey][1]})
            for op in ("r", "p"): add(op, akey, av, "valid" if op != "r" else "conforming")
            rv = ("(", {0: mk(p, p.synth[rkey][1][0][3])})
            for op in ("r", "p"): add(op, rkey, rv, "valid" if op != "r" else "conforming")


# ------------------------------------------------------------------ the fixed ill-formed-value programs
def build_badunion(pid, slim):
    """a union in every kind of position: field of a struct (default requiredness / optional / required), two
    levels down, element of a list, value of a map, field of an exception, field of a union, argument and result
    (success / declared exception) of a service method."""
    p = Prog(pid)
    f = "bu%dmain" % pid
    p.files = [f]; p.includes = {f: []}; p.order = {f: []}
    p.genopts = "slim" if slim else ""
    p.args_ctors = True
    p.badunion = True
    S = lambda n: Ty("S", file=f, name=n)
    def add(kind, n, fields): p.structs[(f, n)] = (kind, fields); p.order[f].append(("r", n))
    add("u", "UnB", [(1, "o", "ua1", Ty("i")), (2, "o", "ub2", Ty("s"))])
    add("s", "StHold", [(1, "d", "hu1", S("UnB")), (2, "d", "hs2", Ty("i"))])
    add("s", "StDeep", [(1, "d", "dh1", S("StHold")), (2, "d", "dl2", Ty("L", S("UnB"))), (3, "d", "dm3", Ty("M", Ty("s"), S("UnB"))),
                        (4, "o", "do4", S("UnB")), (5, "r", "dr5", S("UnB")), (6, "d", "dz6", Ty("i")), (7, "d", "dll7", Ty("L", Ty("L", S("StHold"))))])
    add("x", "ExB", [(1, "d", "xu1", S("UnB")), (2, "d", "xm2", Ty("s"))])
    add("u", "UnOut", [(1, "o", "oi1", S("UnB")), (2, "o", "ox2", Ty("i")), (3, "o", "ol3", Ty("L", S("UnB")))])
    p.services[(f, "SvB")] = {"extends": None, "methods": [{"name": "pick", "oneway": False, "args": [(1, "a", S("UnB")), (2, "t", Ty("i"))],
                                                            "ret": S("UnB"), "throws": [(1, "e", S("ExB"))]}]}
    p.order[f].append(("v", "SvB"))
    return p

def badunion_jobs(r, p, jobs, meta):
    f = p.files[-1]
    defs = p.defs_code()
    S = lambda n: Ty("S", file=f, name=n)
    u1 = lambda: ("(", {1: ("n", r.intn(100))}) if r.chance(50) else ("(", {2: ("q", b"x")})
    hold = lambda: ("(", {1: u1(), 2: ("n", 3)})
    deep = ("(", {1: hold(), 2: ("[", [u1(), u1()]), 3: ("{", [(("q", b"k"), u1()), (("q", b"l"), u1())]), 4: u1(), 5: u1(), 6: ("n", 9),
                  7: ("[", [("[", [hold()]), ("[", [hold(), hold()])])})
    # (go type / defs key, field table of the synthetic structs comes from defs_code)
    args_t, res_t = "%s/SvB_pick_args" % f, "%s/SvB_pick_result" % f
    p.structs_synth = {args_t: [(1, "d", "a", S("UnB")), (2, "d", "t", Ty("i"))], res_t: [(0, "o", "success", S("UnB")), (1, "o", "e", S("ExB"))]}
    tops = [("%s/StHold" % f, S("StHold"), hold()), ("%s/StDeep" % f, S("StDeep"), deep), ("%s/ExB" % f, S("ExB"), ("(", {1: u1(), 2: ("q", b"m")})),
            ("%s/UnOut" % f, S("UnOut"), ("(", {1: u1()})), ("%s/UnOut" % f, S("UnOut"), ("(", {3: ("[", [u1(), u1()])}))]
    def emit(op, sname, st, v, variant):
        jobs.append((op, "p%d" % p.pid, sname, sname, dump_val(v)))
        meta.append((op, p, st, v, variant, "g2%s %s %s %s" % (op, defs, sname, dump_val(v))))
    for sname, st, v in tops:
        emit("w", sname, st, v, "valid"); emit("p", sname, st, v, "valid")          # the well-formed twin passes
        for (pa, key) in union_positions(p, st, v):
            if not pa: continue
            for two in (False, True):
                bad, cnt = bad_union_value(r, p, key, two)
                where = "".join({"f": "field", "i": "elem", "v": "mapval"}[s] + "." for (s, _) in pa).rstrip(".")
                bv = replace_at(v, pa, bad)
                emit("w", sname, st, bv, "bad-nested:union%s@%s" % (cnt, where)); emit("p", sname, st, bv, "bad-nested:union%s@%s" % (cnt, where))
    # args / result structs of the service method (no entry in p.structs: oracle needs only "error")
    for sname, mk in [(args_t, lambda b: ("(", {1: b, 2: ("n", 4)})), (res_t, lambda b: ("(", {0: b})),
                      (res_t, lambda b: ("(", {1: ("(", {1: b, 2: ("q", b"m")})}))]:
        for two in (False, True):
            bad, cnt = bad_union_value(r, p, (f, "UnB"), two)
            emit("w", sname, None, mk(bad), "bad-nested:union%s@%s" % (cnt, sname.split("_")[-1])); emit("p", sname, None, mk(bad), "bad-nested:union%s@%s" % (cnt, sname.split("_")[-1]))


def add_defaults_struct(p):
    f = p.files[-1]
    import struct as _st
    dbl = lambda x: ("g", _st.unpack(">Q", _st.pack(">d", x))[0])
    p.enums[(f, "EnDf")] = [1, 5, 6]; p.order[f].append(("e", "EnDf"))
    p.typedefs[(f, "TdDfInt")] = Ty("i"); p.order[f].append(("t", "TdDfInt"))
    p.typedefs[(f, "TdDfEnum")] = Ty("E", file=f, name="EnDf"); p.order[f].append(("t", "TdDfEnum"))
    p.typedefs[(f, "TdDfList")] = Ty("L", Ty("i")); p.order[f].append(("t", "TdDfList"))
    en, tde = Ty("E", file=f, name="EnDf"), Ty("T", file=f, name="TdDfEnum")
    fields = [(1, "o", "fdfA1", Ty("i")), (2, "d", "fdfB2", Ty("i")), (3, "r", "fdfC3", Ty("s")), (4, "o", "fdfD4", Ty("s")),
              (5, "o", "fdfE5", en), (6, "o", "fdfF6", Ty("b")), (7, "o", "fdfG7", Ty("d")), (8, "o", "fdfH8", Ty("x")),
              (9, "o", "fdfI9", Ty("L", Ty("i"))), (10, "d", "fdfJ10", Ty("L", Ty("i"))), (11, "o", "fdfK11", Ty("M", Ty("s"), Ty("i"))),
              (12, "o", "fdfL12", Ty("T", file=f, name="TdDfInt")), (13, "o", "fdfM13", tde), (14, "o", "fdfN14", Ty("T", file=f, name="TdDfList")),
              (15, "o", "fdfO15", Ty("l")), (16, "o", "fdfP16", Ty("y")), (17, "o", "fdfQ17", Ty("h")), (18, "d", "fdfR18", Ty("x")),
              (19, "o", "fdfS19", Ty("Z", Ty("i"))), (20, "d", "fdfT20", en), (21, "o", "fdfU21", Ty("i")), (22, "d", "fdfV22", Ty("M", Ty("i"), Ty("s"))),
              (23, "d", "fdfW23", tde), (24, "o", "fdfX24", Ty("s")), (25, "d", "fdfY25", Ty("b")), (26, "d", "fdfZ26", Ty("d"))]
    p.structs[(f, "StDflt")] = ("s", fields); p.order[f].append(("r", "StDflt"))
    p.defaults[(f, "StDflt")] = {1: ("n", 5), 2: ("n", 7), 3: ("q", b"hi"), 4: ("q", b"yo"), 5: ("n", 5), 6: ("b", True), 7: dbl(1.5), 8: ("q", b"ab"),
                                 9: ("[", [("n", 1), ("n", 2)]), 10: ("[", [("n", 3)]), 11: ("{", [(("q", b"a"), ("n", 1))]), 12: ("n", 3), 13: ("n", 1),
                                 14: ("[", [("n", 4)]), 15: ("n", 10), 16: ("n", 2), 17: ("n", 3), 18: ("q", b"zz"), 19: ("[", [("n", 1)]), 20: ("n", 6),
                                 22: ("{", [(("n", 1), ("q", b"x"))]), 23: ("n", 5), 24: ("q", b""), 25: ("b", True), 26: dbl(-2.25)}
    st = Ty("S", file=f, name="StDflt")
    p.structs[(f, "StDfltOuter")] = ("s", [(1, "o", "fdoA1", st), (2, "d", "fdoB2", st), (3, "d", "fdoC3", Ty("L", st)), (4, "o", "fdoD4", Ty("M", Ty("s"), st))])
    p.order[f].append(("r", "StDfltOuter"))
    p.structs[(f, "UnDflt")] = ("u", [(1, "o", "fduA1", Ty("i")), (2, "o", "fduB2", Ty("s")), (3, "o", "fduC3", Ty("L", Ty("i")))])
    p.order[f].append(("r", "UnDflt"))
    p.defaults[(f, "UnDflt")] = {1: ("n", 3), 3: ("[", [("n", 1)])}
    p.structs[(f, "ExDflt")] = ("x", [(1, "o", "fdxA1", Ty("i")), (2, "d", "fdxB2", Ty("s"))])
    p.order[f].append(("r", "ExDflt"))
    p.defaults[(f, "ExDflt")] = {1: ("n", 4), 2: ("q", b"m")}


SUITES = {"c02": suite_c02}
