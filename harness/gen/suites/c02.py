"""Suite c02: emitted Read/Write of struct-likes."""
from genlib import *

# ------------------------------------------------------------------ suite c02
def suite_c02(r, n):
    nprogs = max(1, min(12, n // 40))
    progs = [gen_prog(r, i) for i in range(nprogs)]
    for p in progs:
        if r.chance(40): p.genopts = "slim"      # the slim generator option emits calls to lib/go/encoder.go helpers
        Stat("genopts:" + (p.genopts or "default"))
    # regression (KNOWN_FINDINGS: fixed C02 slim+i8): program 0 is always slim and has i8 fields
    p0 = progs[0]
    p0.genopts = "slim"
    p0.structs[(p0.files[-1], "StRegI8")] = ("s", [(1, "r", "fregA1", Ty("y", alias="i8")), (2, "o", "fregB2", Ty("y", alias="i8")), (4, "d", "fregC4", Ty("L", Ty("y", alias="i8")))])
    p0.order[p0.files[-1]].append(("r", "StRegI8"))
    jobs, meta = [], []
    per = max(1, n // nprogs)
    for p in progs:
        keys = list(p.structs)
        if not keys: continue
        Stat("programs"); Stat("files", len(p.files)); Stat("structs", len(keys)); Stat("typedefs", len(p.typedefs)); Stat("enums", len(p.enums))
        defs = p.defs_code()
        for _ in range(per):
            key = r.pick(keys)
            kind, fields = p.structs[key]
            sname, gotype, st = "%s/%s" % key, "%s/%s" % key, Ty("S", file=key[0], name=key[1])
            v = gen_struct(r, p, key)
            c = r.intn(10)
            if c < 4:       # write
                variant = "valid"
                if kind == "u" and fields and r.chance(30):
                    # a union value with 0 or 2 fields set must be refused by Write
                    if r.chance(50) or len(fields) < 2: v, variant = ("(", {}), "union0"
                    else:
                        f1, f2 = r.shuffle(fields)[:2]
                        v, variant = ("(", {f1[0]: gen_val(r, p, f1[3], 2), f2[0]: gen_val(r, p, f2[3], 2)}), "union2"
                jobs.append(("w", "p%d" % p.pid, gotype, sname, dump_val(v)))
                meta.append(("w", p, st, v, variant, "g2w %s %s %s" % (defs, sname, dump_val(v))))
            elif c < 8:     # read
                variant, drop, unk = "conforming", None, False
                reqs = [f[0] for f in fields if f[1] == "r"]
                cc = r.intn(10)
                if cc < 3: unk, variant = True, "unknown-fields"
                elif cc < 5 and reqs and kind != "u": drop, variant = r.pick(reqs), "missing-required"
                elif cc < 6 and kind == "u" and fields:
                    if r.chance(50) or len(fields) < 2: v, variant = ("(", {}), "union0"
                    else:
                        f1, f2 = r.shuffle(fields)[:2]
                        v, variant = ("(", {f1[0]: gen_val(r, p, f1[3], 2), f2[0]: gen_val(r, p, f2[3], 2)}), "union2"
                ev = ";".join(events(r, p, st, v, extra_unknown=unk, drop=drop, top=True))
                jobs.append(("r", "p%d" % p.pid, gotype, sname, ev))
                meta.append(("r", p, st, v, variant, "g2r %s %s %s" % (defs, sname, ev)))
            else:           # real protocols round trip
                jobs.append(("p", "p%d" % p.pid, gotype, sname, dump_val(v)))
                meta.append(("p", p, st, v, "valid", "g2p %s %s %s" % (defs, sname, dump_val(v))))
    res, err = build_and_run(progs, jobs)
    if res is None:
        OracleFail("valid IDL was not compiled to Go that builds (C02 needs the generated code)", {"op": "build", "detail": err[:3000]})
        Stat("evaluations"); Finish(); return
    if err:
        OracleFail("the runner crashed while executing generated code", {"op": "run", "detail": err[:2000]})
    for (op, p, st, v, variant, line), real in zip(meta, res):
        if real is None: real = "no-result"
        Case(line, real)
        Stat("op:%s:%s" % (op, variant)); Stat("outcome:" + real.split(" ")[0]); Stat("evaluations")
        Sample({"line": line[:600], "real": real[:300]})
        # ---- the property oracle, from Thrift's rules, independent of the Lean model
        bad = None
        if op == "w":
            if variant == "valid":
                want = "ok " + tree(p, st, v)
                if real != want: bad = "generated Write does not produce the declared encoding (field ids, wire types, values, presence)"
            elif not real.startswith("err:"): bad = "generated Write accepted a union with %s fields set" % variant[-1]
        elif op == "r":
            if variant in ("conforming", "unknown-fields"):
                want = "ok %s rest=0" % canon_dump(p, st, v)
                if real != want: bad = "generated Read of a conforming encoding (%s) does not reproduce the value" % variant
            elif not real.startswith("err:"): bad = "generated Read accepted an encoding with %s" % variant
        else:
            d = canon_dump(p, st, v)
            want = "ok binary=%s compact=%s json=%s" % (d, d, d)
            if real != want: bad = "round trip through a real Thrift protocol does not reproduce the value"
        if bad:
            OracleFail(bad, {"op": "g2" + op, "variant": variant, "line": line, "got": real[:2000], "idl": "\n".join(p.text(f) for f in p.files)[:4000]})
    Finish()



SUITES = {"c02": suite_c02}
