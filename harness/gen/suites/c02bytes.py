"""Suite c02bytes: the emitted Write/Read of struct-likes through the REAL binary and compact protocols,
against the byte-level Lean models of those protocols (FV.Model.BinaryProtocol / CompactProtocol).

  g2bb / g2bc   value -> emitted Write -> real binary / compact protocol -> bytes (hex), and those bytes
                back through the real protocol and the emitted Read. The model must produce the SAME bytes.
                Go iterates maps in random order, so the values of these ops have at most ONE entry per
                set / map (lists are unrestricted).
  g2rb / g2rc   value (unrestricted) -> bytes computed by the LEAN MODEL (driver ops g2bb/g2bc) -> real
                protocol -> emitted Read -> value.

Oracles, independent of the Lean model: schema-less decoders of the binary and of the compact layout,
written here from the Thrift specification, turn the bytes into the canonical wire tree, which must be the
DECLARED encoding `genlib.tree` of the value (names are not on the wire; an empty compact map carries no
key/value types); the value read back must be the value written (`genlib.canon_dump`).
"""
import re, subprocess
from genlib import *

DRIVER = os.path.join(VERIF, "lean", ".lake", "build", "bin", "fvdriver")


# ------------------------------------------------------------------ independent schema-less decoders
class Malformed(Exception):
    pass


def _need(b, pos, n):
    if pos + n > len(b): raise Malformed("truncated at %d (+%d)" % (pos, n))


def _sint(b, pos, n):
    _need(b, pos, n)
    return int.from_bytes(b[pos:pos + n], "big", signed=True), pos + n


def _join_struct(fields):
    return "R(){%s}" % ";".join(s for _, s in sorted(fields))


def bin_tree(b, pos, tt, depth=0):
    """one value of wire type tt of the BINARY protocol -> (canonical tree, next position)."""
    if depth > 80: raise Malformed("too deep")
    if tt == 2:
        _need(b, pos, 1); return "B%d" % (1 if b[pos] == 1 else 0), pos + 1
    if tt == 3: v, pos = _sint(b, pos, 1); return "Y%d" % v, pos
    if tt == 6: v, pos = _sint(b, pos, 2); return "H%d" % v, pos
    if tt == 8: v, pos = _sint(b, pos, 4); return "I%d" % v, pos
    if tt == 10: v, pos = _sint(b, pos, 8); return "L%d" % v, pos
    if tt == 4:
        _need(b, pos, 8); return "D" + b[pos:pos + 8].hex(), pos + 8
    if tt == 11:
        n, pos = _sint(b, pos, 4)
        if n < 0: raise Malformed("negative length")
        _need(b, pos, n); return "S" + b[pos:pos + n].hex(), pos + n
    if tt == 12:
        fields = []
        while True:
            _need(b, pos, 1); ft = b[pos]; pos += 1
            if ft == 0: break
            fid, pos = _sint(b, pos, 2)
            s, pos = bin_tree(b, pos, ft, depth + 1)
            fields.append((fid, "%d::%d=%s" % (fid, ft, s)))
        return _join_struct(fields), pos
    if tt in (15, 14):
        _need(b, pos, 1); et = b[pos]; pos += 1
        n, pos = _sint(b, pos, 4)
        if n < 0: raise Malformed("negative size")
        items = []
        for _ in range(n):
            s, pos = bin_tree(b, pos, et, depth + 1); items.append(s)
        if tt == 15: return "LS(%d)[%s]" % (et, ",".join(items)), pos
        return "ST(%d){%s}" % (et, ",".join(sorted(items))), pos
    if tt == 13:
        _need(b, pos, 2); kt, vt = b[pos], b[pos + 1]; pos += 2
        n, pos = _sint(b, pos, 4)
        if n < 0: raise Malformed("negative size")
        items = []
        for _ in range(n):
            k, pos = bin_tree(b, pos, kt, depth + 1)
            v, pos = bin_tree(b, pos, vt, depth + 1)
            items.append(k + "=" + v)
        return "MP(%d,%d){%s}" % (kt, vt, ",".join(sorted(items))), pos
    raise Malformed("wire type %d" % tt)


CT2TT = {1: 2, 2: 2, 3: 3, 4: 6, 5: 8, 6: 10, 7: 4, 8: 11, 9: 15, 10: 14, 11: 13, 12: 12}


def _uvarint(b, pos):
    shift, acc = 0, 0
    while True:
        _need(b, pos, 1); c = b[pos]; pos += 1
        acc |= (c & 0x7f) << shift
        if not c & 0x80: return acc, pos
        shift += 7
        if shift > 70: raise Malformed("varint too long")


def _zz(u): return (u >> 1) ^ -(u & 1)


def cmp_tree(b, pos, tt, depth=0):
    """one value of wire type tt of the COMPACT protocol (not a bool struct field) -> (tree, next position)."""
    if depth > 80: raise Malformed("too deep")
    if tt == 2:
        _need(b, pos, 1); return "B%d" % (1 if b[pos] == 1 else 0), pos + 1
    if tt == 3: v, pos = _sint(b, pos, 1); return "Y%d" % v, pos
    if tt in (6, 8, 10):
        u, pos = _uvarint(b, pos); return "%s%d" % ({6: "H", 8: "I", 10: "L"}[tt], _zz(u)), pos
    if tt == 4:
        _need(b, pos, 8); return "D" + b[pos:pos + 8][::-1].hex(), pos + 8          # little endian
    if tt == 11:
        n, pos = _uvarint(b, pos)
        _need(b, pos, n); return "S" + b[pos:pos + n].hex(), pos + n
    if tt == 12:
        fields, last = [], 0
        while True:
            _need(b, pos, 1); h = b[pos]; pos += 1
            nib, delta = h & 15, h >> 4
            if nib == 0: break
            if delta: fid = last + delta
            else:
                u, pos = _uvarint(b, pos); fid = _zz(u)
            last = fid
            if nib not in CT2TT: raise Malformed("compact type %d" % nib)
            ft = CT2TT[nib]
            if nib in (1, 2): s = "B%d" % (1 if nib == 1 else 0)
            else: s, pos = cmp_tree(b, pos, ft, depth + 1)
            fields.append((fid, "%d::%d=%s" % (fid, ft, s)))
        return _join_struct(fields), pos
    if tt in (15, 14):
        _need(b, pos, 1); h = b[pos]; pos += 1
        n = h >> 4
        if n == 15: n, pos = _uvarint(b, pos)
        if (h & 15) not in CT2TT: raise Malformed("compact element type %d" % (h & 15))
        et = CT2TT[h & 15]
        items = []
        for _ in range(n):
            s, pos = cmp_tree(b, pos, et, depth + 1); items.append(s)
        if tt == 15: return "LS(%d)[%s]" % (et, ",".join(items)), pos
        return "ST(%d){%s}" % (et, ",".join(sorted(items))), pos
    if tt == 13:
        n, pos = _uvarint(b, pos)
        if n == 0: return "MP(0,0){}", pos
        _need(b, pos, 1); h = b[pos]; pos += 1
        if (h >> 4) not in CT2TT or (h & 15) not in CT2TT: raise Malformed("compact map types %02x" % h)
        kt, vt = CT2TT[h >> 4], CT2TT[h & 15]
        items = []
        for _ in range(n):
            k, pos = cmp_tree(b, pos, kt, depth + 1)
            v, pos = cmp_tree(b, pos, vt, depth + 1)
            items.append(k + "=" + v)
        return "MP(%d,%d){%s}" % (kt, vt, ",".join(sorted(items))), pos
    raise Malformed("wire type %d" % tt)


def wire_tree(compact, hexs_):
    """bytes of ONE struct -> canonical tree, or 'malformed: …'."""
    try:
        b = bytes.fromhex(hexs_)
        s, pos = (cmp_tree if compact else bin_tree)(b, 0, 12)
        if pos != len(b): return "malformed: %d trailing bytes" % (len(b) - pos)
        return s
    except (Malformed, ValueError) as e:
        return "malformed: %s" % e


def declared_tree(p, st, v, compact):
    """genlib.tree (the declared encoding) without what the byte protocols do not carry."""
    s = tree(p, st, v)
    s = re.sub(r"R\(\w+\)", "R()", s)
    s = re.sub(r"(-?\d+):\w+:(\d+)=", r"\1::\2=", s)
    if compact: s = re.sub(r"MP\(\d+,\d+\)\{\}", "MP(0,0){}", s)
    return s


# ------------------------------------------------------------------ values with at most one entry per set/map
def limit1(p, t, v):
    t = p.resolve(t)
    k, x = v
    if t.k == "L": return ("[", [limit1(p, t.a, i) for i in x])
    if t.k == "Z": return ("[", [limit1(p, t.a, i) for i in x[:1]])
    if t.k == "M": return ("{", [(limit1(p, t.a, a), limit1(p, t.b, b)) for a, b in x[:1]])
    if t.k == "S":
        kind, fields = p.structs[(t.file, t.name)]
        ft = {i: ty for (i, _, _, ty) in fields}
        return ("(", {i: limit1(p, ft[i], x[i]) for i in x})
    return v


# ------------------------------------------------------------------ a struct that reaches the long forms
# genlib's random structs have ascending ids with gaps <= 3 and containers of <= 3 elements: the compact
# protocol's long field header (gap > 15 or descending id), long list header (> 14 elements) and multi-byte
# varints (lengths > 127) would never be reached. Every program gets this struct in addition.
WIDE = [(1, "d", "fwA1", Ty("b")), (17, "d", "fwB17", Ty("b")), (18, "o", "fwC18", Ty("L", Ty("i"))),
        (40, "d", "fwD40", Ty("s")), (39, "d", "fwE39", Ty("l")), (300, "o", "fwF300", Ty("L", Ty("b"))),
        (32767, "o", "fwG32767", Ty("M", Ty("s"), Ty("L", Ty("h")))), (16000, "o", "fwH16000", Ty("Z", Ty("l"))),
        (2, "r", "fwI2", Ty("d")), (55, "o", "fwJ55", Ty("x")), (56, "o", "fwK56", Ty("y")), (57, "o", "fwL57", Ty("L", Ty("s")))]

def add_wide(p):
    f = p.files[-1]
    p.structs[(f, "StWide")] = ("s", list(WIDE))
    p.order[f].append(("r", "StWide"))

def gen_wide(r):
    def ints(bits, n): return [("n", r.pick([0, -1, 1, 63, 64, -64, -65, 2**(bits - 1) - 1, -2**(bits - 1), r.intn(2**bits) - 2**(bits - 1)])) for _ in range(n)]
    def blob(text):
        n = r.pick([0, 1, 127, 128, 129, 300, 20000]) if r.chance(60) else r.intn(64)
        return bytes((97 + r.intn(26)) if text else r.intn(256) for _ in range(n))
    fv = {1: ("b", r.chance(50)), 17: ("b", r.chance(50)), 40: ("q", blob(True)), 39: ints(64, 1)[0],
          2: ("g", r.pick([0, 1, 0x8000000000000000, 0x7fefffffffffffff, 0x7ff0000000000000, 0xfff0000000000000, 0x7ff8000000000001, 0x400921fb54442d18, r.u64() & 0x7fefffffffffffff]))}
    if r.chance(70): fv[18] = ("[", ints(32, r.pick([0, 1, 14, 15, 16, 40, 130])))
    if r.chance(70): fv[300] = ("[", [("b", r.chance(50)) for _ in range(r.pick([0, 1, 3, 14, 15, 33]))])
    if r.chance(70):
        items = {}
        for _ in range(r.pick([0, 1, 2, 20])):
            k = ("q", blob(True)); items[dump_val(k)] = (k, ("[", ints(16, r.pick([0, 2, 15, 16]))))
        fv[32767] = ("{", list(items.values()))
    if r.chance(70):
        items = {}
        for x in ints(64, r.pick([0, 1, 5, 15, 30])): items[dump_val(x)] = x
        fv[16000] = ("[", list(items.values()))
    if r.chance(70): fv[55] = ("q", blob(False))
    if r.chance(70): fv[56] = ints(8, 1)[0]
    if r.chance(50): fv[57] = ("[", [("q", blob(True)) for _ in range(r.pick([0, 1, 15, 16]))])
    return ("(", fv)


def model_bytes(lines):
    """the Lean model's bytes for `g2bb/g2bc …` lines (None where the model gives none)."""
    if not lines: return []
    if not os.path.exists(DRIVER): return [None] * len(lines)
    pr = subprocess.run([DRIVER], input="\n".join(lines) + "\n", capture_output=True, text=True, timeout=900)
    outs = pr.stdout.split("\n")
    res = []
    for i in range(len(lines)):
        o = outs[i] if i < len(outs) else ""
        m = re.match(r"ok ([0-9a-f]+) back=", o)
        res.append(m.group(1) if m else None)
    return res


# ------------------------------------------------------------------ suite
def suite_c02bytes(r, n):
    nprogs = max(1, min(10, n // 40))
    progs = [gen_prog(r, i) for i in range(nprogs)]
    for p in progs:
        add_wide(p)
        if r.chance(30): p.genopts = "slim"
        Stat("genopts:" + (p.genopts or "default"))
    per = max(1, n // nprogs)
    plan = []                       # (op, p, key, st, v, variant)
    for p in progs:
        keys = list(p.structs)
        if not keys: continue
        Stat("programs"); Stat("structs", len(keys))
        for _ in range(per):
            key = r.pick(keys)
            kind, fields = p.structs[key]
            st = Ty("S", file=key[0], name=key[1])
            if r.chance(15):
                key = (p.files[-1], "StWide"); kind, fields = p.structs[key]
                st = Ty("S", file=key[0], name=key[1])
                v = gen_wide(r)
                Stat("wide-values")
            else:
                v = gen_struct(r, p, key)
            c = r.intn(10)
            compact = r.chance(50)
            if c < 6:
                variant = "valid"
                v = limit1(p, st, v)
                if kind == "u" and fields and r.chance(15):
                    if r.chance(50) or len(fields) < 2: v, variant = ("(", {}), "union0"
                    else:
                        f1, f2 = r.shuffle(fields)[:2]
                        v, variant = ("(", {f1[0]: limit1(p, f1[3], gen_set_val(r, p, key, f1[0], f1[3], 2)), f2[0]: limit1(p, f2[3], gen_set_val(r, p, key, f2[0], f2[3], 2))}), "union2"
                plan.append(("bc" if compact else "bb", p, key, st, v, variant))
            else:
                plan.append(("rc" if compact else "rb", p, key, st, v, "model-bytes"))
    # the model's bytes for the reverse direction
    rev = [i for i, x in enumerate(plan) if x[0] in ("rb", "rc")]
    mlines = ["g2b%s %s %s/%s %s" % (plan[i][0][1], plan[i][1].defs_code(), plan[i][2][0], plan[i][2][1], dump_val(plan[i][4])) for i in rev]
    mbytes = dict(zip(rev, model_bytes(mlines)))
    jobs, meta = [], []
    for i, (op, p, key, st, v, variant) in enumerate(plan):
        sname = "%s/%s" % key
        line = "g2%s %s %s %s" % (op, p.defs_code(), sname, dump_val(v))
        if op in ("bb", "bc"):
            jobs.append(("w" + op, "p%d" % p.pid, sname, sname, dump_val(v)))
        else:
            hx = mbytes.get(i)
            if hx is None:
                Stat("reverse:no-model-bytes"); continue
            jobs.append(("rb" + op[1], "p%d" % p.pid, sname, sname, hx))
        meta.append((op, p, st, v, variant, line, mbytes.get(i)))
    res, err = build_and_run(progs, jobs)
    if res is None:
        OracleFail("valid IDL was not compiled to Go that builds (C02 needs the generated code)", {"op": "build", "detail": err[:3000]})
        Stat("evaluations"); Finish(); return
    if err:
        OracleFail("the runner crashed while executing generated code", {"op": "run", "detail": err[:2000]})
    for (op, p, st, v, variant, line, hx), real in zip(meta, res):
        if real is None: real = "no-result"
        Case(line, real)
        Stat("op:g2%s:%s" % (op, variant)); Stat("outcome:" + real.split(" ")[0]); Stat("evaluations")
        Sample({"line": line[:600], "real": real[:300]})
        compact = op[1] == "c"
        pname = "compact" if compact else "binary"
        bad = None
        if op in ("bb", "bc"):
            if variant != "valid":
                if not real.startswith("err:"): bad = "generated Write accepted a union with %s fields set (%s protocol)" % (variant[-1], pname)
            else:
                m = re.match(r"ok ([0-9a-f]*) back=(.*)$", real)
                if not m: bad = "generated Write of a valid value through the real %s protocol failed" % pname
                else:
                    Stat("bytes:" + pname, len(m.group(1)) // 2)
                    got, want = wire_tree(compact, m.group(1)), declared_tree(p, st, v, compact)
                    if got != want: bad = "bytes written through the real %s protocol do not decode to the declared encoding (field ids, wire types, values, presence)" % pname
                    elif m.group(2) != canon_dump(p, st, v): bad = "reading back the bytes written through the real %s protocol does not reproduce the value" % pname
        else:
            conforming = wire_tree(compact, hx) == declared_tree(p, st, v, compact)
            Stat("reverse:model-bytes-%s" % ("conforming" if conforming else "NOT-conforming"))
            if conforming and real != "ok %s rest=0" % canon_dump(p, st, v):
                bad = "generated Read of a conforming %s encoding does not reproduce the value" % pname
        if bad:
            OracleFail(bad, {"op": "g2" + op, "variant": variant, "line": line, "got": real[:2000], "bytes": (hx or "")[:2000],
                             "idl": "\n".join(p.text(f) for f in p.files)[:4000]})
    Finish()


SUITES = {"c02bytes": suite_c02bytes}
