"""Suite c12 (property C12 through REALLY GENERATED code, both emitted styles: default and `-gen go:slim`):
a service whose arguments / result / declared exception are nested struct-likes; the bytes that take the message
over the limit sit at a chosen place — a direct string / binary argument, a top-level field, inside a nested
struct 2..4 levels down, inside list / map elements, inside a union, in the arguments vs the result vs the
declared exception. The emitted client and processor run over an in-process transport with the NATS pair's
size checks (request limit at the client's buffer and at the transport, bounded reply buffer on the server)
whose limits are set RELATIVE to the measured framed size of this very request / reply (-8..+8, far).
Oracle: over the request limit -> REQUEST_TOO_LARGE, handler not invoked, nothing reaches the transport; over
the reply limit -> RESPONSE_TOO_LARGE (not a timeout); within -> the value / declared exception; follow-up
calls through the same client and transport with the same / a cloned / a fresh FContext behave the same way.
Model tie: `c12g` / `c12send` lines (FV.callLoop / FV.sendOnly on the measured sizes)."""
from genlib import *

S = lambda b: ("q", b)
N_ = lambda v: ("n", v)
ST = lambda **kw: ("(", {int(k[1:]): v for k, v in kw.items()})


def build_prog(pid, slim):
    p = Prog(pid)
    f = "c12p%d" % pid
    p.files = [f]; p.includes = {f: []}; p.order = {f: []}
    p.genopts = "slim" if slim else ""
    R = lambda n: Ty("S", file=f, name=n)
    def add(name, kind, fields):
        p.structs[(f, name)] = (kind, fields); p.order[f].append(("r", name))
    add("Leaf", "s", [(1, "d", "txt", Ty("s")), (2, "d", "blob", Ty("x")), (3, "d", "n", Ty("i"))])
    add("Choice", "u", [(1, "o", "a", Ty("s")), (2, "o", "l", R("Leaf")), (3, "o", "bb", Ty("x"))])
    add("Mid", "s", [(1, "d", "ident", Ty("l")), (2, "d", "leaf", R("Leaf")), (3, "d", "leaves", Ty("L", R("Leaf"))),
                     (4, "d", "byName", Ty("M", Ty("s"), R("Leaf"))), (5, "d", "note", Ty("s")), (6, "o", "ch", R("Choice"))])
    add("Top", "s", [(1, "d", "mid", R("Mid")), (2, "d", "leaf", R("Leaf")), (3, "d", "s", Ty("s")), (4, "d", "b", Ty("x")),
                     (5, "d", "strs", Ty("L", Ty("s"))), (6, "o", "ch", R("Choice")), (7, "d", "mids", Ty("L", R("Mid")))])
    add("Oops", "x", [(1, "d", "why", Ty("s")), (2, "d", "detail", R("Leaf")), (3, "o", "mid", R("Mid"))])
    p.services[(f, "Store")] = {"extends": None, "methods": [
        {"name": "put", "oneway": False, "args": [(1, "t", R("Top")), (2, "s", Ty("s")), (3, "l", R("Leaf"))], "ret": R("Top"), "throws": [(1, "o", R("Oops"))]},
        {"name": "echo", "oneway": False, "args": [(1, "s", Ty("s")), (2, "b", Ty("x"))], "ret": Ty("s"), "throws": []},
        {"name": "fetch", "oneway": False, "args": [(1, "n", Ty("i"))], "ret": R("Leaf"), "throws": [(1, "o", R("Oops"))]},
        {"name": "fire", "oneway": True, "args": [(1, "t", R("Top"))], "ret": None, "throws": []},
    ]}
    p.order[f].append(("v", "Store"))
    p.f = f
    return p


def leaf(txt=b"t", blob=b"\x01", n=3): return ST(f1=S(txt), f2=S(blob), f3=N_(n))

def mid(big=None, where=None):
    b = lambda w, d: big if where == w else d
    v = {1: N_(7), 2: leaf(txt=b("leaf.txt", b"m")), 3: ("[", [leaf(), leaf(txt=b("leaves[1].txt", b"x")), leaf()]),
         4: ("{", [(S(b"k"), leaf(blob=b("byName.blob", b"\x02")))]), 5: S(b("note", b"note"))}
    if where == "ch.l.txt": v[6] = ST(f2=leaf(txt=big))
    return ("(", v)

# where the oversize bytes sit in a Top value: (tag, nesting depth of the bytes below Top)
TOP_PATHS = ["s", "b", "strs[2]", "leaf.blob", "mid.note", "mid.leaf.txt", "mid.leaves[1].txt", "mid.byName.blob",
             "ch.a", "ch.bb", "ch.l.txt", "mid.ch.l.txt", "mids[0].leaf.txt", "mids[1].byName.blob"]

def top(big=None, where=None):
    b = lambda w, d: big if where == w else d
    sub = where[4:] if where and where.startswith("mid.") else None
    v = {1: mid(big, sub), 2: leaf(blob=b("leaf.blob", b"\x03")), 3: S(b("s", b"top")), 4: S(b("b", b"\x04\x05")),
         5: ("[", [S(b"a"), S(b"b"), S(b("strs[2]", b"c"))]),
         7: ("[", [mid(big, where[8:] if where and where.startswith("mids[0].") else None),
                   mid(big, where[8:] if where and where.startswith("mids[1].") else None)])}
    if where == "ch.a": v[6] = ST(f1=S(big))
    elif where == "ch.bb": v[6] = ST(f3=S(big))
    elif where == "ch.l.txt": v[6] = ST(f2=leaf(txt=big))
    return ("(", v)

def oops(big=None, where=None):
    b = lambda w, d: big if where == w else d
    v = {1: S(b("why", b"no")), 2: leaf(txt=b("detail.txt", b"d"))}
    if where and where.startswith("mid."): v[3] = mid(big, where[4:])
    return ("(", v)

OOPS_PATHS = ["why", "detail.txt", "mid.leaf.txt", "mid.byName.blob"]


def suite_c12(r, n):
    progs = [build_prog(0, False), build_prog(1, True)]
    jobs, meta = [], []
    for _ in range(n):
        p = r.pick(progs)
        style = "slim" if p.genopts else "std"
        proto = r.pick(["binary", "compact", "json"])
        skey = (p.f, "Store")
        N = r.pick([1500, 2500, 4000, 9000])
        big = b"a" * N
        side = r.pick(["req", "req", "rep", "rep", "exc", "none", "oneway", "direct"])
        # the limit falls short by a byte, a few bytes, or ANYWHERE inside the message (p% of its size: the
        # write that overflows is then the header, a field before, inside or after the nested big part)
        BIG = [2**15 * 4, 2**31 - 1, 2**31, 2**31 + 1, 2**32 - 1, 2**32, 2**40, 2**63 - 1, 2**63, 2**64 - 1]   # the limit VALUE (uint): all far above
        near = lambda: r.pick([-1, -2, -8, 0, 0, 1, 8, N, "=%d" % r.pick(BIG)] + ["-%d%%" % (1 + r.intn(92)) for _ in range(6)])
        dq, dr = "x", "x"
        if side == "direct":          # control: a direct string / binary argument or a string result
            mname, where = "echo", r.pick(["arg.s", "arg.b", "ret"])
            args = ("(", {1: S(big if where == "arg.s" else b"s"), 2: S(big if where == "arg.b" else b"b")})
            small = ("(", {1: S(b"s"), 2: S(b"b")})
            rv = S(big if where == "ret" else b"r")
            outcome, want_main = "v" + dump_val(rv), "ok " + dump_val(rv)
            if where == "ret": dr = near()
            else: dq = near()
        elif side == "oneway":
            mname, where = "fire", "arg.t." + r.pick(TOP_PATHS)
            args = ("(", {1: top(big, where[6:])}); small = ("(", {1: top()})
            outcome, want_main = "v", "void"
            dq = near()
        elif side in ("req", "none"):
            mname = "put"
            where = r.pick(["arg.s", "arg.l.txt", "arg.l.blob"] + ["arg.t." + w for w in TOP_PATHS] * 2)
            a = {1: top(), 2: S(b"s"), 3: leaf()}
            if where == "arg.s": a[2] = S(big)
            elif where == "arg.l.txt": a[3] = leaf(txt=big)
            elif where == "arg.l.blob": a[3] = leaf(blob=big)
            else: a[1] = top(big, where[6:])
            args = ("(", a); small = ("(", {1: top(), 2: S(b"s"), 3: leaf()})
            rv = top()
            outcome, want_main = "v" + dump_val(rv), "ok " + canon_dump(p, Ty("S", file=p.f, name="Top"), rv)
            if side == "req": dq = near()
            else: dq, dr = r.pick(["x", 0, 5]), r.pick(["x", 0, 5])
        elif side == "rep":
            mname = r.pick(["put", "put", "fetch"])
            if mname == "put":
                where = "ret." + r.pick(TOP_PATHS)
                args = ("(", {1: top(), 2: S(b"s"), 3: leaf()}); small = args
                rv = top(big, where[4:]); rt = Ty("S", file=p.f, name="Top")
            else:
                where = r.pick(["ret.txt", "ret.blob"])
                args = ("(", {1: N_(5)}); small = args
                rv = leaf(txt=big) if where == "ret.txt" else leaf(blob=big); rt = Ty("S", file=p.f, name="Leaf")
            outcome, want_main = "v" + dump_val(rv), "ok " + canon_dump(p, rt, rv)
            dr = near()
        else:  # the declared exception carries the bytes
            mname = r.pick(["put", "fetch"])
            where = "exc." + r.pick(OOPS_PATHS)
            args = ("(", {1: top(), 2: S(b"s"), 3: leaf()}) if mname == "put" else ("(", {1: N_(5)})
            small = args
            ev = oops(big, where[4:])
            outcome, want_main = "x1=" + dump_val(ev), "exc 1 " + canon_dump(p, Ty("S", file=p.f, name="Oops"), ev)
            dr = near()
        neg = lambda d: d != "x" and (str(d).startswith("-"))
        if proto == "json" and neg(dr):
            dr = r.pick([0, 3])            # known finding json-sticky-writer: JSON replies stay within the server-side limit
            Stat("excluded-known-class(json-sticky-writer)")
        follow = [r.pick("scf") + r.pick("wwo") for _ in range(r.pick([1, 2, 3]))]
        over_q = neg(dq)
        over_r = (not over_q) and neg(dr) and mname != "fire"
        cls = lambda s: s.split(" ")[0]
        if over_q: want_main, wcalls, wsent = "err:requestTooLarge", 0, "n"
        elif over_r: want_main, wcalls, wsent = "err:responseTooLarge", 1, "y"
        else: wcalls, wsent = 1, "y"
        small_ok = "void" if mname == "fire" else "ok"
        want_next = [small_ok if fl[1] == "w" else cls(want_main) for fl in follow]
        want_nextcalls = sum(1 for fl in follow if fl[1] == "w" or not over_q)
        mkey = "%s/%s_%s" % (p.f, "Store", mname)
        payload = "%s|%s|%s|%s|%s|%s|%s" % (proto, dq, dr, dump_val(args), outcome, dump_val(small), ",".join(follow))
        jobs.append(("rpc12", "p%d" % p.pid, "%s/%s" % skey, mkey, payload))
        meta.append((style, proto, mname, side, where, dq, dr, follow, want_main, wcalls, wsent, want_next, want_nextcalls))
    res, err = build_and_run(progs, jobs)
    if res is None:
        OracleFail("the C12 service was not compiled to Go that builds", {"op": "build", "detail": err[:3000]})
        Stat("evaluations"); Finish(); return
    if err: OracleFail("the runner crashed while executing generated code", {"op": "run", "detail": err[:2000]})
    import re
    for (style, proto, mname, side, where, dq, dr, follow, want_main, wcalls, wsent, want_next, want_nextcalls), real in zip(meta, res):
        Stat("evaluations")
        for t in ("style:" + style, "proto:" + proto, "method:" + mname, "side:" + side, "where:" + re.sub(r"\[\d\]", "[]", where),
                  "dq:" + ("none" if dq == "x" else "value" if str(dq).startswith("=") else "over-anywhere" if str(dq).endswith("%") else "over" if dq < 0 else "=" if dq == 0 else "within"),
                  "dr:" + ("none" if dr == "x" else "value" if str(dr).startswith("=") else "over-anywhere" if str(dr).endswith("%") else "over" if dr < 0 else "=" if dr == 0 else "within")): Stat(t)
        for fl in follow: Stat("follow:" + fl)
        case = "%s %s %s big@%s dq=%s dr=%s follow=%s" % (style, proto, mname, where, dq, dr, ",".join(follow))
        m = re.match(r"Qs=(\d+) Rs=(\d+) Q=(\d+) R=(\d+) E=(\d+) q=(\d+) r=(\d+) main=(.*) calls=(\d+) sent=([yn]) next=(\S*) nextcalls=(\d+)$", real or "no-result", re.S)
        if not m:
            OracleFail("a call through generated code with size limits did not complete", {"op": "g12", "case": case, "got": str(real)[:600]})
            continue
        Qs, Rs, Q, R, E, q, rl, main, calls, sent, nxt, nextcalls = m.groups()
        Qs, Rs, Q, R, E, q, rl, calls, nextcalls = int(Qs), int(Rs), int(Q), int(R), int(E), int(q), int(rl), int(calls), int(nextcalls)
        # the small follow-up message may itself exceed a limit that falls far short
        small_over_q = q > 0 and Qs > q
        small_over_r = (not small_over_q) and rl > 0 and Rs > rl and mname != "fire"
        small_ok = "err:requestTooLarge" if small_over_q else "err:responseTooLarge" if small_over_r else ("void" if mname == "fire" else "ok")
        want_next = [small_ok if fl[1] == "w" else want_main.split(" ")[0] for fl in follow]
        want_nextcalls = sum(1 for fl in follow if (fl[1] == "w" and not small_over_q) or (fl[1] == "o" and want_main != "err:requestTooLarge"))
        if want_main == "err:responseTooLarge" and rl < 900:
            # the error reply (about 100 bytes + the error text with one prefix per struct level) may not fit
            Stat("outside-assumption(error reply may not fit the reply limit)"); continue
        # model tie on the measured sizes
        mres = main.split(" ")[0]
        mres = "ok" if mres in ("ok", "exc", "void") else mres
        if mname == "fire":
            Case("c12send 00%06x loop %d gen %s" % (Q - 4, q, style), "sent=%s res=%s" % (sent, mres))
        else:
            Case("c12g %d %d %d %d %d gen %s" % (q, rl, Q, R, max(E, 5), style), "sent=%s res=%s" % (sent, mres))
        Sample({"case": case, "real": (real or "")[:200]})
        bad = None
        if main != want_main:
            what = {"err:requestTooLarge": "a request over the limit must fail with REQUEST_TOO_LARGE",
                    "err:responseTooLarge": "a reply over the server-side limit must reach the caller as RESPONSE_TOO_LARGE"}.get(want_main, "a message within the limits must not be rejected or altered")
            bad = "%s: caller observed %s" % (what, main[:200])
        elif calls != wcalls or sent != wsent:
            bad = "handler invocations %d (want %d), request reached the transport: %s (want %s)" % (calls, wcalls, sent, wsent)
        elif nxt.split(",") != want_next or nextcalls != want_nextcalls:
            bad = "after the call, the same client and transport (follow-ups %s): observed %s with %d handler invocations, want %s with %d" % (",".join(follow), nxt, nextcalls, ",".join(want_next), want_nextcalls)
        if bad:
            OracleFail("size limits through generated code (%s style): not enforced / reported exactly" % style,
                       {"op": "g12", "case": case, "got": (real or "")[:400], "why": bad, "want": want_main[:200]})
    Finish()


SUITES = {"c12gen": suite_c12}
