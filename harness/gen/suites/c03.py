"""Suite c03: a call through the emitted client and the emitted processor (in-memory and HTTP transports;
binary, compact and JSON protocols; own and inherited methods; every handler outcome)."""
from genlib import *


def gen_args(r, p, m):
    return ("(", {i: gen_val(r, p, t, 1) for (i, fn, t) in m["args"]})


def args_dump(p, m, v):
    k, x = v
    return "(" + "".join("%d=%s" % (i, canon_dump(p, t, x[i])) for (i, fn, t) in sorted(m["args"], key=lambda a: a[0])) + ")"


# quick: in-memory + HTTP; thorough (VERIF_TIER=thorough): also the TCP adapter transport against FSimpleServer
# and the NATS transport against FNatsServer on an in-process nats-server
THOROUGH = os.environ.get("VERIF_TIER") == "thorough"
# the busy-server groups (job rpcb) go over EVERY transport kind of the runner in both tiers
BUSY_TRANSPORTS = ["nats", "tcp", "http", "mem"]
TRANSPORTS = ["mem", "mem", "http"] + (["tcp", "tcp", "nats", "nats"] if os.environ.get("VERIF_TIER") == "thorough" else [])


def suite_c03(r, n):
    nprogs = max(1, min(8, n // 30))
    progs = []
    while len(progs) < nprogs:
        p = gen_prog(r, len(progs), services=True)
        if p.services: progs.append(p)
    jobs, meta = [], []
    per = max(1, n // nprogs)
    for p in progs:
        defs = p.defs_code()
        keys = list(p.services)
        Stat("programs"); Stat("services", len(keys))
        for _ in range(per):
            skey = r.pick(keys)
            allm = p.all_methods(skey)
            if not allm: continue
            dkey, m = r.pick(allm)
            inherited = dkey != skey
            transport = r.pick(TRANSPORTS)
            if m["ret"] is not None and p.resolve(m["ret"]).k in "sx" and r.chance(50):
                transport = "bounded"      # an oversized reply first (bounded reply buffer, as on the NATS server), then the real call
            proto = r.pick(["binary", "compact", "json"])
            args = gen_args(r, p, m)
            kinds = ["v", "v", "e", "a"] + (["x", "x"] if m["throws"] else [])
            # C16 value dimension: a struct-returning handler answering (nil, nil) — the nil *T travels as a typed
            # nil through every middleware and the emitted processor's `ret[0].(*T)`; the client observes (nil, nil)
            if m["ret"] is not None and p.resolve(m["ret"]).k == "S": kinds += ["n", "n"]
            if m["oneway"]: kinds = ["v", "v", "e"]
            kind = r.pick(kinds)
            if kind == "n":
                outcome, want = "v", "ok ~"     # bare `v`: the runner's handler leaves the pointer result nil
                if transport == "bounded": transport = "mem"
            elif kind == "v":
                rv = gen_val(r, p, m["ret"], 1) if m["ret"] is not None else None
                outcome = "v" + (dump_val(rv) if rv is not None else "")
                want = ("ok " + canon_dump(p, m["ret"], rv)) if rv is not None else "void"
            elif kind == "x":
                (eid, en, et) = r.pick(m["throws"])
                ev = gen_struct(r, p, (et.file, et.name), 1)
                outcome = "x%d=%s" % (eid, dump_val(ev))
                want = "exc %d %s" % (eid, canon_dump(p, et, ev))
            elif kind == "e":
                outcome, want = "e", "app 6"
            else:
                ty = r.pick([0, 3, 6, 7, 10])
                outcome, want = "a%d" % ty, "app %d" % ty
            if m["oneway"]: want = "void"
            mkey = "%s/%s_%s" % (dkey[0], dkey[1], m["name"])
            k1, k2, k3 = r.pick([0, 0, 1, 2, 3]), r.pick([0, 0, 1, 2]), r.pick([0, 0, 1, 2, 3])
            payload = "%s,%s|%s|%s|mw=%d,%d,%d" % (transport, proto, dump_val(args), outcome, k1, k2, k3)
            jobs.append(("rpc", "p%d" % p.pid, "%s/%s" % skey, mkey, payload))
            line = "g3 %s %s %d %s %s" % (defs, mkey, 1 if m["oneway"] else 0, dump_val(args), outcome)
            expect = "calls=1 args=%s cid=ok result=%s" % (args_dump(p, m, args), want)
            # C16 through the emitted wiring: observing middleware at the client constructor, the provider and the
            # processor constructor; the model ops of C16 (Driver.Middleware `mww client`, `mwp`) give the traces
            specs = lambda k: ",".join(["o"] * k) if k else "."
            cbase = "k" if (kind in "vn" or m["oneway"]) else "f"
            pbase = "k" if kind in "vn" else "f"
            mwlines = ("mww client %s %s %s a" % (specs(k1), specs(k2), cbase), "mwp m %s . %s a" % (specs(k3), pbase))
            def trace(n, e, res):
                evs = ["e%d:a" % i for i in range(n - 1, -1, -1)] + ["b:a"] + ["x%d:%s/%s" % (i, res, e) for i in range(n)]
                return ";".join(evs) + " R=" + res + "/" + e
            mwexpect = (trace(k1 + k2, "-" if cbase == "k" else "B", "a|"), trace(k3, "-" if pbase == "k" else "B", "a|m0"))
            meta.append((p, line, expect, "%s:%s:%s:%s%s%s" % (transport, proto, kind, "oneway" if m["oneway"] else "twoway", ":inherited" if inherited else "", ":void" if m["ret"] is None else ""), mwlines, mwexpect, (k1, k2, k3), (m["name"], "%s/%s" % skey, len(m["args"])), m["oneway"]))
    # C14 through the emitted processor: unknown method name / unreadable arguments (oracle only)
    rawmeta = []
    for p in progs:
        for skey in list(p.services)[:2]:
            for (dkey, m) in p.all_methods(skey)[:3]:
                for kind in ("unknown", "badargs", "intact"):
                    mkey = "%s/%s_%s" % (dkey[0], dkey[1], m["name"])
                    jobs.append(("raw", "p%d" % p.pid, "%s/%s" % skey, mkey, "%s|%s" % (kind, dump_val(gen_args(r, p, m)))))
                    rawmeta.append((kind, m["oneway"], mkey))
    # concurrent use of ONE generated client / transport / processor: N calls of one method with pairwise different
    # argument tuples from G goroutines; every call is an ordinary g3 case (the model is per call — calls do not
    # interact), the handler recognises the call by the arguments it received
    concmeta = []
    for p in progs:
        cands = [(skey, dkey, m) for skey in p.services for (dkey, m) in p.all_methods(skey) if m["args"]]
        for _ in range(max(1, per // 40)):
            if not cands: break
            skey, dkey, m = r.pick(cands)
            transport = r.pick([t for t in TRANSPORTS if t != "bounded"] + ["http"])
            proto = r.pick(["binary", "compact", "json"])
            ncalls, g = 6 + r.intn(18), 2 + r.intn(7)
            calls, seen = [], set()
            for _ in range(ncalls * 3):
                if len(calls) >= ncalls: break
                args = gen_args(r, p, m)
                key = args_dump(p, m, args)
                if key in seen: continue
                seen.add(key)
                kinds = ["v", "v", "v", "e", "a"] + (["x", "x"] if m["throws"] else [])
                if m["oneway"]: kinds = ["v"]
                kind = r.pick(kinds)
                if kind == "v":
                    rv = gen_val(r, p, m["ret"], 1) if m["ret"] is not None else None
                    outcome = "v" + (dump_val(rv) if rv is not None else "")
                    want = ("ok " + canon_dump(p, m["ret"], rv)) if rv is not None else "void"
                elif kind == "x":
                    (eid, en, et) = r.pick(m["throws"])
                    ev = gen_struct(r, p, (et.file, et.name), 1)
                    outcome = "x%d=%s" % (eid, dump_val(ev))
                    want = "exc %d %s" % (eid, canon_dump(p, et, ev))
                elif kind == "e":
                    outcome, want = "e", "app 6"
                else:
                    ty = r.pick([0, 3, 6, 7, 10])
                    outcome, want = "a%d" % ty, "app %d" % ty
                if m["oneway"]: want = "void"
                calls.append((args, outcome, want))
            if len(calls) < 2: continue
            mkey = "%s/%s_%s" % (dkey[0], dkey[1], m["name"])
            payload = "%s,%s|%d|%s" % (transport, proto, g, "|".join("%s|%s" % (dump_val(a), o) for (a, o, w) in calls))
            jobs.append(("rpcc", "p%d" % p.pid, "%s/%s" % skey, mkey, payload))
            defs = p.defs_code()
            concmeta.append((p, "%s:%s:conc%s" % (transport, proto, ":oneway" if m["oneway"] else ""), g,
                             [("g3 %s %s %d %s %s" % (defs, mkey, 1 if m["oneway"] else 0, dump_val(a), o),
                               "calls=1 args=%s cid=ok result=%s" % (args_dump(p, m, a), w)) for (a, o, w) in calls]))
    # the TIME dimension (job rpcb): per-call FContext timeouts against a BUSY server. A blocker call whose handler
    # sleeps is issued first; while it runs a burst of calls of the service's methods (oneway and two-way mixed),
    # each with its own timeout (small 20-200 ms / FContext default / large) and handler delay, is issued at once.
    # FNatsServer runs with ONE worker and FSimpleServer serves a connection request by request: the burst queues
    # behind the blocker and small-timeout requests wait at the server for longer than their own timeout.
    busymeta = []
    bcands = []
    for p in progs:
        for skey in p.services:
            allm = p.all_methods(skey)
            if allm: bcands.append((0 if any(m["oneway"] for (_, m) in allm) else 1, len(bcands), p, skey, allm))
    bcands.sort(key=lambda c: (c[0], c[1]))
    nbusy = max(4, min(len(progs), 8)) if not THOROUGH else max(8, n // 900)
    for gi in range(nbusy):
        if not bcands: break
        _, _, p, skey, allm = bcands[gi % len(bcands)]
        transport = BUSY_TRANSPORTS[gi % len(BUSY_TRANSPORTS)] if gi < 2 * len(BUSY_TRANSPORTS) else r.pick(BUSY_TRANSPORTS)
        serial = transport in ("nats", "tcp")
        proto = r.pick(["binary", "compact", "json"])
        ows = [x for x in allm if x[1]["oneway"]]
        tws = [x for x in allm if not x[1]["oneway"]]
        block_ms = r.pick([120, 150, 200]) if not THOROUGH else r.pick([120, 200, 300, 450])
        calls, seen = [], set()
        def add_call(dkey, m, stage, tmo, delay):
            for _ in range(4):
                args = gen_args(r, p, m)
                key = (m["name"], args_dump(p, m, args))
                if key not in seen: break
            else: return False
            seen.add(key)
            kinds = ["v", "v", "v", "e", "a"] + (["x", "x"] if m["throws"] else [])
            if m["oneway"]: kinds = ["v"]
            kind = r.pick(kinds)
            if kind == "v":
                rv = gen_val(r, p, m["ret"], 1) if m["ret"] is not None else None
                outcome = "v" + (dump_val(rv) if rv is not None else "")
                want = ("ok " + canon_dump(p, m["ret"], rv)) if rv is not None else "void"
            elif kind == "x":
                (eid, en, et) = r.pick(m["throws"])
                ev = gen_struct(r, p, (et.file, et.name), 1)
                outcome = "x%d=%s" % (eid, dump_val(ev))
                want = "exc %d %s" % (eid, canon_dump(p, et, ev))
            elif kind == "e":
                outcome, want = "e", "app 6"
            else:
                ty = r.pick([0, 3, 6, 7, 10])
                outcome, want = "a%d" % ty, "app %d" % ty
            if m["oneway"]: want = "void"
            calls.append({"dkey": dkey, "m": m, "stage": stage, "tmo": tmo, "delay": delay, "args": args, "outcome": outcome, "want": want})
            return True
        bd, bm = r.pick(tws or allm)
        add_call(bd, bm, 0, r.pick([0, 10000]), block_ms)
        nburst = 4 + r.intn(5) if not THOROUGH else 4 + r.intn(9)
        for _ in range(nburst * 2):
            if len(calls) > nburst: break
            dkey, m = r.pick(ows) if (ows and r.chance(40)) else r.pick(tws or allm)
            tclass = r.pick(["small", "small", "small", "default", "large"])
            tmo = {"small": r.pick([20, 40, 60, 100, 200]), "default": 0, "large": 10000}[tclass]
            delay = r.pick([0, 0, 0, 0, 10, 30]) if serial else r.pick([0, 0, 30, 80, 150])
            add_call(dkey, m, 1, tmo, delay)
        if len(calls) < 2: continue
        payload = "%s,%s|1|%s" % (transport, proto, "|".join("%s/%s_%s|%d|%d|%d|%s|%s" % (
            c["dkey"][0], c["dkey"][1], c["m"]["name"], c["tmo"], c["delay"], c["stage"], dump_val(c["args"]), c["outcome"]) for c in calls))
        jobs.append(("rpcb", "p%d" % p.pid, "%s/%s" % skey, "-", payload))
        defs = p.defs_code()
        burst_delays = sum(c["delay"] for c in calls if c["stage"] == 1)
        for c in calls:
            eff = c["tmo"] or 5000
            if c["stage"] == 0: lo = hi = c["delay"]
            else:
                lo = (block_ms if serial else 0) + c["delay"]
                hi = lo + ((burst_delays - c["delay"]) if serial else 0)
            # which outcome the TIMES decide (for the correspondence case only; the oracle below does not use it):
            # far inside the timeout / far beyond it on a transport that honours the timeout / open
            if c["m"]["oneway"] or eff >= 2000: decided, wait = "in-time", hi
            elif transport != "mem" and 2 * eff <= lo and lo - eff >= 60: decided, wait = "late", lo
            else: decided, wait = "open", hi
            mkey = "%s/%s_%s" % (c["dkey"][0], c["dkey"][1], c["m"]["name"])
            c["line"] = "g3q %s %s %d %s %s %d %d" % (defs, mkey, 1 if c["m"]["oneway"] else 0, dump_val(c["args"]), c["outcome"], wait, eff)
            c["decided"] = decided
            c["expect"] = "calls=1 args=%s cid=ok result=%s" % (args_dump(p, c["m"], c["args"]), c["want"])
        busymeta.append((p, "%s:%s:busy" % (transport, proto), block_ms, calls))
    res, err = build_and_run(progs, jobs)
    if res is None:
        OracleFail("valid IDL with services was not compiled to Go that builds", {"op": "build", "detail": err[:3000]})
        Stat("evaluations"); Finish(); return
    if err: OracleFail("the runner crashed while executing generated code", {"op": "run", "detail": err[:2000]})
    for (kind, oneway, mkey), real in zip(rawmeta, (res or [])[len(meta):]):
        Stat("raw:" + kind); Stat("evaluations")
        if kind == "unknown": want = "calls=0 reply=EXCEPTION:1 opid=same"            # UNKNOWN_METHOD, handler not invoked
        elif kind == "badargs": want = "calls=0 reply=EXCEPTION:7 opid=same"          # PROTOCOL_ERROR (also for oneway: the emitted code answers)
        else: want = "calls=1 reply=none opid=none err=ok" if oneway else "calls=1 reply=REPLY opid=same"
        if real != want:
            OracleFail("the emitted processor did not answer a request exactly once with the appropriate well-formed reply",
                       {"op": "g14", "case": "%s:%s:%s" % (kind, "oneway" if oneway else "twoway", mkey), "got": str(real)[:300], "want": want})
    for (p, tag, g, calls), real in zip(concmeta, (res or [])[len(meta) + len(rawmeta):]):
        segs = (real or "no-result").split(" ;; ")
        Stat("conc:groups"); Stat("conc:goroutines", g); Stat("conc:calls", len(calls))
        extra = [x for x in segs if x.startswith("FOREIGN=")]
        segs = [x for x in segs if not x.startswith("FOREIGN=")]
        if len(segs) != len(calls):
            segs = [real or "no-result"] * len(calls)
        bad = None
        for (line, expect), seg in zip(calls, segs):
            Case(line, seg)
            Stat("evaluations")
            if seg != expect and bad is None: bad = (line, seg, expect)
        for t in tag.split(":"): Stat("dim:" + t)
        if bad or extra:
            line, seg, expect = bad or (calls[0][0], extra[0], "no handler invocation with arguments of no issued call")
            OracleFail("concurrent calls through one generated client and transport: a call is not faithful (its handler did not run exactly once with its arguments, or its caller observed another outcome)",
                       {"op": "g3c", "case": "%s g=%d n=%d" % (tag, g, len(calls)), "line": line, "got": (seg + " " + " ".join(extra))[:1500], "want": expect[:1500],
                        "idl": "\n".join(p.text(f) for f in p.files)[:4000]})
    for (p, tag, block_ms, calls), real in zip(busymeta, (res or [])[len(meta) + len(rawmeta) + len(concmeta):]):
        segs = (real or "no-result").split(" ;; ")
        extra = [x for x in segs if x.startswith("FOREIGN=")]
        segs = [x for x in segs if not x.startswith("FOREIGN=")]
        if len(segs) != len(calls): segs = [real or "no-result"] * len(calls)
        Stat("busy:groups"); Stat("busy:calls", len(calls)); Stat("busy:block-ms", block_ms)
        for t in tag.split(":"): Stat("dim:" + t)
        bad = None
        for c, seg in zip(calls, segs):
            ow = c["m"]["oneway"]
            tclass = "default" if c["tmo"] == 0 else ("small" if c["tmo"] <= 200 else "large")
            Stat("evaluations"); Stat("busy:%s:timeout-%s" % ("oneway" if ow else "twoway", tclass)); Stat("busy:decided-" + c["decided"])
            mm = re.match(r"calls=(\d+) args=(.*) cid=(\S+) result=(.*)$", seg, re.S)
            why = None
            if not mm: why = "no outcome reported"
            else:
                ncalls, sargs, cid, result = int(mm.group(1)), mm.group(2), mm.group(3), mm.group(4)
                if ncalls > 1: why = "the handler ran %d times for one call" % ncalls
                elif result == c["want"]:
                    # the caller was told SUCCESS (oneway: nil error; two-way: the declared outcome): handled exactly
                    # once with equal arguments, eventually — whatever its timeout and however long it waited
                    Stat("busy:outcome-success")
                    if seg != c["expect"]: why = "the call succeeded for its caller but its handler ran %d times%s" % (ncalls, "" if ncalls == 0 else " (arguments or correlation id differ)")
                elif result == "err:timeout" and tclass == "small":
                    # the caller stopped waiting: the handler may have run or not (never twice: above), with this call's arguments
                    Stat("busy:outcome-timeout"); Stat("busy:timed-out-handled-%d" % ncalls)
                    if ncalls == 1 and (sargs != args_dump(p, c["m"], c["args"]) or cid != "ok"): why = "a timed-out call was handled with other arguments / correlation id"
                else: why = "the caller observed neither the handler's outcome nor (with a small timeout) TIMED_OUT"
            # correspondence with FV.Rpc.callQ where the times decide the outcome; a oneway whose SEND timed out
            # (caller told so) and the open two-way cases are judged by the oracle alone
            if c["decided"] == "in-time" and not (ow and mm and mm.group(4) == "err:timeout" and tclass == "small"): Case(c["line"], seg)
            elif c["decided"] == "late":
                # planned to wait at least twice its timeout. The plan is in nominal times: when the scheduler made it
                # come back in time after all (a loaded machine) there is no line to compare — the oracle has judged it
                if mm and mm.group(4) == "err:timeout": Case(c["line"], seg)
                else: Stat("busy:planned-late-came-in-time")
            if why and bad is None: bad = (c, seg, why)
        if extra and bad is None: bad = (calls[0], extra[0], "the handler was invoked with a method and arguments of no issued call")
        if bad:
            c, seg, why = bad
            OracleFail("calls with their own timeouts against a busy server: " + why + " (a call that succeeded for its caller is handled exactly once with equal arguments; a timed-out one at most once; nothing nobody sent)",
                       {"op": "g3q", "case": "%s block=%dms n=%d %s timeout=%dms delay=%dms stage=%d" % (tag, block_ms, len(calls), "oneway" if c["m"]["oneway"] else "twoway", c["tmo"] or 5000, c["delay"], c["stage"]),
                        "line": c["line"], "got": (seg + " " + " ".join(extra))[:1500], "want": c["expect"][:1500] + (" | or err:timeout with calls<=1" if 0 < c["tmo"] <= 200 else ""),
                        "group": [("%s %s timeout=%d delay=%d -> %s" % ("oneway" if x["m"]["oneway"] else "twoway", x["m"]["name"], x["tmo"] or 5000, x["delay"], sg[:120])) for x, sg in zip(calls, segs)],
                        "idl": "\n".join(p.text(f) for f in p.files)[:4000]})
    for (p, line, expect, tag, mwlines, mwexpect, ks, hinfo, oneway_m), real in zip(meta, res):
        if real is None: real = "no-result"
        segs = real.split(" || ")
        real = segs[0]
        hseg = [x for x in segs[1:] if x.startswith("H ")]
        pseg = [x for x in segs[1:] if x.startswith("P ")]
        segs = [segs[0]] + [x for x in segs[1:] if not x.startswith("H ") and not x.startswith("P ")]
        if pseg:
            Stat("bounded-precall")
            if pseg[0] != "P pre=responseTooLarge":
                OracleFail("a reply larger than the server-side limit did not reach the caller as RESPONSE_TOO_LARGE", {"op": "g12", "case": tag, "line": line, "got": pseg[0]})
        if hseg:
            # C09 through generated code: the handler sees exactly the caller's user headers; every response header the
            # handler sets is on the caller's context when a reply was read (not for oneway)
            meth, skey_s, nargs = hinfo
            nh = nargs % 4
            want_h = "{" + "".join("u%d-%s=v%d é %s;" % (i, meth, i, skey_s) for i in range(nh)) + "}"
            want_r = "{}" if oneway_m else "{" + "".join("r-u%d-%s=v%d é %s;" % (i, meth, i, skey_s) for i in range(nh)) + "}"
            got = hseg[0]
            if got != "H hdr=%s rsp=%s" % (want_h, want_r):
                OracleFail("the request context did not travel with the generated call and back (user request headers at the handler / response headers at the caller)",
                           {"op": "g9", "case": tag, "line": line, "got": got[:600], "want": "H hdr=%s rsp=%s" % (want_h, want_r)})
            Stat("hdrs:%d" % nh)
        if len(segs) == 3:
            ctrace, ptrace = segs[1], segs[2]
            Case(mwlines[0], "ok " + ctrace)
            Case(mwlines[1], "ok m=" + ptrace.replace(" ", "~") + " zz=unknown")
            Stat("mw:%d+%d/%d" % ks)
            if ctrace != mwexpect[0] or ptrace != mwexpect[1]:
                OracleFail("middleware did not intercept the generated call exactly once in the declared order (later-listed wraps earlier, provider wraps constructor)",
                           {"op": "g16", "case": tag, "line": mwlines[0], "got": "client: %s | processor: %s" % (ctrace, ptrace), "want": "client: %s | processor: %s" % mwexpect, "mw": "ctor=%d provider=%d processor=%d" % ks})
        Case(line, real)
        for t in tag.split(":"): Stat("dim:" + t)
        Stat("evaluations")
        Sample({"line": line[-400:], "real": real[:300], "case": tag})
        if real != expect:
            OracleFail("a call through generated client and server is not faithful (handler invocations / arguments / observed outcome)",
                       {"op": "g3", "case": tag, "line": line, "got": real[:1500], "want": expect[:1500], "idl": "\n".join(p.text(f) for f in p.files)[:4000]})
    Finish()


SUITES = {"c03": suite_c03}
