"""Suite c07: the EMITTED scope publisher and subscriber over an in-memory broker (runner/pubsub.go).

One case = one subscription of one operation of a random scope (prefix literals and variables) followed by
3..8 actions: valid publishes (same variable values / other values — the topic decides, also when two different
value lists render to the same topic), publishes of another operation of the scope, raw malformed messages and
wrong-operation envelopes injected on the topic, Unsubscribe followed by more publishes; binary / compact / JSON.
ORACLE (written here from the property, independent of the Lean model): the handler is invoked exactly for the
valid publishes whose topic equals the subscription's, before Unsubscribe, in order, with an equal payload
(canonical dump) and request headers = {_cid, _timeout} + user headers + _topic_<var> = value."""
from genlib import *

TIMEOUT_DEFAULT = "5000"


def hx(b): return b.hex() if b else "-"


def be32(n): return struct.pack(">I", n)


def marshal_headers(h):
    body = b"".join(be32(len(k)) + k + be32(len(v)) + v for k, v in h.items())
    return b"\x00" + be32(len(body)) + body


def frame(b): return be32(len(b)) + b


def gen_raw(r):
    c = r.intn(7)
    if c < 2: return bytes(r.intn(256) for _ in range(r.intn(4)))                 # shorter than the frame size
    if c == 2: return bytes(r.intn(256) for _ in range(4 + r.intn(24)))
    if c == 3: return frame(marshal_headers({b"_cid": b"c", b"k": b"v"}))        # no _opid
    if c == 4: return frame(marshal_headers({b"_opid": b"7", b"_cid": b"c"}))    # headers only, no envelope
    if c == 5: return frame(b"\x01" + marshal_headers({b"_opid": b"7"})[1:])     # unsupported version
    return frame(marshal_headers({b"_opid": b"9"}) + bytes(r.intn(256) for _ in range(1 + r.intn(12))))


VAR_VALUES = [b"a", b"b", b"a.b", b"", b"x1", "é".encode(), b"b.a"]
HDR_NAMES = ["h1", "X-Trace", "k", "user"]


def render_topic(prefix, vals, scope, op):
    out, i = b"", 0
    for k, x in prefix:
        if k == "var":
            out += vals[i] + b"."; i += 1
        else:
            out += x.encode() + b"."
    return out + scope.encode() + b"." + op.encode()


def suite_c07(r, n):
    nprogs = max(1, min(8, n // 15))
    progs = []
    tries = 0
    while len(progs) < nprogs and tries < 200:
        tries += 1
        p = gen_prog(r, len(progs), scopes=True)
        if p.scopes: progs.append(p)
    jobs, meta = [], []
    per = max(1, n // max(1, len(progs)))
    for p in progs:
        defs = p.defs_code()
        keys = list(p.scopes)
        Stat("programs"); Stat("scopes", len(keys))
        for _ in range(per):
            skey = r.pick(keys)
            sc = p.scopes[skey]
            prefix, ops = sc["prefix"], sc["ops"]
            names = [x for (k, x) in prefix if k == "var"]
            (op, oty) = r.pick(ops)
            others = [(o, t) for (o, t) in ops if o != op]
            (oop, ooty) = r.pick(others) if others else (None, None)
            okey, ookey = (oty.file, oty.name), ((ooty.file, ooty.name) if ooty else None)
            proto = r.pick(["binary", "compact", "json"])
            def vals(): return [r.pick(VAR_VALUES) for _ in names]
            def varg(vs): return "+".join(hx(v) for v in vs) if vs else "."
            sub_vals = vals()
            sub_topic = render_topic(prefix, sub_vals, skey[1], op)
            acts = ["S!" + varg(sub_vals)]
            expect_acts = ["sub:" + sub_topic.hex()]
            expect_calls = []
            subscribed, seq = True, 0
            def ctx_fields():
                nonlocal seq
                seq += 1
                cid = ("cid%d" % seq).encode()
                hdrs = {}
                for _ in range(r.intn(3)):
                    hdrs[r.pick(HDR_NAMES).encode()] = gen_bytes(r, True)
                if names and r.chance(10): hdrs[b"_topic_" + r.pick(names).encode()] = b"spoof"
                ps = ";".join("%s:%s" % (k.hex(), hdrs[k].hex()) for k in sorted(hdrs)) if hdrs else "-"
                return cid, hdrs, ps
            for _ in range(3 + r.intn(6)):
                c = r.intn(100)
                if c < 40 or (c < 55 and not names):        # valid publish, the subscription's variable values
                    vs = sub_vals if (r.chance(75) or not names) else vals()
                    v = gen_struct(r, p, okey)
                    cid, hdrs, ps = ctx_fields()
                    acts.append("P!%s!%s!%s!%s" % (varg(vs), cid.hex(), ps, dump_val(v)))
                    on = subscribed and render_topic(prefix, vs, skey[1], op) == sub_topic
                    expect_acts.append("cb:ok" if on else "nosub")
                    if on:
                        h = {b"_cid": cid, b"_timeout": TIMEOUT_DEFAULT.encode()}
                        h.update(hdrs)
                        for nm, val in zip(names, vs): h[b"_topic_" + nm.encode()] = val
                        expect_calls.append(canon_dump(p, oty, v) + "@" + ";".join("%s:%s" % (k.hex(), h[k].hex()) for k in sorted(h)))
                    Stat("act:P:" + ("delivered" if on else ("after-unsub" if not subscribed else "other-topic")))
                elif c < 55:                                  # other variable values
                    vs = vals()
                    v = gen_struct(r, p, okey)
                    cid, hdrs, ps = ctx_fields()
                    acts.append("P!%s!%s!%s!%s" % (varg(vs), cid.hex(), ps, dump_val(v)))
                    on = subscribed and render_topic(prefix, vs, skey[1], op) == sub_topic
                    expect_acts.append("cb:ok" if on else "nosub")
                    if on:
                        h = {b"_cid": cid, b"_timeout": TIMEOUT_DEFAULT.encode()}
                        h.update(hdrs)
                        for nm, val in zip(names, vs): h[b"_topic_" + nm.encode()] = val
                        expect_calls.append(canon_dump(p, oty, v) + "@" + ";".join("%s:%s" % (k.hex(), h[k].hex()) for k in sorted(h)))
                    Stat("act:P:" + ("same-topic-other-values" if (on and vs != sub_vals) else ("delivered" if on else "other-topic")))
                elif c < 67 and oop:                          # another operation of the scope
                    v = gen_struct(r, p, ookey)
                    cid, hdrs, ps = ctx_fields()
                    acts.append("Q!%s!%s!%s!%s" % (varg(sub_vals), cid.hex(), ps, dump_val(v)))
                    expect_acts.append("nosub")
                    Stat("act:Q")
                elif c < 80:                                  # raw malformed message on the topic
                    raw = gen_raw(r)
                    acts.append("M!" + (raw.hex() if raw else ""))
                    expect_acts.append("nosub" if not subscribed else ("nocb" if len(raw) < 4 else "cb:err"))
                    Stat("act:M:" + ("short" if len(raw) < 4 else "long"))
                elif c < 90:                                  # wrong operation name in the envelope
                    name = r.pick([oop or "Nope", "Nope", op.lower(), op + "x", ""])
                    if name == op: name = "Nope"
                    v = gen_struct(r, p, okey)
                    cid, hdrs, ps = ctx_fields()
                    acts.append("E!%s!%s!%s!%s" % (hx(name.encode()), cid.hex(), ps, dump_val(v)))
                    expect_acts.append("cb:err" if subscribed else "nosub")
                    Stat("act:E")
                elif subscribed:
                    acts.append("U"); expect_acts.append("unsub"); subscribed = False
                    Stat("act:U")
            toks = ",".join(("v:" + x.encode().hex()) if k == "var" else ("l:" + x.encode().hex()) for (k, x) in prefix) if prefix else "."
            payload = "%s|%s|%s|%s|%s" % (proto, op, oop or "-", ("%s/%s" % ookey) if ookey else "-", "/".join(acts))
            jobs.append(("ps7", "p%d" % p.pid, "%s/%s" % skey, "%s/%s" % okey, payload))
            line = "g7 %s %s/%s %s %s %s %s %s %s %s" % (defs, okey[0], okey[1], ("%s/%s" % ookey) if ookey else "-", skey[1], op, oop or "-", toks, proto, "/".join(acts))
            expect = "n=%d acts=%s calls=%s" % (len(expect_calls), ",".join(expect_acts), "/".join(expect_calls) if expect_calls else "-")
            meta.append((p, line, expect, proto, len(names)))
    if not jobs:
        Stat("evaluations", 0); Finish(); return
    res, err = build_and_run(progs, jobs)
    if res is None:
        OracleFail("valid IDL with scopes was not compiled to Go that builds (C07 needs the generated publisher/subscriber)", {"op": "build", "detail": err[:3000]})
        Stat("evaluations"); Finish(); return
    if err: OracleFail("the runner crashed while executing generated pub/sub code", {"op": "run", "detail": err[:2000]})
    for (p, line, expect, proto, nvars), real in zip(meta, res):
        if real is None: real = "no-result"
        Case(line, real)
        Stat("evaluations"); Stat("protocol:" + proto); Stat("prefix-variables:%d" % nvars)
        Sample({"line": line[-500:], "real": real[:400]})
        if real != expect:
            OracleFail("generated publisher/subscriber: handler invocations differ from the valid on-topic publishes (payload / headers / topic / isolation)",
                       {"op": "g7", "line": line, "got": real[:2000], "want": expect[:2000], "idl": "\n".join(p.text(f) for f in p.files)[:4000]})
    Finish()


SUITES = {"c07": suite_c07}
