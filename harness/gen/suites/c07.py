"""Suite c07: the EMITTED scope publisher and subscriber over an in-memory broker (runner/pubsub.go).

One case = 1..4 subscriptions made from ONE emitted subscriber object / ONE FScopeProvider (the same operation with
the same variable values = the same topic, with other values, another operation of the scope), each with its own
handler, and 3..9 actions: valid publishes (same variable values / other values — the topic decides, also when two different
value lists render to the same topic), publishes of another operation of the scope, raw malformed messages and
wrong-operation envelopes injected on the topic, Unsubscribe followed by more publishes; binary / compact / JSON.
ORACLE (written here from the property, independent of the Lean model), per subscription: its handler is invoked
exactly for the valid publishes whose topic equals the subscription's (never for another subscription's topic), before Unsubscribe, in order, with an equal payload
(canonical dump) and request headers = {_cid, _timeout} + user headers + _topic_<var> = value."""
from genlib import *

TIMEOUT_DEFAULT = "5000"


def hx(b): return b.hex() if b else "-"


def be32(n): return struct.pack(">I", n)


def marshal_headers(h):
    body = b"".join(be32(len(k)) + k + be32(len(v)) + v for k, v in h.items())
    return b"\x00" + be32(len(body)) + body


def frame(b): return be32(len(b)) + b


def gen_raw(r):
    c = r.intn(7)
    if c < 2: return bytes(r.intn(256) for _ in range(r.intn(4)))                 # shorter than the frame size
    if c == 2: return bytes(r.intn(256) for _ in range(4 + r.intn(24)))
    if c == 3: return frame(marshal_headers({b"_cid": b"c", b"k": b"v"}))        # no _opid
    if c == 4: return frame(marshal_headers({b"_opid": b"7", b"_cid": b"c"}))    # headers only, no envelope
    if c == 5: return frame(b"\x01" + marshal_headers({b"_opid": b"7"})[1:])     # unsupported version
    return frame(marshal_headers({b"_opid": b"9"}) + bytes(r.intn(256) for _ in range(1 + r.intn(12))))


VAR_VALUES = [b"a", b"b", b"a.b", b"", b"x1", "é".encode(), b"b.a"]
HDR_NAMES = ["h1", "X-Trace", "k", "user"]


def render_topic(prefix, vals, scope, op):
    out, i = b"", 0
    for k, x in prefix:
        if k == "var":
            out += vals[i] + b"."; i += 1
        else:
            out += x.encode() + b"."
    return out + scope.encode() + b"." + op.encode()


class _Mirror:
    """the action list as the runner gets it: identical to `acts` except for subscriptions made through Subscribe<op>Errorable"""
    def __init__(self, acts): self.acts, self.over = acts, {}
    def append(self, a): self.over[len(self.acts) - 1] = a      # replaces the action just appended to acts
    def render(self): return [self.over.get(i, a) for i, a in enumerate(self.acts)]


def suite_c07(r, n):
    nprogs = max(1, min(8, n // 15))
    progs = []
    tries = 0
    while len(progs) < nprogs and tries < 200:
        tries += 1
        p = gen_prog(r, len(progs), scopes=True)
        if p.scopes: progs.append(p)
    jobs, meta = [], []
    per = max(1, n // max(1, len(progs)))
    for p in progs:
        defs = p.defs_code()
        keys = list(p.scopes)
        Stat("programs"); Stat("scopes", len(keys))
        for _ in range(per):
            skey = r.pick(keys)
            sc = p.scopes[skey]
            prefix, ops = sc["prefix"], sc["ops"]
            names = [x for (k, x) in prefix if k == "var"]
            (op, oty) = r.pick(ops)
            others = [(o, t) for (o, t) in ops if o != op]
            (oop, ooty) = r.pick(others) if others else (None, None)
            okey, ookey = (oty.file, oty.name), ((ooty.file, ooty.name) if ooty else None)
            proto = r.pick(["binary", "compact", "json"])
            def vals():
                # C08: with >= 2 variables mostly pairwise DIFFERENT values (a permuted / dropped variable between
                # the public entry point and the topic template then changes the topic)
                if len(names) >= 2 and r.chance(70):
                    pool, out = list(VAR_VALUES), []
                    for _ in names: out.append(pool.pop(r.intn(len(pool))))
                    Stat("vars:pairwise-different")
                    return out
                return [r.pick(VAR_VALUES) for _ in names]
            def varg(vs): return "+".join(hx(v) for v in vs) if vs else "."
            # subscriptions: ALL made from the one emitted subscriber object / the one FScopeProvider
            subs = []            # {"op", "ty", "vals", "topic", "on"}
            acts, expect_acts, expect_calls = [], [], []
            racts = _Mirror(acts)     # what the runner executes: acts, with the entry point chosen per subscription
            seq = 0
            def add_sub(kind, vs):
                sop, sty = (op, oty) if kind == "S" else (oop, ooty)
                t = render_topic(prefix, vs, skey[1], sop)
                subs.append({"op": sop, "ty": sty, "vals": vs, "topic": t, "on": True})
                acts.append("%s!%s" % (kind, varg(vs)))
                # the runner makes the subscription through Subscribe<op> or (30%) Subscribe<op>Errorable: both public
                # entry points must subscribe to the same topic (same expectation, same model line)
                ent = "E" if r.chance(30) else ""
                racts.append("%s%s!%s" % (kind, ent, varg(vs)))
                Stat("entry:Subscribe" + ("Errorable" if ent else ""))
                expect_acts.append("sub:" + t.hex())
                Stat("act:%s" % kind)
            sub_vals = vals()
            add_sub("S", sub_vals)
            def more_sub():
                c = r.intn(10)
                if c < 4: add_sub("S", sub_vals); Stat("multi:same-topic")
                elif c < 7 or not oop: add_sub("S", vals()); Stat("multi:other-values")
                else: add_sub("T", r.pick([sub_vals, vals()])); Stat("multi:other-operation")
            if r.chance(55):
                for _ in range(1 + r.intn(2)): more_sub()
            def ctx_fields():
                nonlocal seq
                seq += 1
                cid = ("cid%d" % seq).encode()
                hdrs = {}
                for _ in range(r.intn(3)):
                    hdrs[r.pick(HDR_NAMES).encode()] = gen_bytes(r, True)
                if names and r.chance(10): hdrs[b"_topic_" + r.pick(names).encode()] = b"spoof"
                ps = ";".join("%s:%s" % (k.hex(), hdrs[k].hex()) for k in sorted(hdrs)) if hdrs else "-"
                return cid, hdrs, ps
            def deliver(topic, fn):
                """what the broker does with a message on `topic`: fn(sub index, sub) per live subscription, in order"""
                rs = [fn(k, sb) for k, sb in enumerate(subs) if sb["on"] and sb["topic"] == topic]
                expect_acts.append("+".join(rs) if rs else "nosub")
                return len(rs)
            def publish(kind, pop, pty, pkey, vs):
                v = gen_struct(r, p, pkey)
                cid, hdrs, ps = ctx_fields()
                acts.append("%s!%s!%s!%s!%s" % (kind, varg(vs), cid.hex(), ps, dump_val(v)))
                h = {b"_cid": cid, b"_timeout": TIMEOUT_DEFAULT.encode()}
                h.update(hdrs)
                for nm, val in zip(names, vs): h[b"_topic_" + nm.encode()] = val
                hs = ";".join("%s:%s" % (k.hex(), h[k].hex()) for k in sorted(h))
                def one(k, sb):
                    expect_calls.append("%d:%s@%s" % (k, canon_dump(p, pty, v), hs))
                    return "cb:ok"
                return deliver(render_topic(prefix, vs, skey[1], pop), one)
            # LENGTH: a few cases per run with more rejected messages than any plausible capacity (2*64+k), good ones interleaved
            long_case = r.chance(3)
            if long_case: Stat("long-case")
            for step_no in range((135 + r.intn(10)) if long_case else (3 + r.intn(7))):
                c = r.intn(100)
                if long_case: c = 40 if step_no % 10 == 9 else (60 + r.intn(21))     # mostly M / E, a valid publish every 10th
                s_subs = [k for k, sb in enumerate(subs) if sb["op"] == op]
                if c < 36 or (long_case and c == 40):         # valid publish with some subscription's variable values
                    vs = r.pick([sb["vals"] for sb in subs]) if r.chance(80) else vals()
                    n_del = publish("P", op, oty, okey, vs)
                    Stat("act:P:delivered-to-%d" % min(n_del, 3))
                elif c < 48:                                  # other variable values
                    n_del = publish("P", op, oty, okey, vals())
                    Stat("act:P:delivered-to-%d" % min(n_del, 3))
                elif c < 60 and oop:                          # another operation of the scope
                    vs = r.pick([sb["vals"] for sb in subs])
                    n_del = publish("Q", oop, ooty, ookey, vs)
                    Stat("act:Q:delivered-to-%d" % min(n_del, 3))
                elif c < 72:                                  # raw malformed message on a subscription's topic
                    raw = gen_raw(r)
                    k = r.intn(len(subs))
                    acts.append("M!" + (raw.hex() if raw else "") + ("!%d" % k if (k or r.chance(30)) else ""))
                    deliver(subs[k]["topic"], lambda kk, sb: "nocb" if len(raw) < 4 else "cb:err")
                    Stat("act:M:" + ("short" if len(raw) < 4 else "long"))
                elif c < 81:                                  # wrong operation name in the envelope
                    name = r.pick([oop or "Nope", "Nope", op.lower(), op + "x", ""])
                    if name == op: name = "Nope"
                    k = r.pick(s_subs)
                    v = gen_struct(r, p, okey)
                    cid, hdrs, ps = ctx_fields()
                    acts.append("E!%s!%s!%s!%s" % (hx(name.encode()), cid.hex(), ps, dump_val(v)) + ("!%d" % k if (k or r.chance(30)) else ""))
                    deliver(subs[k]["topic"], lambda kk, sb: "cb:err")
                    Stat("act:E")
                elif c < 90:
                    k = r.intn(len(subs))
                    if subs[k]["on"]:
                        acts.append("U!%d" % k if (k or r.chance(50)) else "U"); expect_acts.append("unsub"); subs[k]["on"] = False
                        Stat("act:U")
                elif len(subs) < 4:
                    more_sub()
            Stat("subscriptions-from-one-subscriber:%d" % len(subs))
            toks = ",".join(("v:" + x.encode().hex()) if k == "var" else ("l:" + x.encode().hex()) for (k, x) in prefix) if prefix else "."
            payload = "%s|%s|%s|%s|%s" % (proto, op, oop or "-", ("%s/%s" % ookey) if ookey else "-", "/".join(racts.render()))
            jobs.append(("ps7", "p%d" % p.pid, "%s/%s" % skey, "%s/%s" % okey, payload))
            line = "g7 %s %s/%s %s %s %s %s %s %s %s" % (defs, okey[0], okey[1], ("%s/%s" % ookey) if ookey else "-", skey[1], op, oop or "-", toks, proto, "/".join(acts))
            expect = "n=%d acts=%s calls=%s" % (len(expect_calls), ",".join(expect_acts), "/".join(expect_calls) if expect_calls else "-")
            meta.append((p, line, expect, proto, len(names)))
    if not jobs:
        Stat("evaluations", 0); Finish(); return
    res, err = build_and_run(progs, jobs)
    if res is None:
        OracleFail("valid IDL with scopes was not compiled to Go that builds (C07 needs the generated publisher/subscriber)", {"op": "build", "detail": err[:3000]})
        Stat("evaluations"); Finish(); return
    if err: OracleFail("the runner crashed while executing generated pub/sub code", {"op": "run", "detail": err[:2000]})
    for (p, line, expect, proto, nvars), real in zip(meta, res):
        if real is None: real = "no-result"
        Case(line, real)
        Stat("evaluations"); Stat("protocol:" + proto); Stat("prefix-variables:%d" % nvars)
        Sample({"line": line[-500:], "real": real[:400]})
        if real != expect:
            OracleFail("generated publisher/subscriber: handler invocations differ from the valid on-topic publishes (payload / headers / topic / isolation)",
                       {"op": "g7", "line": line, "got": real[:2000], "want": expect[:2000], "idl": "\n".join(p.text(f) for f in p.files)[:4000]})
    Finish()


SUITES = {"c07": suite_c07}
