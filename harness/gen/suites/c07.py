"""Suite c07 (placeholder while the runtime part is established)."""
from genlib import *

def suite_c07(r, n):
    Finish()

SUITES = {"c07": suite_c07}
