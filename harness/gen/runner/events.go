package main

import (
	"context"
	"encoding/hex"
	"errors"
	"fmt"
	"math"
	"sort"
	"strconv"
	"strings"

	"github.com/apache/thrift/lib/go/thrift"
)

// ---------- TProtocol call events ----------

type Event struct {
	K    string // SB SE FB FE FS MB ME LB LE TB TE (set) BOOL BYTE I16 I32 I64 DBL STR BIN MSGB MSGE
	Name string
	T1   int // field type / elem type / key type
	T2   int // value type
	N    int64
	S    []byte
}

func (e Event) String() string {
	switch e.K {
	case "SB":
		return "SB(" + e.Name + ")"
	case "FB":
		return fmt.Sprintf("FB(%s,%d,%d)", e.Name, e.T1, e.N)
	case "MB":
		return fmt.Sprintf("MB(%d,%d,%d)", e.T1, e.T2, e.N)
	case "LB", "TB":
		return fmt.Sprintf("%s(%d,%d)", e.K, e.T1, e.N)
	case "BOOL", "BYTE", "I16", "I32", "I64":
		return fmt.Sprintf("%s(%d)", e.K, e.N)
	case "DBL":
		return fmt.Sprintf("DBL(%016x)", uint64(e.N))
	case "STR", "BIN":
		return e.K + "(" + hex.EncodeToString(e.S) + ")"
	case "MSGB":
		return fmt.Sprintf("MSGB(%s,%d,%d)", e.Name, e.T1, e.N)
	}
	return e.K
}

// parseEvents parses the compact token form `K:args;K:args` used in job files.
func parseEvents(s string) []Event {
	var out []Event
	if s == "" || s == "-" {
		return out
	}
	for _, tok := range strings.Split(s, ";") {
		p := strings.Split(tok, ":")
		e := Event{K: p[0]}
		atoi := func(x string) int64 { n, _ := strconv.ParseInt(x, 10, 64); return n }
		switch p[0] {
		case "SB":
			e.Name = p[1]
		case "FB":
			e.Name, e.T1, e.N = p[1], int(atoi(p[2])), atoi(p[3])
		case "MB":
			e.T1, e.T2, e.N = int(atoi(p[1])), int(atoi(p[2])), atoi(p[3])
		case "LB", "TB":
			e.T1, e.N = int(atoi(p[1])), atoi(p[2])
		case "BOOL", "BYTE", "I16", "I32", "I64":
			e.N = atoi(p[1])
		case "DBL":
			u, _ := strconv.ParseUint(p[1], 16, 64)
			e.N = int64(u)
		case "STR", "BIN":
			e.S, _ = hex.DecodeString(p[1])
		}
		out = append(out, e)
	}
	return out
}

// ---------- recording protocol (Write side) ----------

type recorder struct {
	ev []Event
}

func (r *recorder) add(e Event) error { r.ev = append(r.ev, e); return nil }

func (r *recorder) WriteMessageBegin(ctx context.Context, name string, t thrift.TMessageType, seq int32) error {
	return r.add(Event{K: "MSGB", Name: name, T1: int(t), N: int64(seq)})
}
func (r *recorder) WriteMessageEnd(ctx context.Context) error { return r.add(Event{K: "MSGE"}) }
func (r *recorder) WriteStructBegin(ctx context.Context, name string) error {
	return r.add(Event{K: "SB", Name: name})
}
func (r *recorder) WriteStructEnd(ctx context.Context) error { return r.add(Event{K: "SE"}) }
func (r *recorder) WriteFieldBegin(ctx context.Context, name string, t thrift.TType, id int16) error {
	return r.add(Event{K: "FB", Name: name, T1: int(t), N: int64(id)})
}
func (r *recorder) WriteFieldEnd(ctx context.Context) error  { return r.add(Event{K: "FE"}) }
func (r *recorder) WriteFieldStop(ctx context.Context) error { return r.add(Event{K: "FS"}) }
func (r *recorder) WriteMapBegin(ctx context.Context, k, v thrift.TType, size int) error {
	return r.add(Event{K: "MB", T1: int(k), T2: int(v), N: int64(size)})
}
func (r *recorder) WriteMapEnd(ctx context.Context) error { return r.add(Event{K: "ME"}) }
func (r *recorder) WriteListBegin(ctx context.Context, e thrift.TType, size int) error {
	return r.add(Event{K: "LB", T1: int(e), N: int64(size)})
}
func (r *recorder) WriteListEnd(ctx context.Context) error { return r.add(Event{K: "LE"}) }
func (r *recorder) WriteSetBegin(ctx context.Context, e thrift.TType, size int) error {
	return r.add(Event{K: "TB", T1: int(e), N: int64(size)})
}
func (r *recorder) WriteSetEnd(ctx context.Context) error { return r.add(Event{K: "TE"}) }
func (r *recorder) WriteBool(ctx context.Context, v bool) error {
	n := int64(0)
	if v {
		n = 1
	}
	return r.add(Event{K: "BOOL", N: n})
}
func (r *recorder) WriteByte(ctx context.Context, v int8) error {
	return r.add(Event{K: "BYTE", N: int64(v)})
}
func (r *recorder) WriteI16(ctx context.Context, v int16) error {
	return r.add(Event{K: "I16", N: int64(v)})
}
func (r *recorder) WriteI32(ctx context.Context, v int32) error {
	return r.add(Event{K: "I32", N: int64(v)})
}
func (r *recorder) WriteI64(ctx context.Context, v int64) error { return r.add(Event{K: "I64", N: v}) }
func (r *recorder) WriteDouble(ctx context.Context, v float64) error {
	return r.add(Event{K: "DBL", N: int64(math.Float64bits(v))})
}
func (r *recorder) WriteString(ctx context.Context, v string) error {
	return r.add(Event{K: "STR", S: []byte(v)})
}
func (r *recorder) WriteBinary(ctx context.Context, v []byte) error {
	return r.add(Event{K: "BIN", S: append([]byte{}, v...)})
}
func (r *recorder) WriteUUID(ctx context.Context, v thrift.Tuuid) error {
	return r.add(Event{K: "UUID"})
}
func (r *recorder) Flush(ctx context.Context) error { return nil }
func (r *recorder) Transport() thrift.TTransport    { return nil }

var errNotReader = errors.New("recorder: not a reader")

func (r *recorder) ReadMessageBegin(ctx context.Context) (string, thrift.TMessageType, int32, error) {
	return "", 0, 0, errNotReader
}
func (r *recorder) ReadMessageEnd(ctx context.Context) error            { return errNotReader }
func (r *recorder) ReadStructBegin(ctx context.Context) (string, error) { return "", errNotReader }
func (r *recorder) ReadStructEnd(ctx context.Context) error             { return errNotReader }
func (r *recorder) ReadFieldBegin(ctx context.Context) (string, thrift.TType, int16, error) {
	return "", 0, 0, errNotReader
}
func (r *recorder) ReadFieldEnd(ctx context.Context) error { return errNotReader }
func (r *recorder) ReadMapBegin(ctx context.Context) (thrift.TType, thrift.TType, int, error) {
	return 0, 0, 0, errNotReader
}
func (r *recorder) ReadMapEnd(ctx context.Context) error { return errNotReader }
func (r *recorder) ReadListBegin(ctx context.Context) (thrift.TType, int, error) {
	return 0, 0, errNotReader
}
func (r *recorder) ReadListEnd(ctx context.Context) error { return errNotReader }
func (r *recorder) ReadSetBegin(ctx context.Context) (thrift.TType, int, error) {
	return 0, 0, errNotReader
}
func (r *recorder) ReadSetEnd(ctx context.Context) error            { return errNotReader }
func (r *recorder) ReadBool(ctx context.Context) (bool, error)      { return false, errNotReader }
func (r *recorder) ReadByte(ctx context.Context) (int8, error)      { return 0, errNotReader }
func (r *recorder) ReadI16(ctx context.Context) (int16, error)      { return 0, errNotReader }
func (r *recorder) ReadI32(ctx context.Context) (int32, error)      { return 0, errNotReader }
func (r *recorder) ReadI64(ctx context.Context) (int64, error)      { return 0, errNotReader }
func (r *recorder) ReadDouble(ctx context.Context) (float64, error) { return 0, errNotReader }
func (r *recorder) ReadString(ctx context.Context) (string, error)  { return "", errNotReader }
func (r *recorder) ReadBinary(ctx context.Context) ([]byte, error)  { return nil, errNotReader }
func (r *recorder) ReadUUID(ctx context.Context) (thrift.Tuuid, error) {
	return thrift.Tuuid{}, errNotReader
}
func (r *recorder) Skip(ctx context.Context, t thrift.TType) error { return errNotReader }

// ---------- replaying protocol (Read side): serves Read* calls from an event list ----------

type replayer struct {
	recorder // Write* of a replayer are never used
	in       []Event
	pos      int
}

var errEOS = thrift.NewTProtocolExceptionWithType(thrift.INVALID_DATA, errors.New("replayer: event stream exhausted or wrong event kind"))

func (r *replayer) next(kinds ...string) (Event, error) {
	if r.pos >= len(r.in) {
		return Event{}, errEOS
	}
	e := r.in[r.pos]
	for _, k := range kinds {
		if e.K == k {
			r.pos++
			return e, nil
		}
	}
	return Event{}, errEOS
}

func (r *replayer) ReadMessageBegin(ctx context.Context) (string, thrift.TMessageType, int32, error) {
	e, err := r.next("MSGB")
	return e.Name, thrift.TMessageType(e.T1), int32(e.N), err
}
func (r *replayer) ReadMessageEnd(ctx context.Context) error { _, err := r.next("MSGE"); return err }
func (r *replayer) ReadStructBegin(ctx context.Context) (string, error) {
	e, err := r.next("SB")
	return e.Name, err
}
func (r *replayer) ReadStructEnd(ctx context.Context) error { _, err := r.next("SE"); return err }
func (r *replayer) ReadFieldBegin(ctx context.Context) (string, thrift.TType, int16, error) {
	e, err := r.next("FB", "FS")
	if err != nil {
		return "", 0, 0, err
	}
	if e.K == "FS" {
		return "", thrift.STOP, 0, nil
	}
	return e.Name, thrift.TType(e.T1), int16(e.N), nil
}
func (r *replayer) ReadFieldEnd(ctx context.Context) error { _, err := r.next("FE"); return err }
func (r *replayer) ReadMapBegin(ctx context.Context) (thrift.TType, thrift.TType, int, error) {
	e, err := r.next("MB")
	return thrift.TType(e.T1), thrift.TType(e.T2), int(e.N), err
}
func (r *replayer) ReadMapEnd(ctx context.Context) error { _, err := r.next("ME"); return err }
func (r *replayer) ReadListBegin(ctx context.Context) (thrift.TType, int, error) {
	e, err := r.next("LB")
	return thrift.TType(e.T1), int(e.N), err
}
func (r *replayer) ReadListEnd(ctx context.Context) error { _, err := r.next("LE"); return err }
func (r *replayer) ReadSetBegin(ctx context.Context) (thrift.TType, int, error) {
	e, err := r.next("TB")
	return thrift.TType(e.T1), int(e.N), err
}
func (r *replayer) ReadSetEnd(ctx context.Context) error { _, err := r.next("TE"); return err }
func (r *replayer) ReadBool(ctx context.Context) (bool, error) {
	e, err := r.next("BOOL")
	return e.N != 0, err
}
func (r *replayer) ReadByte(ctx context.Context) (int8, error) {
	e, err := r.next("BYTE")
	return int8(e.N), err
}
func (r *replayer) ReadI16(ctx context.Context) (int16, error) {
	e, err := r.next("I16")
	return int16(e.N), err
}
func (r *replayer) ReadI32(ctx context.Context) (int32, error) {
	e, err := r.next("I32")
	return int32(e.N), err
}
func (r *replayer) ReadI64(ctx context.Context) (int64, error) {
	e, err := r.next("I64")
	return e.N, err
}
func (r *replayer) ReadDouble(ctx context.Context) (float64, error) {
	e, err := r.next("DBL")
	return math.Float64frombits(uint64(e.N)), err
}
func (r *replayer) ReadString(ctx context.Context) (string, error) {
	e, err := r.next("STR", "BIN")
	return string(e.S), err
}
func (r *replayer) ReadBinary(ctx context.Context) ([]byte, error) {
	e, err := r.next("STR", "BIN")
	return e.S, err
}
func (r *replayer) Skip(ctx context.Context, t thrift.TType) error {
	return thrift.SkipDefaultDepth(ctx, r, t)
}

// ---------- schema-less canonical tree of an event stream ----------

// canonEvents renders a well-formed event stream as a canonical tree string: struct fields sorted
// by id, set elements and map entries sorted by their rendering. STR and BIN are both wire type 11.
func canonEvents(ev []Event) string {
	pos := 0
	var val func(tt int) (string, bool)
	var strct func() (string, bool)
	strct = func() (string, bool) {
		if pos >= len(ev) || ev[pos].K != "SB" {
			return "", false
		}
		name := ev[pos].Name
		pos++
		var fields []string
		type fld struct {
			id int64
			s  string
		}
		var fl []fld
		for {
			if pos >= len(ev) {
				return "", false
			}
			if ev[pos].K == "FS" {
				pos++
				break
			}
			if ev[pos].K != "FB" {
				return "", false
			}
			fb := ev[pos]
			pos++
			v, ok := val(fb.T1)
			if !ok || pos >= len(ev) || ev[pos].K != "FE" {
				return "", false
			}
			pos++
			fl = append(fl, fld{fb.N, fmt.Sprintf("%d:%s:%d=%s", fb.N, fb.Name, fb.T1, v)})
		}
		if pos >= len(ev) || ev[pos].K != "SE" {
			return "", false
		}
		pos++
		sort.SliceStable(fl, func(i, j int) bool { return fl[i].id < fl[j].id })
		for _, f := range fl {
			fields = append(fields, f.s)
		}
		return "R(" + name + "){" + strings.Join(fields, ";") + "}", true
	}
	val = func(tt int) (string, bool) {
		if pos >= len(ev) {
			return "", false
		}
		e := ev[pos]
		want := map[int]string{2: "BOOL", 3: "BYTE", 6: "I16", 8: "I32", 10: "I64", 4: "DBL"}
		if k, ok := want[tt]; ok {
			if e.K != k {
				return "", false
			}
			pos++
			if k == "DBL" {
				return fmt.Sprintf("D%016x", uint64(e.N)), true
			}
			return map[string]string{"BOOL": "B", "BYTE": "Y", "I16": "H", "I32": "I", "I64": "L"}[k] + strconv.FormatInt(e.N, 10), true
		}
		switch tt {
		case 11:
			if e.K != "STR" && e.K != "BIN" {
				return "", false
			}
			pos++
			return "S" + hex.EncodeToString(e.S), true
		case 12:
			return strct()
		case 15, 14:
			k, end := "LB", "LE"
			if tt == 14 {
				k, end = "TB", "TE"
			}
			if e.K != k {
				return "", false
			}
			pos++
			var items []string
			for i := int64(0); i < e.N; i++ {
				v, ok := val(e.T1)
				if !ok {
					return "", false
				}
				items = append(items, v)
			}
			if pos >= len(ev) || ev[pos].K != end {
				return "", false
			}
			pos++
			if tt == 14 {
				sort.Strings(items)
				return fmt.Sprintf("ST(%d){%s}", e.T1, strings.Join(items, ",")), true
			}
			return fmt.Sprintf("LS(%d)[%s]", e.T1, strings.Join(items, ",")), true
		case 13:
			if e.K != "MB" {
				return "", false
			}
			pos++
			var items []string
			for i := int64(0); i < e.N; i++ {
				k, ok := val(e.T1)
				if !ok {
					return "", false
				}
				v, ok := val(e.T2)
				if !ok {
					return "", false
				}
				items = append(items, k+"="+v)
			}
			if pos >= len(ev) || ev[pos].K != "ME" {
				return "", false
			}
			pos++
			sort.Strings(items)
			return fmt.Sprintf("MP(%d,%d){%s}", e.T1, e.T2, strings.Join(items, ",")), true
		}
		return "", false
	}
	s, ok := strct()
	if !ok || pos != len(ev) {
		parts := make([]string, len(ev))
		for i, e := range ev {
			parts[i] = e.String()
		}
		return "malformed:" + strings.Join(parts, ",")
	}
	return s
}
