package main

import (
	frugal "github.com/Workiva/frugal/lib/go"
)

// VerifCallFn is the single callback every generated handler stub forwards to.
type VerifCallFn = func(service, method string, fctx frugal.FContext, args []interface{}, ret interface{}) error

type svcEntry struct {
	NewClient    func(p *frugal.FServiceProvider, mw ...frugal.ServiceMiddleware) interface{}
	NewProcessor func(call VerifCallFn, mw ...frugal.ServiceMiddleware) frugal.FProcessor
}

type scopeEntry struct {
	NewPublisher  func(p *frugal.FScopeProvider, mw ...frugal.ServiceMiddleware) interface{}
	NewSubscriber func(p *frugal.FScopeProvider, mw ...frugal.ServiceMiddleware) interface{}
}
