package main

// Byte-level ops (C02, suite c02bytes): the EMITTED Write/Read code through the REAL Apache Thrift
// binary and compact protocols over a thrift.TMemoryBuffer, default configuration.
//
//	wbb / wbc   payload = value   emitted Write -> real binary / compact protocol -> bytes;
//	                              then emitted Read of exactly those bytes through the real protocol
//	                              output: ok <hex> back=<value dump | read-err:class>
//	rbb / rbc   payload = hex     bytes (produced by the Lean model of the protocol) -> real protocol ->
//	                              emitted Read; output: ok <value dump> rest=<unread bytes>

import (
	"encoding/hex"
	"fmt"
	"reflect"

	"github.com/apache/thrift/lib/go/thrift"
)

func bytesProto(compact bool) thrift.TProtocolFactory {
	if compact {
		return thrift.NewTCompactProtocolFactoryConf(nil)
	}
	return thrift.NewTBinaryProtocolFactoryConf(nil)
}

func init() {
	writeOp := func(compact bool) func(d *Defs, goType, sname, payload string) string {
		return func(d *Defs, goType, sname, payload string) string {
			ctor, ok := ctors[goType]
			if !ok {
				return "no-such-type:" + goType
			}
			st := &Ty{K: 'S', Name: sname}
			obj := ctor()
			pos := 0
			assign(d, reflect.ValueOf(obj).Elem(), st, parseVal(payload, &pos))
			buf := thrift.NewTMemoryBuffer()
			prot := bytesProto(compact).GetProtocol(buf)
			if err := obj.Write(ctx, prot); err != nil {
				return errClass(err)
			}
			if err := prot.Flush(ctx); err != nil {
				return "flush-" + errClass(err)
			}
			wire := append([]byte{}, buf.Bytes()...)
			back := ctor()
			rbuf := thrift.NewTMemoryBuffer()
			rbuf.Write(wire)
			res := ""
			if err := back.Read(ctx, bytesProto(compact).GetProtocol(rbuf)); err != nil {
				res = "read-" + errClass(err)
			} else {
				res = dump(d, reflect.ValueOf(back), st)
			}
			return "ok " + hex.EncodeToString(wire) + " back=" + res
		}
	}
	readOp := func(compact bool) func(d *Defs, goType, sname, payload string) string {
		return func(d *Defs, goType, sname, payload string) string {
			ctor, ok := ctors[goType]
			if !ok {
				return "no-such-type:" + goType
			}
			st := &Ty{K: 'S', Name: sname}
			wire, err := hex.DecodeString(payload)
			if err != nil {
				return "bad-hex"
			}
			obj := ctor()
			buf := thrift.NewTMemoryBuffer()
			buf.Write(wire)
			if err := obj.Read(ctx, bytesProto(compact).GetProtocol(buf)); err != nil {
				return errClass(err)
			}
			return fmt.Sprintf("ok %s rest=%d", dump(d, reflect.ValueOf(obj), st), buf.Len())
		}
	}
	jobOps["wbb"] = writeOp(false)
	jobOps["wbc"] = writeOp(true)
	jobOps["rbb"] = readOp(false)
	jobOps["rbc"] = readOp(true)
}
