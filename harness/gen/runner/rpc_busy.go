package main

// C03, the TIME dimension: calls with their own FContext timeouts against a BUSY server.
//
// One generated client over one transport against one generated processor. The calls of stage 0 ("blockers":
// their handler sleeps) are issued first; once the first blocker's handler has been entered, the calls of stage 1
// (the "burst": methods of the service mixed, oneway and two-way, each with its OWN FContext timeout — small,
// default, large — and its own handler delay) are issued at the same time, one goroutine each. On the serial
// servers (FNatsServer with ONE worker, FSimpleServer: one connection is served request by request) the burst
// queues behind the blocker, so that some requests wait at the server for longer than their own timeout; on the
// parallel ones (mem, HTTP) a call is late through its own handler delay.
//
// The handler recognises a call by the method it was invoked as and the arguments it RECEIVED. After all callers
// returned, the runner waits (bounded) until the server has worked off everything that was sent, then reports per
// call what the handler saw and what the caller observed.
//
// job:  rpcb <prog> <service> -  "<transport>,<proto>|<natsWorkers>|" then per call six fields
//                                "<methodKey>|<timeoutMs or 0 = FContext default>|<handlerDelayMs>|<stage>|<args>|<outcome>"
// out:  one segment per call, joined by " ;; ":  calls=<n> args=<dump> cid=ok|<cid> result=<…|err:timeout>
//       (exactly the rendering of `rpc`/`rpcc`, a TIMED_OUT transport exception is `err:timeout`), and
//       " ;; FOREIGN=<k>" when the handler was invoked k times with (method, arguments) of no issued call.

import (
	"errors"
	"fmt"
	"net/http"
	"net/http/httptest"
	"reflect"
	"strconv"
	"strings"
	"sync"
	"sync/atomic"
	"time"

	frugal "github.com/Workiva/frugal/lib/go"
	"github.com/apache/thrift/lib/go/thrift"
	"github.com/nats-io/nats.go"
)

// serveOver puts `proc` behind a server of the given kind and returns a client transport for it (not yet
// opened) and the function that shuts the server side down. NATS uses the runner's one in-process broker.
func serveOver(kind string, proc frugal.FProcessor, pf *frugal.FProtocolFactory, natsWorkers uint) (frugal.FTransport, func(), string) {
	switch kind {
	case "http":
		srv := httptest.NewServer(http.HandlerFunc(frugal.NewFrugalHandlerFunc(proc, pf)))
		return frugal.NewFHTTPTransportBuilder(&http.Client{}, srv.URL).Build(), srv.Close, ""
	case "tcp":
		st, err := thrift.NewTServerSocket("127.0.0.1:0")
		if err != nil {
			return nil, nil, "listen-failed"
		}
		if err := st.Listen(); err != nil {
			return nil, nil, "listen-failed"
		}
		srv := frugal.NewFSimpleServer(proc, st, pf)
		go srv.Serve()
		sock := thrift.NewTSocketConf(st.Addr().String(), &thrift.TConfiguration{ConnectTimeout: 2 * time.Second})
		return frugal.NewAdapterTransport(sock), func() { srv.Stop() }, ""
	case "nats":
		url, err := natsBroker()
		if err != nil {
			return nil, nil, "no-broker"
		}
		sconn, err := nats.Connect(url)
		if err != nil {
			return nil, nil, "no-conn"
		}
		cconn, err := nats.Connect(url)
		if err != nil {
			sconn.Close()
			return nil, nil, "no-conn"
		}
		subject := fmt.Sprintf("verif.c03b.%d", atomic.AddUint64(&natsSeq, 1))
		nsrv := frugal.NewFNatsServerBuilder(sconn, proc, pf, []string{subject}).WithWorkerCount(natsWorkers).Build()
		served := make(chan error, 1)
		go func() { served <- nsrv.Serve() }()
		time.Sleep(5 * time.Millisecond)
		sconn.Flush()
		stop := func() {
			nsrv.Stop()
			select {
			case <-served:
			case <-time.After(3 * time.Second):
			}
			cconn.Close()
			sconn.Close()
		}
		return frugal.NewFNatsTransport(cconn, subject, ""), stop, ""
	}
	return &memTransport{proc: proc, pf: pf}, func() {}, ""
}

// renderResultT is renderResult with the one class the time dimension needs told apart: TIMED_OUT.
func renderResultT(d *Defs, resSD *StructDef, outv []reflect.Value) string {
	if errv := outv[len(outv)-1]; !errv.IsNil() {
		if te, ok := errv.Interface().(thrift.TTransportException); ok && te.TypeId() == frugal.TRANSPORT_EXCEPTION_TIMED_OUT {
			return "err:timeout"
		}
	}
	return renderResult(d, resSD, outv)
}

type busyCall struct {
	methodKey, method string
	timeoutMs         int
	delay             time.Duration
	stage             int
	argv              *VNode
	outcome           string
	argsSD, resSD     *StructDef
	in                []reflect.Value
	mv                reflect.Value
	oneway            bool
}

func runRPCBusy(d *Defs, svcKey, _ string, payload string) string {
	entry, ok := services[svcKey]
	if !ok {
		return "no-such-service:" + svcKey
	}
	parts := strings.Split(payload, "|")
	if len(parts) < 8 || (len(parts)-2)%6 != 0 {
		return "bad-payload"
	}
	tp := strings.Split(parts[0], ",")
	transportKind, protoName := tp[0], tp[1]
	workers, _ := strconv.Atoi(parts[1])
	if workers < 1 {
		workers = 1
	}
	n := (len(parts) - 2) / 6
	cs := make([]*busyCall, n)
	for i := 0; i < n; i++ {
		f := parts[2+6*i : 8+6*i]
		c := &busyCall{methodKey: f[0], outcome: f[5]}
		c.method = f[0][strings.LastIndex(f[0], "_")+1:]
		c.timeoutMs, _ = strconv.Atoi(f[1])
		dl, _ := strconv.Atoi(f[2])
		c.delay = time.Duration(dl) * time.Millisecond
		c.stage, _ = strconv.Atoi(f[3])
		pos := 0
		c.argv = parseVal(f[4], &pos)
		var ok1, ok2 bool
		c.argsSD, ok1 = d.Structs[f[0]+"_args"]
		c.resSD, ok2 = d.Structs[f[0]+"_result"]
		if !ok1 || !ok2 {
			return "no-such-method:" + f[0]
		}
		cs[i] = c
	}

	pf := protoFactory(protoName)
	var mu sync.Mutex
	index := map[string]int{} // Go method name + rendered args -> call
	invoked := make([]int, n)
	cids := make([]string, n)
	foreign := 0
	var handled int64
	entered := make(chan struct{}, n+1)
	call := func(service, m string, fctx frugal.FContext, args []interface{}, ret interface{}) error {
		defer atomic.AddInt64(&handled, 1)
		i, ok := -1, false
		mu.Lock()
		for _, c := range cs { // the args struct is found through the method the handler was invoked as
			if titleFirst(c.method) == m {
				i, ok = index[m+" "+renderArgs(d, c.argsSD, args)]
				break
			}
		}
		if ok {
			invoked[i]++
			cids[i] = fctx.CorrelationID()
		} else {
			foreign++
		}
		mu.Unlock()
		if !ok {
			return errors.New("runner: method and arguments of no issued call")
		}
		if cs[i].stage == 0 {
			entered <- struct{}{}
		}
		if cs[i].delay > 0 {
			time.Sleep(cs[i].delay)
		}
		return applyOutcome(d, cs[i].resSD, cs[i].outcome, ret)
	}
	proc := entry.NewProcessor(call)
	tr, stop, fail := serveOver(transportKind, proc, pf, uint(workers))
	if fail != "" {
		return fail
	}
	defer stop()
	if err := tr.Open(); err != nil {
		return "open-failed:" + errClass(err)
	}
	defer tr.Close()
	client := reflect.ValueOf(entry.NewClient(frugal.NewFServiceProvider(tr, pf)))
	for i, c := range cs {
		c.mv = client.MethodByName(titleFirst(c.method))
		if !c.mv.IsValid() {
			return "client-has-no-method:" + c.method
		}
		mt := c.mv.Type()
		c.oneway = len(c.resSD.Fields) == 0 && mt.NumOut() == 1
		fctx := frugal.NewFContext(fmt.Sprintf("cid-%s-%d", c.method, i))
		if c.timeoutMs > 0 {
			fctx.SetTimeout(time.Duration(c.timeoutMs) * time.Millisecond)
		}
		c.in = []reflect.Value{reflect.ValueOf(fctx)}
		raw := make([]interface{}, 0, len(c.argsSD.Fields))
		for j, f := range c.argsSD.Fields {
			pv := reflect.New(mt.In(j + 1)).Elem()
			if fv, ok := c.argv.Fields[f.ID]; ok {
				assign(d, pv, f.Ty, fv)
			}
			c.in = append(c.in, pv)
			raw = append(raw, pv.Interface())
		}
		index[titleFirst(c.method)+" "+renderArgs(d, c.argsSD, raw)] = i
	}
	if len(index) != n {
		return "calls-not-distinct"
	}

	results := make([]string, n)
	var wg sync.WaitGroup
	issue := func(stage int) {
		for i, c := range cs {
			if c.stage != stage {
				continue
			}
			wg.Add(1)
			go func(i int, c *busyCall) {
				defer wg.Done()
				results[i] = renderResultT(d, c.resSD, c.mv.Call(c.in))
			}(i, c)
		}
	}
	issue(0)
	select { // the server is busy from here on
	case <-entered:
	case <-time.After(2 * time.Second):
	}
	issue(1)
	wg.Wait()
	// every caller has returned; the server may still be working off what it was sent (oneway calls, requests
	// whose caller stopped waiting): wait until every issued call was handled — bounded
	for deadline := time.Now().Add(2500 * time.Millisecond); atomic.LoadInt64(&handled) < int64(n) && time.Now().Before(deadline); {
		time.Sleep(time.Millisecond)
	}
	time.Sleep(3 * time.Millisecond) // a second invocation of something already handled would come now

	mu.Lock()
	defer mu.Unlock()
	segs := make([]string, n)
	for i, c := range cs {
		raw := make([]interface{}, 0, len(c.in)-1)
		for _, v := range c.in[1:] {
			raw = append(raw, v.Interface())
		}
		argsDump := "-"
		if invoked[i] > 0 {
			argsDump = renderArgs(d, c.argsSD, raw)
		}
		cidOK := "cid=ok"
		if invoked[i] > 0 && cids[i] != fmt.Sprintf("cid-%s-%d", c.method, i) {
			cidOK = "cid=" + cids[i]
		}
		segs[i] = fmt.Sprintf("calls=%d args=%s %s result=%s", invoked[i], argsDump, cidOK, results[i])
	}
	out := strings.Join(segs, " ;; ")
	if foreign > 0 {
		out += fmt.Sprintf(" ;; FOREIGN=%d", foreign)
	}
	return out
}

func init() {
	jobOps["rpcb"] = runRPCBusy
}
