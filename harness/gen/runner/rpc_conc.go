package main

// C03, concurrent use of ONE generated client over ONE transport against ONE generated processor:
// N calls of one method with pairwise different argument tuples are issued from G goroutines at the same
// time. The handler finds, from the arguments it RECEIVED, which call this is and answers with that call's
// outcome; every caller checks what it observes. A call is faithful iff its handler ran exactly once with
// its arguments and its caller observed exactly its outcome — whatever the other calls in flight do
// (shared encode buffers, op-id mix-ups, replies handed to the wrong caller show up here).
//
// job:  rpcc  <prog> <service> <method>  "<transport>,<proto>|<G>|<args_1>|<outcome_1>|…|<args_N>|<outcome_N>"
// out:  one segment per call, joined by " ;; ", each rendered exactly like a single `rpc` job's first
//       segment:  calls=<n> args=<dump> cid=ok|<cid> result=<…>

import (
	"errors"
	"fmt"
	"net/http"
	"net/http/httptest"
	"reflect"
	"strconv"
	"strings"
	"sync"
	"sync/atomic"
	"time"

	frugal "github.com/Workiva/frugal/lib/go"
	"github.com/apache/thrift/lib/go/thrift"
	"github.com/nats-io/nats.go"
)

func renderArgs(d *Defs, argsSD *StructDef, args []interface{}) string {
	type fd struct {
		id int
		s  string
	}
	var fl []fd
	for i, f := range argsSD.Fields {
		if i < len(args) {
			av := reflect.ValueOf(args[i])
			if av.Kind() == reflect.Ptr && av.IsNil() {
				continue
			}
			fl = append(fl, fd{f.ID, strconv.Itoa(f.ID) + "=" + dump(d, av, f.Ty)})
		}
	}
	for i := 0; i < len(fl); i++ {
		for j := i + 1; j < len(fl); j++ {
			if fl[j].id < fl[i].id {
				fl[i], fl[j] = fl[j], fl[i]
			}
		}
	}
	var b strings.Builder
	b.WriteByte('(')
	for _, f := range fl {
		b.WriteString(f.s)
	}
	b.WriteByte(')')
	return b.String()
}

func applyOutcome(d *Defs, resSD *StructDef, outcome string, ret interface{}) error {
	switch outcome[0] {
	case 'v':
		if ret != nil && len(outcome) > 1 {
			p := 0
			var rt *Ty
			for _, f := range resSD.Fields {
				if f.ID == 0 {
					rt = f.Ty
				}
			}
			assign(d, reflect.ValueOf(ret).Elem(), rt, parseVal(outcome[1:], &p))
		}
		return nil
	case 'x':
		eq := strings.IndexByte(outcome, '=')
		id, _ := strconv.Atoi(outcome[1:eq])
		for _, f := range resSD.Fields {
			if f.ID == id {
				et := d.resolve(f.Ty)
				ctor, ok := ctors[et.Name]
				if !ok {
					return errors.New("runner: no ctor for " + et.Name)
				}
				obj := ctor()
				p := 0
				assign(d, reflect.ValueOf(obj).Elem(), et, parseVal(outcome[eq+1:], &p))
				return obj.(error)
			}
		}
		return errors.New("runner: no such exception id")
	case 'a':
		ty, _ := strconv.Atoi(outcome[1:])
		return thrift.NewTApplicationException(int32(ty), "application failure")
	}
	return errors.New("undeclared failure")
}

func renderResult(d *Defs, resSD *StructDef, outv []reflect.Value) string {
	errv := outv[len(outv)-1]
	if errv.IsNil() {
		if len(outv) == 2 {
			var rt *Ty
			for _, f := range resSD.Fields {
				if f.ID == 0 {
					rt = f.Ty
				}
			}
			rv := outv[0]
			if rv.Kind() == reflect.Ptr && rv.IsNil() {
				return "ok ~"
			}
			return "ok " + dump(d, rv, rt)
		}
		return "void"
	}
	err := errv.Interface().(error)
	for _, f := range resSD.Fields {
		if f.ID == 0 {
			continue
		}
		et := d.resolve(f.Ty)
		if ctor, ok := ctors[et.Name]; ok && reflect.TypeOf(err) == reflect.TypeOf(ctor()) {
			return fmt.Sprintf("exc %d %s", f.ID, dump(d, reflect.ValueOf(err), et))
		}
	}
	if ae, ok := err.(thrift.TApplicationException); ok {
		return fmt.Sprintf("app %d", ae.TypeId())
	}
	return errClass(err)
}

func runRPCConc(d *Defs, svcKey, methodKey, payload string) string {
	entry, ok := services[svcKey]
	if !ok {
		return "no-such-service:" + svcKey
	}
	parts := strings.Split(payload, "|")
	if len(parts) < 4 || len(parts)%2 != 0 {
		return "bad-payload"
	}
	tp := strings.Split(parts[0], ",")
	transportKind, protoName := tp[0], tp[1]
	g, _ := strconv.Atoi(parts[1])
	argsSD, ok1 := d.Structs[methodKey+"_args"]
	resSD, ok2 := d.Structs[methodKey+"_result"]
	if !ok1 || !ok2 {
		return "no-such-method:" + methodKey
	}
	method := methodKey[strings.LastIndex(methodKey, "_")+1:]
	n := (len(parts) - 2) / 2
	argvs := make([]*VNode, n)
	outcomes := make([]string, n)
	for i := 0; i < n; i++ {
		pos := 0
		argvs[i] = parseVal(parts[2+2*i], &pos)
		outcomes[i] = parts[3+2*i]
	}

	pf := protoFactory(protoName)
	// the handler identifies the call from the arguments it received
	var mu sync.Mutex
	index := map[string]int{} // rendered args -> call
	invoked := make([]int, n)
	cids := make([]string, n)
	foreign := 0
	var handled int64
	call := func(service, m string, fctx frugal.FContext, args []interface{}, ret interface{}) error {
		defer atomic.AddInt64(&handled, 1)
		key := renderArgs(d, argsSD, args)
		mu.Lock()
		i, ok := index[key]
		if ok {
			invoked[i]++
			cids[i] = fctx.CorrelationID()
		} else {
			foreign++
		}
		mu.Unlock()
		if !ok {
			return errors.New("runner: arguments of no issued call")
		}
		return applyOutcome(d, resSD, outcomes[i], ret)
	}
	proc := entry.NewProcessor(call)
	var tr frugal.FTransport
	switch transportKind {
	case "http":
		srv := httptest.NewServer(http.HandlerFunc(frugal.NewFrugalHandlerFunc(proc, pf)))
		defer srv.Close()
		tr = frugal.NewFHTTPTransportBuilder(&http.Client{}, srv.URL).Build()
	case "tcp":
		st, err := thrift.NewTServerSocket("127.0.0.1:0")
		if err != nil {
			return "listen-failed"
		}
		if err := st.Listen(); err != nil {
			return "listen-failed"
		}
		srv := frugal.NewFSimpleServer(proc, st, pf)
		go srv.Serve()
		defer srv.Stop()
		sock := thrift.NewTSocketConf(st.Addr().String(), &thrift.TConfiguration{ConnectTimeout: 2 * time.Second})
		tr = frugal.NewAdapterTransport(sock)
	case "nats":
		url, err := natsBroker()
		if err != nil {
			return "no-broker"
		}
		sconn, err := nats.Connect(url)
		if err != nil {
			return "no-conn"
		}
		defer sconn.Close()
		cconn, err := nats.Connect(url)
		if err != nil {
			return "no-conn"
		}
		defer cconn.Close()
		subject := fmt.Sprintf("verif.c03c.%d", atomic.AddUint64(&natsSeq, 1))
		nsrv := frugal.NewFNatsServerBuilder(sconn, proc, pf, []string{subject}).WithWorkerCount(4).Build()
		served := make(chan error, 1)
		go func() { served <- nsrv.Serve() }()
		time.Sleep(5 * time.Millisecond)
		sconn.Flush()
		defer func() {
			nsrv.Stop()
			select {
			case <-served:
			case <-time.After(3 * time.Second):
			}
		}()
		tr = frugal.NewFNatsTransport(cconn, subject, "")
	default:
		tr = &memTransport{proc: proc, pf: pf}
	}
	if err := tr.Open(); err != nil {
		return "open-failed:" + errClass(err)
	}
	defer tr.Close()
	client := reflect.ValueOf(entry.NewClient(frugal.NewFServiceProvider(tr, pf)))
	mv := client.MethodByName(titleFirst(method))
	if !mv.IsValid() {
		return "client-has-no-method:" + method
	}
	mt := mv.Type()
	ins := make([][]reflect.Value, n)
	for i := 0; i < n; i++ {
		fctx := frugal.NewFContext(fmt.Sprintf("cid-%s-%d", method, i))
		fctx.SetTimeout(5 * time.Second)
		in := []reflect.Value{reflect.ValueOf(fctx)}
		raw := make([]interface{}, 0, len(argsSD.Fields))
		for j, f := range argsSD.Fields {
			pv := reflect.New(mt.In(j + 1)).Elem()
			if fv, ok := argvs[i].Fields[f.ID]; ok {
				assign(d, pv, f.Ty, fv)
			}
			in = append(in, pv)
			raw = append(raw, pv.Interface())
		}
		ins[i] = in
		index[renderArgs(d, argsSD, raw)] = i
	}
	if len(index) != n {
		return "args-not-distinct"
	}
	results := make([]string, n)
	var wg sync.WaitGroup
	next := int64(-1)
	start := make(chan struct{})
	for w := 0; w < g; w++ {
		wg.Add(1)
		go func() {
			defer wg.Done()
			<-start
			for {
				i := int(atomic.AddInt64(&next, 1))
				if i >= n {
					return
				}
				results[i] = renderResult(d, resSD, mv.Call(ins[i]))
			}
		}()
	}
	close(start)
	wg.Wait()
	// oneway calls return before their handler ran: wait for the handlers (bounded)
	if len(resSD.Fields) == 0 && mt.NumOut() == 1 {
		for deadline := time.Now().Add(3 * time.Second); atomic.LoadInt64(&handled) < int64(n) && time.Now().Before(deadline); {
			time.Sleep(time.Millisecond)
		}
	}
	mu.Lock()
	defer mu.Unlock()
	segs := make([]string, n)
	for i := 0; i < n; i++ {
		raw := make([]interface{}, 0, len(ins[i])-1)
		for _, v := range ins[i][1:] {
			raw = append(raw, v.Interface())
		}
		argsDump := "-"
		if invoked[i] > 0 {
			argsDump = renderArgs(d, argsSD, raw)
		}
		cidOK := "cid=ok"
		if invoked[i] > 0 && cids[i] != fmt.Sprintf("cid-%s-%d", method, i) {
			cidOK = "cid=" + cids[i]
		}
		segs[i] = fmt.Sprintf("calls=%d args=%s %s result=%s", invoked[i], argsDump, cidOK, results[i])
	}
	out := strings.Join(segs, " ;; ")
	if foreign > 0 {
		out += fmt.Sprintf(" ;; FOREIGN=%d", foreign)
	}
	return out
}

func init() {
	jobOps["rpcc"] = runRPCConc
}
