package main

import (
	"errors"
	"fmt"
	"net/http"
	"net/http/httptest"
	"reflect"
	"strconv"
	"strings"
	"sync"
	"sync/atomic"
	"time"
	"unicode"

	frugal "github.com/Workiva/frugal/lib/go"
	"github.com/apache/thrift/lib/go/thrift"
	natsd "github.com/nats-io/nats-server/v2/server"
	"github.com/nats-io/nats.go"
)

// ---------- C03: a call through the emitted client and the emitted processor ----------
//
// job "rpc": goType = service key of the client ("file/Svc"), sname = "<defining service key>_<method>"
// (prefix of the synthetic <…>_args / <…>_result structs), payload =
//   <transport>,<protocol>|<args struct value>|<handler outcome>
// handler outcome: v<value> (returned value; `v` alone for void/oneway, and for a struct-returning method
//                  = the nil pointer result) | x<id>=<exception value> |
//                  e (plain error) | a<type> (TApplicationException of that type)
// output: calls=<n> args=<dump> result=<ok <dump> | void | exc <id> <dump> | app <type> | err:<class>>

// memTransport hands the request frame to the processor in-process (the server side of
// FSimpleServer/NATS/HTTP without the wire): one input buffer per request, one output buffer.
type memTransport struct {
	proc  frugal.FProcessor
	pf    *frugal.FProtocolFactory
	limit uint // > 0: the reply buffer is bounded like fNatsServer.processFrame's (1 MiB there)
}

func (m *memTransport) SetMonitor(frugal.FTransportMonitor) {}
func (m *memTransport) Closed() <-chan error                { return make(chan error) }
func (m *memTransport) Open() error                         { return nil }
func (m *memTransport) IsOpen() bool                        { return true }
func (m *memTransport) Close() error                        { return nil }
func (m *memTransport) GetRequestSizeLimit() uint           { return 0 }
func (m *memTransport) process(payload []byte) ([]byte, error) {
	in := thrift.NewTMemoryBuffer()
	in.Write(payload[4:])
	out := frugal.NewTMemoryOutputBuffer(m.limit)
	if err := m.proc.Process(m.pf.GetProtocol(in), m.pf.GetProtocol(out)); err != nil {
		return nil, err
	}
	if !out.HasWriteData() {
		return nil, nil
	}
	return out.Bytes()[4:], nil
}
func (m *memTransport) Oneway(ctx frugal.FContext, payload []byte) error {
	_, err := m.process(payload)
	return err
}
func (m *memTransport) Request(ctx frugal.FContext, payload []byte) (thrift.TTransport, error) {
	reply, err := m.process(payload)
	if err != nil {
		return nil, err
	}
	buf := thrift.NewTMemoryBuffer()
	buf.Write(reply)
	return buf, nil
}

var (
	natsOnce sync.Once
	natsURL  string
	natsErr  error
	natsSeq  uint64
)

// natsBroker starts one in-process nats-server per runner process.
func natsBroker() (string, error) {
	natsOnce.Do(func() {
		s, err := natsd.NewServer(&natsd.Options{Host: "127.0.0.1", Port: -1, NoLog: true, NoSigs: true})
		if err != nil {
			natsErr = err
			return
		}
		go s.Start()
		if !s.ReadyForConnections(10 * time.Second) {
			natsErr = errors.New("in-process nats-server not ready")
			return
		}
		natsURL = s.ClientURL()
	})
	return natsURL, natsErr
}

func protoFactory(name string) *frugal.FProtocolFactory {
	switch name {
	case "compact":
		return frugal.NewFProtocolFactory(thrift.NewTCompactProtocolFactoryConf(nil))
	case "json":
		return frugal.NewFProtocolFactory(thrift.NewTJSONProtocolFactory())
	}
	return frugal.NewFProtocolFactory(thrift.NewTBinaryProtocolFactoryConf(nil))
}

func titleFirst(s string) string {
	r := []rune(s)
	r[0] = unicode.ToUpper(r[0])
	return string(r)
}

type invocation struct {
	service, method string
	args            []interface{}
	cid             string
}

func runRPC(d *Defs, svcKey, methodKey, payload string) string {
	entry, ok := services[svcKey]
	if !ok {
		return "no-such-service:" + svcKey
	}
	parts := strings.SplitN(payload, "|", 4)
	k1, k2, k3 := 0, 0, 0
	if len(parts) == 4 && strings.HasPrefix(parts[3], "mw=") {
		ks := strings.Split(parts[3][3:], ",")
		k1, _ = strconv.Atoi(ks[0])
		k2, _ = strconv.Atoi(ks[1])
		k3, _ = strconv.Atoi(ks[2])
	}
	tp := strings.Split(parts[0], ",")
	transportKind, protoName := tp[0], tp[1]
	argsSD, ok1 := d.Structs[methodKey+"_args"]
	resSD, ok2 := d.Structs[methodKey+"_result"]
	if !ok1 || !ok2 {
		return "no-such-method:" + methodKey
	}
	method := methodKey[strings.LastIndex(methodKey, "_")+1:]
	pos := 0
	argv := parseVal(parts[1], &pos)
	outcome := parts[2]

	var mu sync.Mutex
	var calls []invocation
	bigOutcome := false
	handlerDone := make(chan struct{}, 8)
	var handlerHdrs string
	call := func(service, m string, fctx frugal.FContext, args []interface{}, ret interface{}) error {
		mu.Lock()
		calls = append(calls, invocation{service, m, args, fctx.CorrelationID()})
		handlerHdrs = userPairs(fctx.RequestHeaders())
		mu.Unlock()
		for k, v := range fctx.RequestHeaders() {
			if !strings.HasPrefix(k, "_") {
				fctx.AddResponseHeader("r-"+k, v)
			}
		}
		defer func() { handlerDone <- struct{}{} }()
		if bigOutcome && ret != nil {
			rv := reflect.ValueOf(ret).Elem()
			big := strings.Repeat("A", 16384)
			switch rv.Kind() {
			case reflect.String:
				rv.SetString(big)
			case reflect.Slice:
				rv.SetBytes([]byte(big))
			}
			return nil
		}
		switch outcome[0] {
		case 'v':
			if ret != nil && len(outcome) > 1 {
				p := 0
				var rt *Ty
				for _, f := range resSD.Fields {
					if f.ID == 0 {
						rt = f.Ty
					}
				}
				assign(d, reflect.ValueOf(ret).Elem(), rt, parseVal(outcome[1:], &p))
			}
			return nil
		case 'x':
			eq := strings.IndexByte(outcome, '=')
			id, _ := strconv.Atoi(outcome[1:eq])
			for _, f := range resSD.Fields {
				if f.ID == id {
					et := d.resolve(f.Ty)
					ctor, ok := ctors[et.Name]
					if !ok {
						return errors.New("runner: no ctor for " + et.Name)
					}
					obj := ctor()
					p := 0
					assign(d, reflect.ValueOf(obj).Elem(), et, parseVal(outcome[eq+1:], &p))
					return obj.(error)
				}
			}
			return errors.New("runner: no such exception id")
		case 'a':
			ty, _ := strconv.Atoi(outcome[1:])
			return thrift.NewTApplicationException(int32(ty), "application failure")
		}
		return errors.New("undeclared failure")
	}

	// tracing (purely observing) middleware: constructor lists are labelled from 0, the provider's list
	// continues the numbering (the labelling of FV.Mw / Driver.Middleware)
	var trMu sync.Mutex
	var clientTrace, procTrace []string
	tracer := func(label int, tr *[]string, resTxt string) frugal.ServiceMiddleware {
		return func(next frugal.InvocationHandler) frugal.InvocationHandler {
			return func(service reflect.Value, method reflect.Method, args frugal.Arguments) frugal.Results {
				trMu.Lock()
				*tr = append(*tr, fmt.Sprintf("e%d:a", label))
				trMu.Unlock()
				res := next(service, method, args)
				e := "-"
				if res.Error() != nil {
					e = "B"
				}
				// C16 value dimension: the dynamic type of the result is the declared return type of the
				// proxied function (a nil *T is still a *T), at every layer
				seen := resTxt
				if method.Type != nil && method.Type.NumOut() == 2 && len(res) == 2 {
					if decl := method.Type.Out(0); decl.Kind() != reflect.Interface && reflect.TypeOf(res[0]) != decl {
						seen += fmt.Sprintf("!type=%T,declared=%s", res[0], decl)
					}
				}
				trMu.Lock()
				*tr = append(*tr, fmt.Sprintf("x%d:%s/%s", label, seen, e))
				trMu.Unlock()
				return res
			}
		}
	}
	var provMW, procMW []frugal.ServiceMiddleware
	// C16: the constructor slice is caller-owned with spare capacity (it is reused below)
	ctorMW := make([]frugal.ServiceMiddleware, 0, k1+3)
	for i := 0; i < k1; i++ {
		ctorMW = append(ctorMW, tracer(i, &clientTrace, "a|"))
	}
	for i := 0; i < k2; i++ {
		provMW = append(provMW, tracer(k1+i, &clientTrace, "a|"))
	}
	for i := 0; i < k3; i++ {
		procMW = append(procMW, tracer(i, &procTrace, "a|m0"))
	}
	innerCall := call
	call = func(service, m string, fctx frugal.FContext, args []interface{}, ret interface{}) error {
		trMu.Lock()
		procTrace = append(procTrace, "b:a")
		trMu.Unlock()
		return innerCall(service, m, fctx, args, ret)
	}

	pf := protoFactory(protoName)
	proc := entry.NewProcessor(call, procMW...)
	var tr frugal.FTransport
	switch transportKind {
	case "http":
		srv := httptest.NewServer(http.HandlerFunc(frugal.NewFrugalHandlerFunc(proc, pf)))
		defer srv.Close()
		tr = frugal.NewFHTTPTransportBuilder(&http.Client{}, srv.URL).Build()
	case "tcp":
		// adapter transport over a loopback socket against FSimpleServer
		st, err := thrift.NewTServerSocket("127.0.0.1:0")
		if err != nil {
			return "listen-failed"
		}
		if err := st.Listen(); err != nil {
			return "listen-failed"
		}
		srv := frugal.NewFSimpleServer(proc, st, pf)
		go srv.Serve()
		defer srv.Stop()
		sock := thrift.NewTSocketConf(st.Addr().String(), &thrift.TConfiguration{ConnectTimeout: 2 * time.Second})
		tr = frugal.NewAdapterTransport(sock)
	case "nats":
		url, err := natsBroker()
		if err != nil {
			return "no-broker"
		}
		sconn, err := nats.Connect(url)
		if err != nil {
			return "no-conn"
		}
		defer sconn.Close()
		cconn, err := nats.Connect(url)
		if err != nil {
			return "no-conn"
		}
		defer cconn.Close()
		subject := fmt.Sprintf("verif.c03.%d", atomic.AddUint64(&natsSeq, 1))
		nsrv := frugal.NewFNatsServerBuilder(sconn, proc, pf, []string{subject}).WithWorkerCount(2).Build()
		served := make(chan error, 1)
		go func() { served <- nsrv.Serve() }()
		time.Sleep(5 * time.Millisecond)
		sconn.Flush()
		defer func() {
			nsrv.Stop()
			select {
			case <-served:
			case <-time.After(3 * time.Second):
			}
		}()
		tr = frugal.NewFNatsTransport(cconn, subject, "")
	case "bounded":
		tr = &memTransport{proc: proc, pf: pf, limit: 4096}
	default:
		tr = &memTransport{proc: proc, pf: pf}
	}
	tr = &baseMark{FTransport: tr, mark: func() {
		trMu.Lock()
		clientTrace = append(clientTrace, "b:a")
		trMu.Unlock()
	}}
	if err := tr.Open(); err != nil {
		return "open-failed:" + errClass(err)
	}
	defer tr.Close()
	client := reflect.ValueOf(entry.NewClient(frugal.NewFServiceProvider(tr, pf, provMW...), ctorMW...))
	// C16, when and from what the chain is composed: before the first call the caller reuses its slice for a
	// second client of another provider (provider middleware label 900), appends to it (901) and overwrites its
	// first element (902). The first client's chain is the one declared at ITS construction: none of these may
	// show up in its trace, none of its own may be missing.
	_ = entry.NewClient(frugal.NewFServiceProvider(tr, pf, tracer(900, &clientTrace, "a|")), ctorMW...)
	_ = append(ctorMW, tracer(901, &clientTrace, "a|"))
	if len(ctorMW) > 0 {
		ctorMW[0] = tracer(902, &clientTrace, "a|")
	}
	mv := client.MethodByName(titleFirst(method))
	if !mv.IsValid() {
		return "client-has-no-method:" + method
	}
	fctx := frugal.NewFContext("cid-" + method)
	fctx.SetTimeout(5 * time.Second)
	nhdr := len(argv.Fields) % 4 // 0..3 user request headers, derived from the case
	for i := 0; i < nhdr; i++ {
		fctx.AddRequestHeader(fmt.Sprintf("u%d-%s", i, method), fmt.Sprintf("v%d é %s", i, svcKey))
	}
	in := []reflect.Value{reflect.ValueOf(fctx)}
	mt := mv.Type()
	for i, f := range argsSD.Fields {
		pv := reflect.New(mt.In(i + 1)).Elem()
		if fv, ok := argv.Fields[f.ID]; ok {
			assign(d, pv, f.Ty, fv)
		}
		in = append(in, pv)
	}
	preSeg := ""
	if transportKind == "bounded" {
		// first an oversized reply (the handler returns 16 KiB for a 4 KiB reply buffer), then the real call:
		// the caller of the first must be told RESPONSE_TOO_LARGE, and the second must be served normally
		saved := outcome
		bigOutcome = true
		pre := mv.Call(in)
		bigOutcome = false
		outcome = saved
		select {
		case <-handlerDone:
		case <-time.After(2 * time.Second):
		}
		pe := pre[len(pre)-1]
		preSeg = " || P pre=ok"
		if !pe.IsNil() {
			if te, ok := pe.Interface().(thrift.TTransportException); ok && te.TypeId() == frugal.TRANSPORT_EXCEPTION_RESPONSE_TOO_LARGE {
				preSeg = " || P pre=responseTooLarge"
			} else {
				preSeg = " || P pre=" + errClass(pe.Interface().(error))
			}
		}
		mu.Lock()
		calls = nil
		mu.Unlock()
		trMu.Lock()
		clientTrace, procTrace = nil, nil
		trMu.Unlock()
	}
	outv := mv.Call(in)
	// oneway over HTTP: the handler may still be running when the client returns
	oneway := len(resSD.Fields) == 0 && mt.NumOut() == 1 && outcome == "v" && strings.HasPrefix(outcome, "v")
	_ = oneway
	select {
	case <-handlerDone:
	case <-time.After(2 * time.Second):
	}
	// the handler has returned, but the processor-side middleware unwinds after it (and, for a oneway call over
	// a real transport, after the client has already returned): wait until every entered layer has exited
	for deadline := time.Now().Add(2 * time.Second); time.Now().Before(deadline); time.Sleep(200 * time.Microsecond) {
		trMu.Lock()
		e, x := 0, 0
		for _, t := range procTrace {
			switch t[0] {
			case 'e':
				e++
			case 'x':
				x++
			}
		}
		trMu.Unlock()
		if e == x {
			break
		}
	}

	// what the handler saw
	mu.Lock()
	ncalls := len(calls)
	argsDump := "-"
	if ncalls > 0 {
		var b strings.Builder
		b.WriteByte('(')
		type fd struct {
			id int
			s  string
		}
		var fl []fd
		for i, f := range argsSD.Fields {
			if i < len(calls[0].args) {
				av := reflect.ValueOf(calls[0].args[i])
				if av.Kind() == reflect.Ptr && av.IsNil() {
					continue
				}
				fl = append(fl, fd{f.ID, strconv.Itoa(f.ID) + "=" + dump(d, av, f.Ty)})
			}
		}
		for i := 0; i < len(fl); i++ {
			for j := i + 1; j < len(fl); j++ {
				if fl[j].id < fl[i].id {
					fl[i], fl[j] = fl[j], fl[i]
				}
			}
		}
		for _, f := range fl {
			b.WriteString(f.s)
		}
		b.WriteByte(')')
		argsDump = b.String()
	}
	cidSeen := ""
	if ncalls > 0 {
		cidSeen = calls[0].cid
	}
	mu.Unlock()

	// what the caller observed
	errv := outv[len(outv)-1]
	result := ""
	if errv.IsNil() {
		if len(outv) == 2 {
			var rt *Ty
			for _, f := range resSD.Fields {
				if f.ID == 0 {
					rt = f.Ty
				}
			}
			rv := outv[0]
			if rv.Kind() == reflect.Ptr && rv.IsNil() {
				result = "ok ~"
			} else {
				result = "ok " + dump(d, rv, rt)
			}
		} else {
			result = "void"
		}
	} else {
		err := errv.Interface().(error)
		result = ""
		for _, f := range resSD.Fields {
			if f.ID == 0 {
				continue
			}
			et := d.resolve(f.Ty)
			if ctor, ok := ctors[et.Name]; ok && reflect.TypeOf(err) == reflect.TypeOf(ctor()) {
				result = fmt.Sprintf("exc %d %s", f.ID, dump(d, reflect.ValueOf(err), et))
				break
			}
		}
		if result == "" {
			if ae, ok := err.(thrift.TApplicationException); ok {
				result = fmt.Sprintf("app %d", ae.TypeId())
			} else {
				result = errClass(err)
			}
		}
	}
	cidOK := "cid=ok"
	if ncalls > 0 && cidSeen != "cid-"+method {
		cidOK = "cid=" + cidSeen
	}
	out := fmt.Sprintf("calls=%d args=%s %s result=%s", ncalls, argsDump, cidOK, result)
	out += preSeg
	mu.Lock()
	out += " || H hdr=" + handlerHdrs + " rsp=" + userPairs(fctx.ResponseHeaders())
	mu.Unlock()
	if len(parts) == 4 {
		trMu.Lock()
		ce, pe := "-", "-"
		if !errv.IsNil() {
			ce = "B"
		}
		if outcome[0] != 'v' {
			pe = "B"
		}
		render := func(t []string, resTxt, e string) string {
			if len(t) == 0 {
				return ". R=" + resTxt + "/" + e
			}
			return strings.Join(t, ";") + " R=" + resTxt + "/" + e
		}
		out += " || " + render(clientTrace, "a|", ce) + " || " + render(procTrace, "a|m0", pe)
		trMu.Unlock()
	}
	return out
}

// userPairs renders the non-reserved headers (names not starting with `_`) sorted by name.
func userPairs(h map[string]string) string {
	var ks []string
	for k := range h {
		if !strings.HasPrefix(k, "_") {
			ks = append(ks, k)
		}
	}
	for i := 0; i < len(ks); i++ {
		for j := i + 1; j < len(ks); j++ {
			if ks[j] < ks[i] {
				ks[i], ks[j] = ks[j], ks[i]
			}
		}
	}
	var b strings.Builder
	b.WriteByte('{')
	for _, k := range ks {
		b.WriteString(k + "=" + h[k] + ";")
	}
	b.WriteByte('}')
	return b.String()
}

// baseMark records when the emitted client's internal method reaches the transport (the "base" of the
// client-side middleware chain).
type baseMark struct {
	frugal.FTransport
	mark func()
}

func (b *baseMark) Oneway(ctx frugal.FContext, payload []byte) error {
	b.mark()
	return b.FTransport.Oneway(ctx, payload)
}
func (b *baseMark) Request(ctx frugal.FContext, payload []byte) (thrift.TTransport, error) {
	b.mark()
	return b.FTransport.Request(ctx, payload)
}

// ---------- C14 through the EMITTED processor: unknown method / unreadable arguments ----------
//
// job "raw": the request frame of a real call through the emitted client is captured, then either its
// method name is replaced by an unknown one or its argument struct is truncated, and the frame is handed
// to the emitted processor. Output: calls=<handler invocations> reply=<REPLY|EXCEPTION:<type>|none> opid=<same|other|none>
type captureTransport struct {
	memTransport
	last []byte
}

func (c *captureTransport) Request(ctx frugal.FContext, payload []byte) (thrift.TTransport, error) {
	c.last = append([]byte{}, payload...)
	return nil, errors.New("captured")
}
func (c *captureTransport) Oneway(ctx frugal.FContext, payload []byte) error {
	c.last = append([]byte{}, payload...)
	return nil
}

func runRaw(d *Defs, svcKey, methodKey, payload string) string {
	entry, ok := services[svcKey]
	if !ok {
		return "no-such-service:" + svcKey
	}
	parts := strings.SplitN(payload, "|", 2)
	kind := parts[0]
	argsSD, ok1 := d.Structs[methodKey+"_args"]
	if !ok1 {
		return "no-such-method:" + methodKey
	}
	method := methodKey[strings.LastIndex(methodKey, "_")+1:]
	pos := 0
	argv := parseVal(parts[1], &pos)
	ncalls := 0
	var mu sync.Mutex
	call := func(service, m string, fctx frugal.FContext, args []interface{}, ret interface{}) error {
		mu.Lock()
		ncalls++
		mu.Unlock()
		return nil
	}
	pf := protoFactory("binary")
	proc := entry.NewProcessor(call)
	cap := &captureTransport{}
	client := reflect.ValueOf(entry.NewClient(frugal.NewFServiceProvider(cap, pf)))
	mv := client.MethodByName(titleFirst(method))
	if !mv.IsValid() {
		return "client-has-no-method:" + method
	}
	fctx := frugal.NewFContext("c")
	in := []reflect.Value{reflect.ValueOf(fctx)}
	for i, f := range argsSD.Fields {
		pv := reflect.New(mv.Type().In(i + 1)).Elem()
		if fv, ok := argv.Fields[f.ID]; ok {
			assign(d, pv, f.Ty, fv)
		}
		in = append(in, pv)
	}
	mv.Call(in)
	frame := cap.last
	if len(frame) < 9 {
		return "no-frame-captured"
	}
	hsize := int(uint32(frame[5])<<24 | uint32(frame[6])<<16 | uint32(frame[7])<<8 | uint32(frame[8]))
	envAt := 9 + hsize // binary protocol message begin: version|type (4) name len (4) name seqid (4)
	if envAt+8 > len(frame) {
		return "frame-too-short"
	}
	nameLen := int(uint32(frame[envAt+4])<<24 | uint32(frame[envAt+5])<<16 | uint32(frame[envAt+6])<<8 | uint32(frame[envAt+7]))
	argsAt := envAt + 8 + nameLen + 4
	var mutated []byte
	switch kind {
	case "unknown":
		newName := []byte("zz" + method)
		mutated = append(mutated, frame[4:envAt+4]...)
		mutated = append(mutated, be32u(uint32(len(newName)))...)
		mutated = append(mutated, newName...)
		mutated = append(mutated, frame[envAt+8+nameLen:]...)
	case "badargs":
		// a field header announcing a struct that never comes
		mutated = append(mutated, frame[4:argsAt]...)
		mutated = append(mutated, 12, 0, 99)
	default:
		mutated = append(mutated, frame[4:]...)
	}
	full := append(be32u(uint32(len(mutated))), mutated...)
	mt := &memTransport{proc: proc, pf: pf}
	reply, perr := mt.process(full)
	mu.Lock()
	n := ncalls
	mu.Unlock()
	if reply == nil {
		return fmt.Sprintf("calls=%d reply=none opid=none err=%s", n, errClass(perr))
	}
	hdrs, err := headersOf(reply)
	if err != nil {
		return fmt.Sprintf("calls=%d reply=garbled", n)
	}
	reqOp, _ := fctx.RequestHeader("_opid")
	opid := "other"
	if hdrs["_opid"] == reqOp {
		opid = "same"
	}
	rbuf := thrift.NewTMemoryBuffer()
	rsize := int(uint32(reply[1])<<24 | uint32(reply[2])<<16 | uint32(reply[3])<<8 | uint32(reply[4]))
	rbuf.Write(reply[5+rsize:])
	rp := thrift.NewTBinaryProtocolConf(rbuf, nil)
	_, mtype, _, err := rp.ReadMessageBegin(ctx)
	if err != nil {
		return fmt.Sprintf("calls=%d reply=garbled-envelope opid=%s", n, opid)
	}
	kindS := "REPLY"
	if mtype == thrift.EXCEPTION {
		ae := thrift.NewTApplicationException(0, "")
		if err := ae.Read(ctx, rp); err != nil {
			return fmt.Sprintf("calls=%d reply=EXCEPTION:garbled opid=%s", n, opid)
		}
		kindS = fmt.Sprintf("EXCEPTION:%d", ae.TypeId())
	}
	return fmt.Sprintf("calls=%d reply=%s opid=%s", n, kindS, opid)
}

// headersOf decodes the v0 header block of a frame (without size prefix) by the documented layout.
func headersOf(b []byte) (map[string]string, error) {
	if len(b) < 5 || b[0] != 0 {
		return nil, errors.New("bad header block")
	}
	m := int(uint32(b[1])<<24 | uint32(b[2])<<16 | uint32(b[3])<<8 | uint32(b[4]))
	if 5+m > len(b) {
		return nil, errors.New("bad header size")
	}
	hs := b[5 : 5+m]
	out := map[string]string{}
	for len(hs) > 0 {
		var kv [2]string
		for j := 0; j < 2; j++ {
			if len(hs) < 4 {
				return nil, errors.New("truncated")
			}
			k := int(uint32(hs[0])<<24 | uint32(hs[1])<<16 | uint32(hs[2])<<8 | uint32(hs[3]))
			if 4+k > len(hs) {
				return nil, errors.New("truncated")
			}
			kv[j] = string(hs[4 : 4+k])
			hs = hs[4+k:]
		}
		out[kv[0]] = kv[1]
	}
	return out, nil
}

func be32u(n uint32) []byte { return []byte{byte(n >> 24), byte(n >> 16), byte(n >> 8), byte(n)} }

func init() {
	jobOps["rpc"] = runRPC
	jobOps["raw"] = runRaw
}
