package main

// C07 (generated part): the EMITTED publisher and subscriber of a scope over an in-memory broker.
//
// job "ps7": goType = scope key ("file/Scope"), sname = payload struct key of the operation under test,
// payload (fields separated by '|'):
//   <protocol>|<op>|<otherOp or ->|<otherOp payload struct key or ->|<actions>
// actions are separated by '/', fields of an action by '!'; variable values are '+'-joined hex ('.' = none):
//   SE!<vars> / TE!<vars>            as S / T through Subscribe<op>Errorable (C08: every public entry point binds its arguments)
//   S!<vars>                         Subscribe<op>(vars…, handler): ONE MORE subscription (index 0, 1, …) from the same
//                                    emitted subscriber object / the same FScopeProvider; T!<vars> = Subscribe<otherOp>
//   P!<vars>!<cid>!<hdrs>!<value>    Publish<op>(fctx, vars…, value)          fctx = NewFContext(cid) + user headers
//   Q!<vars>!<cid>!<hdrs>!<value>    Publish<otherOp>(…)                      another operation of the same scope
//   M!<hex>[!<k>]                    raw bytes injected on the topic of subscription k (default 0)
//   E!<name>!<cid>!<hdrs>!<value>[!<k>]  well-formed message whose envelope names <name>, injected on that topic
//   U[!<k>]                          subscription k .Unsubscribe()
// output: n=<number of calls> acts=<r,…> calls=<k:dump@headers/…>  (k = index of the subscription whose handler ran; per message one result per subscription on the topic, joined by '+')   r = nosub | nocb | cb:ok | cb:err | unsub | sub:<topic hex> | err:<class>
// (headers = the handler context's request headers without `_opid`, sorted pairs in hex)

import (
	"bytes"
	"encoding/hex"
	"fmt"
	"reflect"
	"sort"
	"strconv"
	"strings"
	"sync"

	frugal "github.com/Workiva/frugal/lib/go"
	"github.com/apache/thrift/lib/go/thrift"
)

// memBroker: topic -> subscriptions. Delivery is synchronous, in publish order, one callback per
// message and subscription; the subscriber transport side mimics the real transports' worker
// (messages shorter than the 4-byte frame size are discarded before the callback).
type memBroker struct {
	mu   sync.Mutex
	subs map[string][]*memSubTransport
	last []string // how the last published message went, one entry per subscription reached
}

func (b *memBroker) publish(topic string, data []byte) {
	b.mu.Lock()
	subs := append([]*memSubTransport{}, b.subs[topic]...)
	b.mu.Unlock()
	b.last = nil
	if len(subs) == 0 {
		b.last = []string{"nosub"}
		return
	}
	for _, s := range subs {
		if len(data) < 4 {
			b.last = append(b.last, "nocb")
			continue
		}
		buf := &thrift.TMemoryBuffer{Buffer: bytes.NewBuffer(data[4:])}
		if err := s.cb(buf); err != nil {
			b.last = append(b.last, "cb:err")
		} else {
			b.last = append(b.last, "cb:ok")
		}
	}
}

type memPubFactory struct{ b *memBroker }

func (f memPubFactory) GetTransport() frugal.FPublisherTransport { return &memPubTransport{b: f.b} }

type memPubTransport struct {
	b    *memBroker
	open bool
}

func (t *memPubTransport) Open() error               { t.open = true; return nil }
func (t *memPubTransport) Close() error              { t.open = false; return nil }
func (t *memPubTransport) IsOpen() bool              { return t.open }
func (t *memPubTransport) GetPublishSizeLimit() uint { return 0 }
func (t *memPubTransport) Publish(topic string, data []byte) error {
	t.b.publish(topic, append([]byte{}, data...))
	return nil
}

type memSubFactory struct{ b *memBroker }

func (f memSubFactory) GetTransport() frugal.FSubscriberTransport { return &memSubTransport{b: f.b} }

type memSubTransport struct {
	b     *memBroker
	topic string
	cb    frugal.FAsyncCallback
	on    bool
}

func (t *memSubTransport) Subscribe(topic string, cb frugal.FAsyncCallback) error {
	t.b.mu.Lock()
	defer t.b.mu.Unlock()
	t.topic, t.cb, t.on = topic, cb, true
	t.b.subs[topic] = append(t.b.subs[topic], t)
	return nil
}
func (t *memSubTransport) Unsubscribe() error {
	t.b.mu.Lock()
	defer t.b.mu.Unlock()
	l := t.b.subs[t.topic]
	for i, s := range l {
		if s == t {
			t.b.subs[t.topic] = append(append([]*memSubTransport{}, l[:i]...), l[i+1:]...)
			break
		}
	}
	t.on = false
	return nil
}
func (t *memSubTransport) IsSubscribed() bool { return t.on }

func hexPairs(m map[string]string, skip string) string {
	keys := make([]string, 0, len(m))
	for k := range m {
		if k != skip {
			keys = append(keys, k)
		}
	}
	if len(keys) == 0 {
		return "-"
	}
	sort.Strings(keys)
	parts := make([]string, len(keys))
	for i, k := range keys {
		parts[i] = hex.EncodeToString([]byte(k)) + ":" + hex.EncodeToString([]byte(m[k]))
	}
	return strings.Join(parts, ";")
}

func unhexStr(s string) string {
	if s == "-" || s == "" || s == "." {
		return ""
	}
	b, err := hex.DecodeString(s)
	if err != nil {
		panic("bad hex " + s)
	}
	return string(b)
}

func parseVars(s string) []string {
	if s == "." || s == "" {
		return nil
	}
	var out []string
	for _, p := range strings.Split(s, "+") {
		out = append(out, unhexStr(p))
	}
	return out
}

func mkCtx(cid, hdrs string) frugal.FContext {
	fctx := frugal.NewFContext(unhexStr(cid))
	if hdrs != "-" && hdrs != "" {
		for _, p := range strings.Split(hdrs, ";") {
			i := strings.IndexByte(p, ':')
			fctx.AddRequestHeader(unhexStr(p[:i]), unhexStr(p[i+1:]))
		}
	}
	return fctx
}

func runPubSub(d *Defs, scopeKey, structKey, payload string) string {
	entry, ok := scopes[scopeKey]
	if !ok {
		return "no-such-scope:" + scopeKey
	}
	f := strings.SplitN(payload, "|", 5)
	if len(f) != 5 {
		return "bad-payload"
	}
	protoName, op, otherOp, otherKey, actions := f[0], f[1], f[2], f[3], f[4]
	pf := protoFactory(protoName)
	broker := &memBroker{subs: map[string][]*memSubTransport{}}
	provider := frugal.NewFScopeProvider(memPubFactory{broker}, memSubFactory{broker}, pf)
	pub := reflect.ValueOf(entry.NewPublisher(provider))
	sub := reflect.ValueOf(entry.NewSubscriber(provider))
	if o := pub.MethodByName("Open").Call(nil); !o[0].IsNil() {
		return "publisher-open-failed"
	}

	var calls []string
	var subscriptions []*frugal.FSubscription // all made from the ONE provider, by the ONE emitted subscriber object
	var topics []string
	var results []string
	pick := func(a []string, at int) (int, bool) {
		k := 0
		if len(a) > at {
			n, err := strconv.Atoi(a[at])
			if err != nil {
				return 0, false
			}
			k = n
		}
		return k, k >= 0 && k < len(subscriptions)
	}

	buildVal := func(key, val string) (reflect.Value, bool) {
		ctor, ok := ctors[key]
		if !ok {
			return reflect.Value{}, false
		}
		obj := ctor()
		pos := 0
		assign(d, reflect.ValueOf(obj).Elem(), &Ty{K: 'S', Name: key}, parseVal(val, &pos))
		return reflect.ValueOf(obj), true
	}
	publish := func(opName, key string, a []string) string {
		mv := pub.MethodByName("Publish" + opName)
		if !mv.IsValid() {
			return "no-such-publish-method"
		}
		vars := parseVars(a[1])
		if mv.Type().NumIn() != 2+len(vars) {
			return "arity"
		}
		obj, ok := buildVal(key, a[4])
		if !ok {
			return "no-ctor"
		}
		in := []reflect.Value{reflect.ValueOf(mkCtx(a[2], a[3]))}
		for _, v := range vars {
			in = append(in, reflect.ValueOf(v))
		}
		in = append(in, obj)
		broker.last = []string{"not-published"}
		out := mv.Call(in)
		if !out[0].IsNil() {
			return errClass(out[0].Interface().(error))
		}
		return strings.Join(broker.last, "+")
	}

	for _, act := range strings.Split(actions, "/") {
		a := strings.Split(act, "!")
		switch a[0] {
		case "S", "T", "SE", "TE":
			// S: Subscribe<op>, T: Subscribe<otherOp> — one more subscription from the same subscriber object;
			// SE / TE: the same through the other public entry point Subscribe<op>Errorable (handler returns nil)
			sop, skey := op, structKey
			if a[0][0] == 'T' {
				sop, skey = otherOp, otherKey
			}
			sty := &Ty{K: 'S', Name: skey}
			mname := "Subscribe" + sop
			if strings.HasSuffix(a[0], "E") {
				mname += "Errorable"
			}
			mv := sub.MethodByName(mname)
			if !mv.IsValid() {
				return "no-such-subscribe-method"
			}
			vars := parseVars(a[1])
			mt := mv.Type()
			if mt.NumIn() != len(vars)+1 {
				return "arity"
			}
			ht := mt.In(len(vars)) // func(frugal.FContext, *T)
			idx := len(subscriptions)
			handler := reflect.MakeFunc(ht, func(args []reflect.Value) []reflect.Value {
				fctx := args[0].Interface().(frugal.FContext)
				calls = append(calls, strconv.Itoa(idx)+":"+dump(d, args[1], sty)+"@"+hexPairs(fctx.RequestHeaders(), "_opid"))
				if ht.NumOut() == 1 { // Errorable handler: func(frugal.FContext, *T) error
					return []reflect.Value{reflect.Zero(ht.Out(0))}
				}
				return nil
			})
			var in []reflect.Value
			for _, v := range vars {
				in = append(in, reflect.ValueOf(v))
			}
			in = append(in, handler)
			out := mv.Call(in)
			if !out[1].IsNil() {
				return "subscribe-failed:" + errClass(out[1].Interface().(error))
			}
			sn := out[0].Interface().(*frugal.FSubscription)
			subscriptions = append(subscriptions, sn)
			topics = append(topics, sn.Topic())
			results = append(results, "sub:"+hex.EncodeToString([]byte(sn.Topic())))
		case "P":
			results = append(results, publish(op, structKey, a))
		case "Q":
			results = append(results, publish(otherOp, otherKey, a))
		case "M":
			k, ok := pick(a, 2)
			if !ok {
				return "bad-subscription-index"
			}
			raw, _ := hex.DecodeString(a[1])
			broker.publish(topics[k], raw)
			results = append(results, strings.Join(broker.last, "+"))
		case "E":
			k, okk := pick(a, 5)
			if !okk {
				return "bad-subscription-index"
			}
			obj, ok := buildVal(structKey, a[4])
			if !ok {
				return "no-ctor"
			}
			buffer := frugal.NewTMemoryOutputBuffer(0)
			oprot := pf.GetProtocol(buffer)
			if err := oprot.WriteRequestHeader(mkCtx(a[2], a[3])); err != nil {
				return "write-header:" + errClass(err)
			}
			oprot.WriteMessageBegin(ctx, unhexStr(a[1]), thrift.CALL, 0)
			if err := obj.Interface().(thrift.TStruct).Write(ctx, oprot); err != nil {
				return "write-payload:" + errClass(err)
			}
			oprot.WriteMessageEnd(ctx)
			oprot.Flush(ctx)
			broker.publish(topics[k], buffer.Bytes())
			results = append(results, strings.Join(broker.last, "+"))
		case "U":
			k, ok := pick(a, 1)
			if !ok {
				results = append(results, "no-subscription")
				continue
			}
			if err := subscriptions[k].Unsubscribe(); err != nil {
				results = append(results, errClass(err))
			} else {
				results = append(results, "unsub")
			}
		default:
			return "bad-action:" + a[0]
		}
	}
	c := "-"
	if len(calls) > 0 {
		c = strings.Join(calls, "/")
	}
	return fmt.Sprintf("n=%d acts=%s calls=%s", len(calls), strings.Join(results, ","), c)
}

func init() {
	jobOps["ps7"] = runPubSub
}
