package main

// C12 through really generated code (std and `slim`): job "rpc12".
//   goType = service key of the client, sname = "<defining service key>_<method>", payload =
//     <protocol>|<dq>|<dr>|<args>|<outcome>|<small args>|<follow-ups>
//   dq / dr : (a number, or `-p%` = p percent of the measured size short) the request limit is  Q0+dq, the server's reply-buffer limit R0+dr, where Q0 / R0 are the
//             framed sizes of this very request / reply measured on an unbounded run first; `x` = no limit
//   outcome : v<value> | x<id>=<exception value>              (what the handler returns)
//   follow-ups: comma separated <ctx><size>: ctx s(ame FContext) c(lone) f(resh); size w (the small
//             arguments) / o (the big arguments again), through the SAME generated client and transport
// The transport is in-process with the size checks of the NATS pair (request: framed size > limit ->
// REQUEST_TOO_LARGE at the client's buffer and at the transport; reply: NewTMemoryOutputBuffer(limit)).
// output: Qs=.. Rs=.. (sizes of the small request / reply) Q=.. R=.. E=.. q=.. r=.. main=<outcome> calls=<n> sent=<y|n> next=<outcome>,… nextcalls=<n>

import (
	"errors"
	"fmt"
	"reflect"
	"strconv"
	"strings"
	"sync"
	"time"

	frugal "github.com/Workiva/frugal/lib/go"
	"github.com/apache/thrift/lib/go/thrift"
)

type c12Mem struct {
	proc    frugal.FProcessor
	pf      *frugal.FProtocolFactory
	q, r    uint
	reached int
	lastReq int
	lastRep int
}

func (m *c12Mem) SetMonitor(frugal.FTransportMonitor) {}
func (m *c12Mem) Closed() <-chan error                { return make(chan error) }
func (m *c12Mem) Open() error                         { return nil }
func (m *c12Mem) IsOpen() bool                        { return true }
func (m *c12Mem) Close() error                        { return nil }
func (m *c12Mem) GetRequestSizeLimit() uint           { return m.q }
func (m *c12Mem) Oneway(ctx frugal.FContext, payload []byte) error {
	_, err := m.Request(ctx, payload)
	if te, ok := err.(thrift.TTransportException); ok && te.TypeId() == frugal.TRANSPORT_EXCEPTION_TIMED_OUT {
		return nil
	}
	return err
}
func (m *c12Mem) Request(ctx frugal.FContext, payload []byte) (thrift.TTransport, error) {
	if len(payload) == 4 {
		return nil, nil
	}
	if m.q > 0 && uint(len(payload)) > m.q {
		return nil, thrift.NewTTransportException(frugal.TRANSPORT_EXCEPTION_REQUEST_TOO_LARGE, "Message exceeds limit")
	}
	m.reached++
	m.lastReq = len(payload)
	in := thrift.NewTMemoryBuffer()
	in.Write(payload[4:])
	out := frugal.NewTMemoryOutputBuffer(m.r)
	if err := m.proc.Process(m.pf.GetProtocol(in), m.pf.GetProtocol(out)); err != nil {
		return nil, thrift.NewTTransportException(frugal.TRANSPORT_EXCEPTION_TIMED_OUT, "no reply: "+err.Error())
	}
	if !out.HasWriteData() {
		return nil, thrift.NewTTransportException(frugal.TRANSPORT_EXCEPTION_TIMED_OUT, "no reply")
	}
	reply := out.Bytes()
	m.lastRep = len(reply)
	buf := thrift.NewTMemoryBuffer()
	buf.Write(reply[4:])
	return buf, nil
}

func c12Class(err error) string {
	if te, ok := err.(thrift.TTransportException); ok {
		switch te.TypeId() {
		case frugal.TRANSPORT_EXCEPTION_REQUEST_TOO_LARGE:
			return "err:requestTooLarge"
		case frugal.TRANSPORT_EXCEPTION_RESPONSE_TOO_LARGE:
			return "err:responseTooLarge"
		case frugal.TRANSPORT_EXCEPTION_TIMED_OUT:
			return "timeout"
		}
	}
	return errClass(err)
}

// c12WarmOpIDs moves the process-wide op id counter into a range where the number of digits of
// `_opid` stays the same for the rest of the run (the measured sizes Q0 / R0 must be the sizes of
// the limited run too).
var c12WarmOnce sync.Once

func c12WarmOpIDs() {
	c12WarmOnce.Do(func() {
		for i := 0; i < 200000; i++ {
			id, _ := strconv.Atoi(frugal.NewFContext("w").RequestHeaders()["_opid"])
			if id >= 100000 {
				return
			}
		}
	})
}

func runRPC12(d *Defs, svcKey, methodKey, payload string) string {
	entry, ok := services[svcKey]
	if !ok {
		return "no-such-service:" + svcKey
	}
	parts := strings.Split(payload, "|")
	if len(parts) != 7 {
		return "bad-payload"
	}
	protoName, dqS, drS, outcome := parts[0], parts[1], parts[2], parts[4]
	argsSD, ok1 := d.Structs[methodKey+"_args"]
	resSD, ok2 := d.Structs[methodKey+"_result"]
	if !ok1 || !ok2 {
		return "no-such-method:" + methodKey
	}
	method := methodKey[strings.LastIndex(methodKey, "_")+1:]
	pos := 0
	bigArgs := parseVal(parts[3], &pos)
	pos = 0
	smallArgs := parseVal(parts[5], &pos)
	c12WarmOpIDs()

	var mu sync.Mutex
	ncalls := 0
	small := false // the handler answers a small-argument call with an empty result
	call := func(service, m string, fctx frugal.FContext, args []interface{}, ret interface{}) error {
		mu.Lock()
		ncalls++
		sm := small
		mu.Unlock()
		if sm {
			return nil
		}
		switch outcome[0] {
		case 'v':
			if ret != nil && len(outcome) > 1 {
				p := 0
				var rt *Ty
				for _, f := range resSD.Fields {
					if f.ID == 0 {
						rt = f.Ty
					}
				}
				assign(d, reflect.ValueOf(ret).Elem(), rt, parseVal(outcome[1:], &p))
			}
			return nil
		case 'x':
			eq := strings.IndexByte(outcome, '=')
			id, _ := strconv.Atoi(outcome[1:eq])
			for _, f := range resSD.Fields {
				if f.ID == id {
					et := d.resolve(f.Ty)
					ctor, ok := ctors[et.Name]
					if !ok {
						return errors.New("runner: no ctor for " + et.Name)
					}
					obj := ctor()
					p := 0
					assign(d, reflect.ValueOf(obj).Elem(), et, parseVal(outcome[eq+1:], &p))
					return obj.(error)
				}
			}
		}
		return errors.New("undeclared failure")
	}
	pf := protoFactory(protoName)
	tr := &c12Mem{proc: entry.NewProcessor(call), pf: pf}
	client := reflect.ValueOf(entry.NewClient(frugal.NewFServiceProvider(tr, pf)))
	mv := client.MethodByName(titleFirst(method))
	if !mv.IsValid() {
		return "client-has-no-method:" + method
	}
	mt := mv.Type()
	mkIn := func(fctx frugal.FContext, argv *VNode) []reflect.Value {
		in := []reflect.Value{reflect.ValueOf(fctx)}
		for i, f := range argsSD.Fields {
			pv := reflect.New(mt.In(i + 1)).Elem()
			if fv, ok := argv.Fields[f.ID]; ok {
				assign(d, pv, f.Ty, fv)
			}
			in = append(in, pv)
		}
		return in
	}
	newCtx := func() frugal.FContext {
		c := frugal.NewFContext("c12gen")
		c.SetTimeout(5 * time.Second)
		return c
	}
	render := func(outv []reflect.Value) string {
		errv := outv[len(outv)-1]
		if errv.IsNil() {
			if len(outv) == 2 {
				var rt *Ty
				for _, f := range resSD.Fields {
					if f.ID == 0 {
						rt = f.Ty
					}
				}
				if outv[0].Kind() == reflect.Ptr && outv[0].IsNil() {
					return "ok ~"
				}
				return "ok " + dump(d, outv[0], rt)
			}
			return "void"
		}
		err := errv.Interface().(error)
		for _, f := range resSD.Fields {
			if f.ID == 0 {
				continue
			}
			et := d.resolve(f.Ty)
			if ctor, ok := ctors[et.Name]; ok && reflect.TypeOf(err) == reflect.TypeOf(ctor()) {
				return fmt.Sprintf("exc %d %s", f.ID, dump(d, reflect.ValueOf(err), et))
			}
		}
		if ae, ok := err.(thrift.TApplicationException); ok {
			return fmt.Sprintf("app %d", ae.TypeId())
		}
		return c12Class(err)
	}

	// 1. unbounded run: the sizes of this request and this reply
	mv.Call(mkIn(newCtx(), bigArgs))
	Q0, R0 := tr.lastReq, tr.lastRep
	if tr.reached != 1 {
		return "measure-run-failed"
	}
	mu.Lock()
	small = true
	mu.Unlock()
	tr.lastRep = 0
	mv.Call(mkIn(newCtx(), smallArgs))
	Qs, Rs := tr.lastReq, tr.lastRep
	mu.Lock()
	small = false
	mu.Unlock()
	// 2. the limited run
	delta := func(s string, base int) int { // "-37%" = 37 % of the measured size short
		if strings.HasSuffix(s, "%") {
			p, _ := strconv.Atoi(s[:len(s)-1])
			d := base * p / 100
			if d == 0 {
				d = -1
			}
			return d
		}
		d, _ := strconv.Atoi(s)
		return d
	}
	abs := func(s string) (uint, bool) { // "=N": the limit VALUE itself (16/32/63/64-bit edges)
		if strings.HasPrefix(s, "=") {
			v, _ := strconv.ParseUint(s[1:], 10, 64)
			return uint(v), true
		}
		return 0, false
	}
	if v, ok := abs(dqS); ok {
		tr.q = v
	} else if dqS != "x" {
		tr.q = uint(Q0 + delta(dqS, Q0))
		if tr.q < 4 {
			tr.q = 4
		}
	}
	if v, ok := abs(drS); ok {
		tr.r = v
	} else if drS != "x" && R0 > 0 {
		tr.r = uint(R0 + delta(drS, R0))
		if tr.r < 4 {
			tr.r = 4
		}
	}
	mu.Lock()
	ncalls = 0
	mu.Unlock()
	tr.reached, tr.lastRep = 0, 0
	// the client reads the transport's request limit when it is constructed: a new client for the limited
	// phase (main call and all follow-ups go through this one client and the one transport)
	client = reflect.ValueOf(entry.NewClient(frugal.NewFServiceProvider(tr, pf)))
	mv = client.MethodByName(titleFirst(method))
	base := newCtx()
	mainOut := render(mv.Call(mkIn(base, bigArgs)))
	mu.Lock()
	mainCalls := ncalls
	ncalls = 0
	mu.Unlock()
	sent := "n"
	if tr.reached > 0 {
		sent = "y"
	}
	E := 0
	if mainOut == "err:responseTooLarge" {
		E = tr.lastRep
	}
	// 3. follow-ups through the same client and transport
	var next []string
	for _, f := range strings.Split(parts[6], ",") {
		if len(f) != 2 {
			continue
		}
		var fctx frugal.FContext
		switch f[0] {
		case 's':
			fctx = base
		case 'c':
			fctx = frugal.Clone(base)
		default:
			fctx = newCtx()
		}
		argv := bigArgs
		mu.Lock()
		small = f[1] == 'w'
		mu.Unlock()
		if f[1] == 'w' {
			argv = smallArgs
		}
		o := render(mv.Call(mkIn(fctx, argv)))
		if strings.HasPrefix(o, "ok ") || strings.HasPrefix(o, "exc ") {
			o = o[:strings.IndexByte(o, ' ')]
		}
		next = append(next, o)
	}
	mu.Lock()
	nextCalls := ncalls
	mu.Unlock()
	return fmt.Sprintf("Qs=%d Rs=%d Q=%d R=%d E=%d q=%d r=%d main=%s calls=%d sent=%s next=%s nextcalls=%d", Qs, Rs, Q0, R0, E, tr.q, tr.r, mainOut, mainCalls, sent, strings.Join(next, ","), nextCalls)
}

func init() { jobOps["rpc12"] = runRPC12 }
