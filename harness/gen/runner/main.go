// runner: executes jobs against the GENERATED Go code of one or more IDL programs.
// It is copied, together with a generated registry_gen.go, into a scratch module
// next to the generated packages. Jobs come on stdin (tab separated), results go to
// stdout as `<idx>\t<real output>`.
package main

import (
	"bufio"
	"context"
	"fmt"
	"os"
	"reflect"
	"strings"
	"time"

	"github.com/apache/thrift/lib/go/thrift"
)

var ctx = context.Background()

func errClass(err error) string {
	if err == nil {
		return "ok"
	}
	if te, ok := err.(thrift.TException); ok {
		switch te.TExceptionType() {
		case thrift.TExceptionTypeProtocol:
			if pe, ok := err.(thrift.TProtocolException); ok && pe.TypeId() == thrift.INVALID_DATA {
				return "err:invalidData"
			}
			return "err:protocol"
		case thrift.TExceptionTypeTransport:
			return "err:transport"
		case thrift.TExceptionTypeApplication:
			return "err:application"
		}
	}
	return "err:other"
}

// watchdog runs f under recover and a timer: a call that never returns is the outcome `blocked`
// (the stuck goroutine is abandoned; later jobs use fresh objects).
func watchdog(d time.Duration, f func() string) string {
	done := make(chan string, 1)
	go func() { done <- guarded(f) }()
	select {
	case o := <-done:
		return o
	case <-time.After(d):
		return "blocked"
	}
}

func guarded(f func() string) (out string) {
	defer func() {
		if r := recover(); r != nil {
			s := fmt.Sprint(r)
			switch {
			case strings.Contains(s, "nil pointer"):
				out = "panic:nilDeref"
			case strings.Contains(s, "nil map"):
				out = "panic:nilMap"
			case strings.Contains(s, "index out of range"):
				out = "panic:index"
			default:
				out = "panic:other:" + strings.ReplaceAll(strings.ReplaceAll(s, "\t", " "), "\n", " ")
			}
		}
	}()
	return f()
}

// jobOps: job op -> executor (d = the program's definitions, goType/sname/payload as the suite defines them).
// Each runner file registers its ops in init().
var jobOps = map[string]func(d *Defs, goType, sname, payload string) string{}

func init() {
	jobOps["w"] = func(d *Defs, goType, sname, payload string) string {
		ctor, ok := ctors[goType]
		if !ok {
			return "no-such-type:" + goType
		}
		st := &Ty{K: 'S', Name: sname}
		obj := ctor()
		pos := 0
		assign(d, reflect.ValueOf(obj).Elem(), st, parseVal(payload, &pos))
		rec := &recorder{}
		if err := obj.Write(ctx, rec); err != nil {
			return errClass(err)
		}
		return "ok " + canonEvents(rec.ev)
	}
	jobOps["r"] = func(d *Defs, goType, sname, payload string) string {
		ctor, ok := ctors[goType]
		if !ok {
			return "no-such-type:" + goType
		}
		st := &Ty{K: 'S', Name: sname}
		obj := ctor()
		rp := &replayer{in: parseEvents(payload)}
		if err := obj.Read(ctx, rp); err != nil {
			return errClass(err)
		}
		return fmt.Sprintf("ok %s rest=%d", dump(d, reflect.ValueOf(obj), st), len(rp.in)-rp.pos)
	}
	jobOps["p"] = func(d *Defs, goType, sname, payload string) string {
		ctor, ok := ctors[goType]
		if !ok {
			return "no-such-type:" + goType
		}
		st := &Ty{K: 'S', Name: sname}
		var parts []string
		for _, pf := range []struct {
			name string
			f    thrift.TProtocolFactory
		}{
			{"binary", thrift.NewTBinaryProtocolFactoryConf(nil)},
			{"compact", thrift.NewTCompactProtocolFactoryConf(nil)},
			{"json", thrift.NewTJSONProtocolFactory()},
		} {
			parts = append(parts, pf.name+"="+guarded(func() string {
				obj := ctor()
				pos := 0
				assign(d, reflect.ValueOf(obj).Elem(), st, parseVal(payload, &pos))
				buf := thrift.NewTMemoryBuffer()
				prot := pf.f.GetProtocol(buf)
				if err := obj.Write(ctx, prot); err != nil {
					return "write-" + errClass(err)
				}
				prot.Flush(ctx)
				back := ctor()
				if err := back.Read(ctx, pf.f.GetProtocol(buf)); err != nil {
					return "read-" + errClass(err)
				}
				return dump(d, reflect.ValueOf(back), st)
			}))
		}
		return "ok " + strings.Join(parts, " ")
	}
}

func main() {
	defsByID := map[string]*Defs{}
	if len(os.Args) > 1 {
		f, err := os.Open(os.Args[1])
		if err != nil {
			fmt.Fprintln(os.Stderr, err)
			os.Exit(2)
		}
		sc := bufio.NewScanner(f)
		sc.Buffer(make([]byte, 1<<20), 1<<26)
		for sc.Scan() {
			p := strings.SplitN(sc.Text(), "\t", 2)
			if len(p) == 2 {
				defsByID[p[0]] = parseDefs(p[1])
			}
		}
		f.Close()
	}
	out := bufio.NewWriterSize(os.Stdout, 1<<20)
	defer out.Flush()
	sc := bufio.NewScanner(os.Stdin)
	sc.Buffer(make([]byte, 1<<20), 1<<28)
	for sc.Scan() {
		p := strings.Split(sc.Text(), "\t")
		if len(p) < 6 {
			continue
		}
		idx, op, defsID, goType, sname, payload := p[0], p[1], p[2], p[3], p[4], p[5]
		d := defsByID[defsID]
		res := watchdog(20*time.Second, func() string {
			f, ok := jobOps[op]
			if !ok {
				return "bad-job"
			}
			if d == nil {
				return "no-such-defs:" + defsID
			}
			return f(d, goType, sname, payload)
		})
		fmt.Fprintf(out, "%s\t%s\n", idx, res)
	}
}
