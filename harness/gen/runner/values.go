package main

import (
	"encoding/hex"
	"fmt"
	"math"
	"reflect"
	"sort"
	"strconv"
	"strings"
)

// ---------- IDL type descriptors (compact syntax shared with the Lean driver and the orchestrator) ----------

// Field syntax inside `r<kind><name>(…;…)`: `id,req,name,type[,default]`.
type Ty struct {
	K    byte // b y h i l d s x E S T L Z M
	Name string
	A, B *Ty
}

type Field struct {
	ID   int
	Req  byte // r o d
	Name string
	Ty   *Ty
	Dflt *VNode // IDL default value (5th item of the field syntax: value syntax with ':' for ';'), nil = none
}

// cmpDefault: the emitted IsSet<F>() of this field compares a NON-pointer Go field with a default —
// the field is optional (or a union's) and its default is of base / enum / string / binary type.
func (f *Field) cmpDefault(sd *StructDef) bool {
	return (f.Req == 'o' || sd.Kind == 'u') && f.Dflt != nil && strings.IndexByte("tfngq", f.Dflt.K) >= 0
}

type StructDef struct {
	Kind   byte // s u x
	Name   string
	Fields []Field
}

type Defs struct {
	Typedefs map[string]*Ty
	Enums    map[string][]int64
	Structs  map[string]*StructDef
}

func parseTy(s string, pos *int) *Ty {
	c := s[*pos]
	*pos++
	switch c {
	case 'E', 'S', 'T':
		end := strings.IndexByte(s[*pos:], '.')
		name := s[*pos : *pos+end]
		*pos += end + 1
		return &Ty{K: c, Name: name}
	case 'L', 'Z':
		return &Ty{K: c, A: parseTy(s, pos)}
	case 'M':
		a := parseTy(s, pos)
		b := parseTy(s, pos)
		return &Ty{K: c, A: a, B: b}
	}
	return &Ty{K: c}
}

func parseDefs(s string) *Defs {
	d := &Defs{Typedefs: map[string]*Ty{}, Enums: map[string][]int64{}, Structs: map[string]*StructDef{}}
	if s == "" || s == "-" {
		return d
	}
	for _, item := range strings.Split(s, "|") {
		switch item[0] {
		case 't':
			eq := strings.IndexByte(item, '=')
			p := 0
			d.Typedefs[item[1:eq]] = parseTy(item[eq+1:], &p)
		case 'e':
			eq := strings.IndexByte(item, '=')
			var vals []int64
			if item[eq+1:] != "" {
				for _, v := range strings.Split(item[eq+1:], ",") {
					n, _ := strconv.ParseInt(v, 10, 64)
					vals = append(vals, n)
				}
			}
			d.Enums[item[1:eq]] = vals
		case 'r':
			lp := strings.IndexByte(item, '(')
			sd := &StructDef{Kind: item[1], Name: item[2:lp]}
			body := item[lp+1 : len(item)-1]
			if body != "" {
				for _, f := range strings.Split(body, ";") {
					p := strings.SplitN(f, ",", 5)
					id, _ := strconv.Atoi(p[0])
					pos := 0
					fd := Field{ID: id, Req: p[1][0], Name: p[2], Ty: parseTy(p[3], &pos)}
					if len(p) == 5 {
						dpos := 0
						fd.Dflt = parseVal(strings.ReplaceAll(p[4], ":", ";"), &dpos)
					}
					sd.Fields = append(sd.Fields, fd)
				}
			}
			d.Structs[sd.Name] = sd
		}
	}
	return d
}

// resolve follows typedefs.
func (d *Defs) resolve(t *Ty) *Ty {
	for i := 0; i < 64 && t.K == 'T'; i++ {
		n, ok := d.Typedefs[t.Name]
		if !ok {
			return t
		}
		t = n
	}
	return t
}

// ---------- value trees (compact syntax) ----------

type VNode struct {
	K      byte // t f n g q [ { (
	N      int64
	S      []byte
	Items  []*VNode // list/set items; map: k0 v0 k1 v1 …
	Fields map[int]*VNode
	Order  []int
}

func parseVal(s string, pos *int) *VNode {
	c := s[*pos]
	*pos++
	switch c {
	case 't', 'f':
		return &VNode{K: c}
	case 'n':
		end := strings.IndexByte(s[*pos:], ';')
		n, _ := strconv.ParseInt(s[*pos:*pos+end], 10, 64)
		*pos += end + 1
		return &VNode{K: 'n', N: n}
	case 'g':
		u, _ := strconv.ParseUint(s[*pos:*pos+16], 16, 64)
		*pos += 16
		return &VNode{K: 'g', N: int64(u)}
	case 'q':
		end := strings.IndexByte(s[*pos:], ';')
		b, _ := hex.DecodeString(s[*pos : *pos+end])
		*pos += end + 1
		return &VNode{K: 'q', S: b}
	case '[', '{':
		closer := byte(']')
		if c == '{' {
			closer = '}'
		}
		n := &VNode{K: c}
		for s[*pos] != closer {
			n.Items = append(n.Items, parseVal(s, pos))
		}
		*pos++
		return n
	case '(':
		n := &VNode{K: '(', Fields: map[int]*VNode{}}
		for s[*pos] != ')' {
			eq := strings.IndexByte(s[*pos:], '=')
			id, _ := strconv.Atoi(s[*pos : *pos+eq])
			*pos += eq + 1
			n.Fields[id] = parseVal(s, pos)
			n.Order = append(n.Order, id)
		}
		*pos++
		return n
	}
	panic("bad value syntax at " + strconv.Itoa(*pos-1) + " in " + s)
}

// ---------- reflection: value tree -> generated Go value ----------

// fieldByID finds the Go field of thrift field `id`: by struct tag, or (the `slim` generator option
// emits no tags) by the emitted field name = the IDL name with its first letter upper-cased (the
// harness generates names without underscores).
func fieldByID(rt reflect.Type, id int, name string) (int, bool) {
	if name != "" {
		want := strings.ToUpper(name[:1]) + name[1:]
		if f, ok := rt.FieldByName(want); ok && f.Tag.Get("thrift") == "" {
			return f.Index[0], true
		}
	}
	for i := 0; i < rt.NumField(); i++ {
		tag := rt.Field(i).Tag.Get("thrift")
		p := strings.Split(tag, ",")
		if len(p) >= 2 {
			if n, err := strconv.Atoi(p[1]); err == nil && n == id {
				return i, true
			}
		}
	}
	return 0, false
}

// assign stores v (of IDL type t) into rv (settable).
func assign(d *Defs, rv reflect.Value, t *Ty, v *VNode) {
	t = d.resolve(t)
	if rv.Kind() == reflect.Ptr && t.K != 'S' {
		p := reflect.New(rv.Type().Elem())
		assign(d, p.Elem(), t, v)
		rv.Set(p)
		return
	}
	switch t.K {
	case 'b':
		rv.SetBool(v.K == 't')
	case 'y', 'h', 'i', 'l', 'E':
		rv.SetInt(v.N)
	case 'd':
		rv.SetFloat(math.Float64frombits(uint64(v.N)))
	case 's':
		rv.SetString(string(v.S))
	case 'x':
		rv.SetBytes(append([]byte{}, v.S...))
	case 'L':
		sl := reflect.MakeSlice(rv.Type(), 0, len(v.Items))
		for _, it := range v.Items {
			e := reflect.New(rv.Type().Elem()).Elem()
			assign(d, e, t.A, it)
			sl = reflect.Append(sl, e)
		}
		rv.Set(sl)
	case 'Z':
		m := reflect.MakeMapWithSize(rv.Type(), len(v.Items))
		for _, it := range v.Items {
			k := reflect.New(rv.Type().Key()).Elem()
			assign(d, k, t.A, it)
			m.SetMapIndex(k, reflect.ValueOf(true))
		}
		rv.Set(m)
	case 'M':
		m := reflect.MakeMapWithSize(rv.Type(), len(v.Items)/2)
		for i := 0; i+1 < len(v.Items); i += 2 {
			k := reflect.New(rv.Type().Key()).Elem()
			assign(d, k, t.A, v.Items[i])
			e := reflect.New(rv.Type().Elem()).Elem()
			assign(d, e, t.B, v.Items[i+1])
			m.SetMapIndex(k, e)
		}
		rv.Set(m)
	case 'S':
		sd := d.Structs[t.Name]
		var target reflect.Value
		if rv.Kind() == reflect.Ptr {
			// a struct-like is made by its emitted constructor New<T>() — as every emitted reader does
			// for nested structs — so that fields the value does not list hold their IDL defaults; the
			// synthetic args/result structs have no registered constructor (zero literal, as emitted)
			target = reflect.New(rv.Type().Elem())
			if ctor, ok := ctors[t.Name]; ok {
				if c := reflect.ValueOf(ctor()); c.Type() == rv.Type() {
					target = c
				}
			}
			rv.Set(target)
			target = target.Elem()
		} else {
			target = rv
		}
		for _, f := range sd.Fields {
			fv, ok := v.Fields[f.ID]
			if !ok {
				continue
			}
			idx, ok := fieldByID(target.Type(), f.ID, f.Name)
			if !ok {
				panic(fmt.Sprintf("generated struct %s has no field with thrift id %d", target.Type(), f.ID))
			}
			assign(d, target.Field(idx), f.Ty, fv)
		}
	}
}

// ---------- reflection: generated Go value -> canonical value string ----------

func dump(d *Defs, rv reflect.Value, t *Ty) string {
	t = d.resolve(t)
	if rv.Kind() == reflect.Ptr && t.K != 'S' {
		return dump(d, rv.Elem(), t)
	}
	switch t.K {
	case 'b':
		if rv.Bool() {
			return "t"
		}
		return "f"
	case 'y', 'h', 'i', 'l', 'E':
		return "n" + strconv.FormatInt(rv.Int(), 10) + ";"
	case 'd':
		if math.IsNaN(rv.Float()) {
			return "g7ff8000000000001" // dumps compare NaNs as "is NaN": the JSON protocol carries no payload
		}
		return fmt.Sprintf("g%016x", math.Float64bits(rv.Float()))
	case 's':
		return "q" + hex.EncodeToString([]byte(rv.String())) + ";"
	case 'x':
		return "q" + hex.EncodeToString(rv.Bytes()) + ";"
	case 'L':
		var b strings.Builder
		b.WriteByte('[')
		for i := 0; i < rv.Len(); i++ {
			b.WriteString(dump(d, rv.Index(i), t.A))
		}
		b.WriteByte(']')
		return b.String()
	case 'Z':
		var items []string
		for _, k := range rv.MapKeys() {
			items = append(items, dump(d, k, t.A))
		}
		sort.Strings(items)
		return "[" + strings.Join(items, "") + "]"
	case 'M':
		var items []string
		for _, k := range rv.MapKeys() {
			items = append(items, dump(d, k, t.A)+dump(d, rv.MapIndex(k), t.B))
		}
		sort.Strings(items)
		return "{" + strings.Join(items, "") + "}"
	case 'S':
		if rv.Kind() == reflect.Ptr {
			if rv.IsNil() {
				return "~"
			}
			rv = rv.Elem()
		}
		sd := d.Structs[t.Name]
		var b strings.Builder
		b.WriteByte('(')
		fs := append([]Field{}, sd.Fields...)
		sort.Slice(fs, func(i, j int) bool { return fs[i].ID < fs[j].ID })
		for _, f := range fs {
			idx, ok := fieldByID(rv.Type(), f.ID, f.Name)
			if !ok {
				b.WriteString(fmt.Sprintf("%d=?", f.ID))
				continue
			}
			fv := rv.Field(idx)
			ft := d.resolve(f.Ty)
			unset := false
			switch fv.Kind() {
			case reflect.Ptr:
				unset = fv.IsNil()
			case reflect.Slice, reflect.Map:
				// optional containers/binary: nil means unset; required/default: nil is identified with empty
				unset = fv.IsNil() && (f.Req == 'o' || sd.Kind == 'u')
			}
			if f.cmpDefault(sd) {
				// non-pointer optional field with a default: "set" is what the emitted IsSet<F>() says
				m := rv.Addr().MethodByName("IsSet" + rv.Type().Field(idx).Name)
				if !m.IsValid() {
					b.WriteString(fmt.Sprintf("%d=?noIsSet", f.ID))
					continue
				}
				unset = !m.Call(nil)[0].Bool()
			}
			if unset {
				continue
			}
			if fv.Kind() == reflect.Ptr && ft.K == 'S' && fv.IsNil() {
				continue
			}
			b.WriteString(strconv.Itoa(f.ID))
			b.WriteByte('=')
			b.WriteString(dump(d, fv, f.Ty))
		}
		b.WriteByte(')')
		return b.String()
	}
	return "?"
}
