"""Library of the generated-code harness (see gen.py): random multi-file IDL programs are compiled by the
REAL frugal compiler, the emitted Go is built together with a generic reflection runner
(harness/gen/runner) in a scratch module, and values / TProtocol event streams are pushed through the
emitted Read/Write code. Output: the usual C/O/S/X line protocol of bin/check.

  gen.py c02 -seed N -n N     types: Write vs declared encoding, Read of conforming / extended / deficient
                              streams, round trip through the real binary, compact and JSON protocols
"""
import os, re, shutil, subprocess, sys, tempfile, json, struct

VERIF = os.path.dirname(os.path.dirname(os.path.dirname(os.path.abspath(__file__))))
REPO = os.environ.get("VERIF_REPO", "/repo")
BUILD = os.path.join(VERIF, ".build")
GOENV = dict(os.environ, GOFLAGS="-mod=mod", GOPROXY="off", GOSUMDB="off", GOTOOLCHAIN="local")
MOD = "verifmod"


# ------------------------------------------------------------------ PRNG (splitmix64)
class Rng:
    def __init__(self, seed):
        z = (seed + 0x9E3779B97F4A7C15) & (2**64 - 1)
        z = ((z ^ (z >> 30)) * 0xBF58476D1CE4E5B9) & (2**64 - 1)
        z = ((z ^ (z >> 27)) * 0x94D049BB133111EB) & (2**64 - 1)
        self.s = z ^ (z >> 31)

    def u64(self):
        self.s = (self.s + 0x9E3779B97F4A7C15) & (2**64 - 1)
        z = self.s
        z = ((z ^ (z >> 30)) * 0xBF58476D1CE4E5B9) & (2**64 - 1)
        z = ((z ^ (z >> 27)) * 0x94D049BB133111EB) & (2**64 - 1)
        return z ^ (z >> 31)

    def intn(self, n): return self.u64() % n if n > 0 else 0
    def chance(self, p): return self.intn(100) < p
    def pick(self, xs): return xs[self.intn(len(xs))]
    def shuffle(self, xs):
        xs = list(xs)
        for i in range(len(xs) - 1, 0, -1):
            j = self.intn(i + 1); xs[i], xs[j] = xs[j], xs[i]
        return xs


# ------------------------------------------------------------------ output protocol
stats, nsamples = {}, [0]
def Case(inp, real): print("C\t%s\t%s" % (inp, real))
RERUN = {}      # set by gen.py: {"suite", "seed", "n"} — every failure carries how to regenerate its case
def OracleFail(what, detail): detail = dict(detail, what=what, rerun=RERUN); print("O\t" + json.dumps(detail))
def Known(i, what): print("K\t%s\t%s" % (i, what))
def Stat(k, n=1): stats[k] = stats.get(k, 0) + n
def Sample(v):
    if nsamples[0] < 6: nsamples[0] += 1; print("X\t" + json.dumps(v))
def Finish():
    for k in sorted(stats): print("S\t%s\t%d" % (k, stats[k]))
    sys.stdout.flush()


# ------------------------------------------------------------------ IDL model
BASE = {"bool": "b", "byte": "y", "i16": "h", "i32": "i", "i64": "l", "double": "d", "string": "s", "binary": "x"}
WIRE = {"b": 2, "y": 3, "d": 4, "h": 6, "i": 8, "l": 10, "s": 11, "x": 11, "E": 8, "S": 12, "M": 13, "Z": 14, "L": 15}
KEYABLE = ["bool", "byte", "i16", "i32", "i64", "string"]

class Ty:
    """k in BASE codes or E S T (named: file, name) or L Z M."""
    def __init__(self, k, a=None, b=None, file=None, name=None, alias=None): self.k, self.a, self.b, self.file, self.name, self.alias = k, a, b, file, name, alias
    def code(self):
        if self.k in "EST": return "%s%s/%s." % (self.k, self.file, self.name)
        if self.k in "LZ": return self.k + self.a.code()
        if self.k == "M": return "M" + self.a.code() + self.b.code()
        return self.k
    def idl(self, cur):
        if self.k in "EST": return self.name if self.file == cur else "%s.%s" % (self.file, self.name)
        if self.k == "L": return "list<%s>" % self.a.idl(cur)
        if self.k == "Z": return "set<%s>" % self.a.idl(cur)
        if self.k == "M": return "map<%s,%s>" % (self.a.idl(cur), self.b.idl(cur))
        return self.alias or {v: k for k, v in BASE.items()}[self.k]

class Prog:
    def __init__(self, pid):
        self.pid = pid
        self.files = []                 # file names, includes first, main last
        self.typedefs = {}              # (file,name) -> Ty
        self.enums = {}                 # (file,name) -> [numbers]
        self.structs = {}               # (file,name) -> (kind, [(id, req, fname, Ty)])
        self.order = {}                 # file -> [("t"|"e"|"r"|"v"|"c", name)] declaration order
        self.includes = {}              # file -> [files]
        self.services = {}              # (file,name) -> {"extends": (file,name)|None, "methods": [method]}
                                        #   method = {"name", "oneway", "args": [(id, fname, Ty)], "ret": Ty|None, "throws": [(id, fname, Ty)]}
        self.scopes = {}                # (file,name) -> {"prefix": [("lit", s)|("var", name)], "ops": [(opname, Ty)]}
        self.genopts = ""               # extra `-gen go:` options for this program (e.g. "slim")
        self.defaults = {}              # (file,name) -> {field id: value tree}: IDL default values (`= 5`)
        self.synth = {}                 # (file, "<Svc>_<method>_args|_result") -> (kind, fields): for oracles only

    def sdef(self, key):
        """(kind, fields) of a struct-like, or of a synthetic args/result struct registered in self.synth."""
        return self.structs[key] if key in self.structs else self.synth[key]

    def dflt(self, key, fid):
        """the IDL default of field `fid` of struct-like `key` (None = none)."""
        return self.defaults.get(key, {}).get(fid)

    def cmp_dflt(self, key, fid):
        """the default that the emitted IsSet<F>() compares with: the field is optional (or a union's) and its
        default is of base / enum / string / binary type (a NON-pointer Go field); None otherwise."""
        kind, fields = self.sdef(key)
        dv = self.dflt(key, fid)
        if dv is None or dv[0] not in "bngq": return None
        for (i, req, _, _) in fields:
            if i == fid: return dv if (req == "o" or kind == "u") else None
        return None

    def resolve(self, t):
        n = 0
        while t.k == "T" and n < 64:
            t = self.typedefs[(t.file, t.name)]; n += 1
        return t

    def wire(self, t): return WIRE[self.resolve(t).k]

    def defs_code(self):
        items = []
        for (f, n), t in self.typedefs.items(): items.append("t%s/%s=%s" % (f, n, t.code()))
        for (f, n), vals in self.enums.items(): items.append("e%s/%s=%s" % (f, n, ",".join(str(v) for v in vals)))
        for (f, n), (kind, fields) in self.structs.items():
            def fitem(i, r, fn, t):
                dv = self.dflt((f, n), i)     # 5th item: the default, value syntax with `:` for `;`
                return "%d,%s,%s,%s" % (i, r, fn, t.code()) + ("" if dv is None else "," + dump_val(dv).replace(";", ":"))
            items.append("r%s%s/%s(%s)" % (kind, f, n, ";".join(fitem(*fl) for fl in fields)))
        # synthetic args/result structs of service methods (what the generator emits for them):
        # args fields are written unconditionally (default requiredness), result fields are optional
        for (f, n), svc in self.services.items():
            for m in svc["methods"]:
                items.append("rs%s/%s_%s_args(%s)" % (f, n, m["name"], ";".join("%d,d,%s,%s" % (i, fn, t.code()) for (i, fn, t) in m["args"])))
                res = ([(0, "success", m["ret"])] if m["ret"] is not None else []) + list(m["throws"])
                items.append("rs%s/%s_%s_result(%s)" % (f, n, m["name"], ";".join("%d,o,%s,%s" % (i, fn, t.code()) for (i, fn, t) in res)))
        return "|".join(items) if items else "-"

    def idl_const(self, cur, t, v):
        """IDL spelling of constant `v` of type `t` (enum values by name, deterministically by value parity)."""
        t = self.resolve(t)
        k, x = v
        if t.k == "b": return "true" if x else "false"
        if t.k in "yhil": return str(x)
        if t.k == "E":
            vals = self.enums[(t.file, t.name)]
            if x in vals and x % 3 != 2:
                nm = "%s.V%s%d" % (t.name, t.name, vals.index(x))
                return nm if t.file == cur else "%s.%s" % (t.file, nm)
            return str(x)
        if t.k == "d": return repr(struct.unpack(">d", struct.pack(">Q", x))[0])
        if t.k in "sx": return '"%s"' % x.decode()
        if t.k in "LZ": return "[" + ", ".join(self.idl_const(cur, t.a, i) for i in x) + "]"
        if t.k == "M": return "{" + ", ".join("%s: %s" % (self.idl_const(cur, t.a, a), self.idl_const(cur, t.b, b)) for a, b in x) + "}"
        raise ValueError(t.k)

    def all_methods(self, key):
        """methods of a service including inherited ones (parent first)."""
        svc = self.services[key]
        inherited = self.all_methods(svc["extends"]) if svc["extends"] else []
        return inherited + [(key, m) for m in svc["methods"]]

    def text(self, file):
        out = ["namespace go %s" % file]
        for inc in self.includes.get(file, []): out.append('include "%s.frugal"' % inc)
        for kind, name in self.order[file]:
            if kind == "t": out.append("typedef %s %s" % (self.typedefs[(file, name)].idl(file), name))
            elif kind == "e":
                out.append("enum %s {\n%s\n}" % (name, ",\n".join("  V%s%d = %d" % (name, i, v) for i, v in enumerate(self.enums[(file, name)]))))
            elif kind == "v":
                svc = self.services[(file, name)]
                ext = ""
                if svc["extends"]:
                    ef, en = svc["extends"]
                    ext = " extends " + (en if ef == file else "%s.%s" % (ef, en))
                ms = []
                for m in svc["methods"]:
                    args = ", ".join("%d: %s %s" % (i, t.idl(file), fn) for (i, fn, t) in m["args"])
                    thr = (" throws (%s)" % ", ".join("%d: %s %s" % (i, t.idl(file), fn) for (i, fn, t) in m["throws"])) if m["throws"] else ""
                    ret = "void" if m["ret"] is None else m["ret"].idl(file)
                    ms.append("  %s%s %s(%s)%s" % ("oneway " if m["oneway"] else "", ret, m["name"], args, thr))
                out.append("service %s%s {\n%s\n}" % (name, ext, ",\n".join(ms)))
            elif kind == "c":
                sc = self.scopes[(file, name)]
                pre = ".".join(("{%s}" % x) if k == "var" else x for (k, x) in sc["prefix"])
                out.append("scope %s%s {\n%s\n}" % (name, (" prefix " + pre) if pre else "",
                           "\n".join("  %s: %s" % (op, t.idl(file)) for (op, t) in sc["ops"])))
            else:
                k, fields = self.structs[(file, name)]
                kw = {"s": "struct", "u": "union", "x": "exception"}[k]
                lines = []
                for (i, r, fn, t) in fields:
                    mod = {"r": "required ", "o": "optional ", "d": ""}[r] if k != "u" else ""
                    dv = self.dflt((file, name), i)
                    lines.append("  %d: %s%s %s%s" % (i, mod, t.idl(file), fn, "" if dv is None else " = " + self.idl_const(file, t, dv)))
                out.append("%s %s {\n%s\n}" % (kw, name, ",\n".join(lines)))
        return "\n".join(out) + "\n"


WORDS = ["Alpha", "Beta", "Gamma", "Delta", "Omega", "Sigma", "Kappa", "Theta", "Zeta", "Iota", "Lambda", "Rho"]

def gen_prog(r, pid, services=False, scopes=False, defaults=True, collide=True):
    p = Prog(pid)
    nfiles = r.pick([1, 1, 2, 2, 3])
    files = ["p%di%d" % (pid, i) for i in range(nfiles - 1)] + ["p%dmain" % pid]
    p.files = files
    counter = [0]
    used = {}                       # file -> bare names declared in it (any kind)
    hot = set()                     # bare names declared in more than one file
    def fresh(prefix):
        # NAME COLLISIONS ACROSS FILES: a bare name is relative to its file. About a third of the declarations
        # of a later file reuse a name that ANOTHER file of the program declares — as whatever kind that was
        # (typedef of any width / enum / struct / union / exception / service): bare references inside a file
        # mean that file's declaration, the including file refers to the other one qualified.
        mine = used.setdefault(f, set())
        if collide and prefix != "Sc" and r.chance(35):
            others = sorted({n for ff, ns in used.items() if ff != f for n in ns if not n.startswith("Sc")} - mine)
            if others:
                # prefer names that are (or are about to be) a typedef on one side: the meaning then differs in width / kind
                tds = [n for n in others if any(nn == n for (_, nn) in p.typedefs)]
                n = r.pick(tds) if tds and (prefix != "Td" or r.chance(50)) and r.chance(70) else r.pick(others)
                mine.add(n); hot.add(n); Stat("name-collisions-across-files")
                return n
        counter[0] += 1
        n = "%s%s%d" % (prefix, r.pick(WORDS), counter[0])
        mine.add(n)
        return n
    for fi, f in enumerate(files):
        p.order[f] = []
        p.includes[f] = files[:fi] if f == files[-1] else (files[:fi] if r.chance(50) else [])
        visible = [f] + p.includes[f]
        def named_pool(kinds, local_only=False):
            res = []
            for (ff, n), t in p.typedefs.items():
                if "T" in kinds and ff in visible and (ff == f or base_only(t)) and not (local_only and ff != f): res.append(Ty("T", file=ff, name=n))
            for (ff, n) in p.enums:
                if "E" in kinds and ff in visible: res.append(Ty("E", file=ff, name=n))
            for (ff, n) in p.structs:
                if "S" in kinds and ff in visible: res.append(Ty("S", file=ff, name=n))
            return res
        def base_only(t):
            # cross-file typedefs must resolve without a second named hop in the other file (known finding
            # typedef-second-hop-in-include): only base types and containers of base types
            if t.k in "EST": return False
            if t.k in "LZ": return base_only(t.a)
            if t.k == "M": return base_only(t.a) and base_only(t.b)
            return True
        def key_ty():
            pool = [Ty(BASE[k]) for k in KEYABLE]
            pool += [t for t in named_pool("ET") if p.resolve(t).k in "byhilsE"]
            return r.pick(pool)
        def gen_ty(depth, allow_named="EST"):
            c = r.intn(10)
            if depth <= 0 or c < 4:
                k = r.pick(list(BASE.values()))
                return Ty(k, alias="i8" if (k == "y" and r.chance(40)) else None)   # `i8` is Thrift's other spelling of `byte`
            if c < 6:
                pool = named_pool(allow_named)
                # prefer LOCAL names that another file declares too (bare reference to a colliding name)
                hotp = [t for t in pool if t.file == f and t.name in hot]
                if hotp and r.chance(60): return r.pick(hotp)
                if pool: return r.pick(pool)
                return Ty(r.pick(list(BASE.values())))
            if c < 8: return Ty("L", gen_ty(depth - 1, allow_named))
            if c < 9: return Ty("Z", key_ty())
            return Ty("M", key_ty(), gen_ty(depth - 1, allow_named))
        ndecl = 3 + r.intn(6)
        for _ in range(ndecl):
            c = r.intn(10)
            if c < 2:
                n = fresh("Td")
                enums_here = [Ty("E", file=ff, name=nn) for (ff, nn) in p.enums if ff in visible]
                if enums_here and r.chance(35):
                    p.typedefs[(f, n)] = r.pick(enums_here)   # typedef of an enum: wire type and pointer-ness go through the typedef
                else:
                    p.typedefs[(f, n)] = gen_ty(2, "ET")       # typedef of struct is generated as a Go type alias chain; keep to E/T/base/containers
                p.order[f].append(("t", n))
            elif c < 4:
                n = fresh("En")
                vals, cur = [], (0 if r.chance(50) else r.intn(3))
                for _ in range(1 + r.intn(4)):
                    vals.append(cur); cur += 1 + r.intn(4)
                p.enums[(f, n)] = vals
                p.order[f].append(("e", n))
            else:
                kind = r.pick(["s", "s", "s", "u", "x"])
                n = fresh({"s": "St", "u": "Un", "x": "Ex"}[kind])
                fields, fid = [], 0
                for _ in range((1 if kind == "u" else 0) + r.intn(6)):
                    fid += 1 + r.intn(3)
                    req = "o" if kind == "u" else r.pick(["r", "o", "d", "d"])
                    fields.append((fid, req, "f%s%d" % (r.pick(WORDS).lower(), fid), gen_ty(3)))
                p.structs[(f, n)] = (kind, fields)
                p.order[f].append(("r", n))
                if defaults:
                    dm = {}
                    for (i, req, fn, t) in fields:
                        if r.chance(35):
                            dv = gen_default(r, p, t)
                            if dv is not None: dm[i] = dv
                    if dm: p.defaults[(f, n)] = dm
        def arg_ty():
            return gen_ty(2)
        if services:
            for _ in range(1 + r.intn(2)):
                n = fresh("Sv")
                parents = [k for k in p.services if k[0] in visible]
                ext = r.pick(parents) if parents and r.chance(50) else None
                taken = {m["name"] for (_, m) in (p.all_methods(ext) if ext else [])}
                methods = []
                excs = [Ty("S", file=ff, name=nn) for (ff, nn), (k, _) in p.structs.items() if k == "x" and ff in visible]
                for _ in range(1 + r.intn(4)):
                    mn = "do%s%d" % (r.pick(WORDS), r.intn(1000))
                    if mn in taken: continue
                    taken.add(mn)
                    oneway = r.chance(20)
                    args, aid = [], 0
                    for _ in range(r.intn(4)):
                        aid += 1 + r.intn(2)
                        args.append((aid, "a%s%d" % (r.pick(WORDS).lower(), aid), arg_ty()))
                    ret = None if (oneway or r.chance(25)) else (Ty(r.pick(["s", "x"])) if r.chance(25) else arg_ty())
                    throws, tid = [], 0
                    if not oneway and excs:
                        # each exception type at most once per method: two throws entries of one type make the
                        # emitted Go `switch err.(type)` have duplicate cases (does not compile) — noted in DESIGN §8
                        for et in r.shuffle(excs)[:r.intn(3)]:
                            tid += 1 + r.intn(2)
                            throws.append((tid, "e%d" % tid, et))
                    methods.append({"name": mn, "oneway": oneway, "args": args, "ret": ret, "throws": throws})
                p.services[(f, n)] = {"extends": ext, "methods": methods}
                p.order[f].append(("v", n))
        if scopes:
            payloads = [Ty("S", file=ff, name=nn) for (ff, nn), (k, _) in p.structs.items() if k == "s" and ff in visible]
            if payloads:
                for _ in range(1 + r.intn(2)):
                    n = fresh("Sc")
                    prefix = []
                    for _ in range(r.intn(4)):
                        prefix.append(("var", "v%s" % r.pick(WORDS).lower()) if r.chance(50) else ("lit", r.pick(["foo", "bar", "v1", "Baz"])))
                    seen, pre2 = set(), []
                    for k, x in prefix:          # variable names must be distinct
                        if k == "var" and x in seen: continue
                        seen.add(x); pre2.append((k, x))
                    ops = [("Op%s%d" % (r.pick(WORDS), i), r.pick(payloads)) for i in range(1 + r.intn(3))]
                    p.scopes[(f, n)] = {"prefix": pre2, "ops": ops}
                    p.order[f].append(("c", n))
    return p


# ------------------------------------------------------------------ values (python trees) and renderings
def hexs(b): return b.hex()

def gen_bytes(r, text):
    n = r.pick([0, 0, 1, 2, 3, 5, 9])
    if text: return "".join(r.pick(["a", "b", "Z", "0", " ", "é", "日", "_"]) for _ in range(n)).encode()
    return bytes(r.intn(256) for _ in range(n))

DEFAULT_DOUBLES = [0.0, 1.5, -2.25, 100.0, 0.125]

def gen_default(r, p, t, inner=False):
    """an IDL default value for a field of type t, or None for the types that get none here: struct-likes
    (the Go generator emits struct constants with known defects, see KNOWN_FINDINGS C11), containers with
    binary / enum / struct / nested-container elements."""
    t = p.resolve(t)
    k = t.k
    if k == "b": return ("b", r.chance(50))
    if k in "yhil": return ("n", r.pick([0, 1, 5, -3, 100]))
    if k == "d": return ("g", struct.unpack(">Q", struct.pack(">d", r.pick(DEFAULT_DOUBLES)))[0])
    if k == "s": return ("q", r.pick([b"", b"hi", b"a b", b"Z_0"]))
    if inner: return None
    if k == "E": return ("n", r.pick(p.enums[(t.file, t.name)]))
    if k == "x": return ("q", r.pick([b"", b"ab", b"xyz"]))
    if k in "LZ":
        items = {}
        for _ in range(r.pick([0, 1, 2])):
            v = gen_default(r, p, t.a, True)
            if v is None: return None
            items[dump_val(v)] = v
        return ("[", list(items.values()))
    if k == "M":
        items = {}
        for _ in range(r.pick([0, 1, 2])):
            a, b = gen_default(r, p, t.a, True), gen_default(r, p, t.b, True)
            if a is None or b is None: return None
            items[dump_val(a)] = (a, b)
        return ("{", list(items.values()))
    return None

def _d2b(x): return struct.unpack(">Q", struct.pack(">d", x))[0]
def _b2d(b): return struct.unpack(">d", struct.pack(">Q", b))[0]
def is_nan_bits(b): return (b >> 52) & 0x7ff == 0x7ff and b & ((1 << 52) - 1) != 0

def go_eq(a, b):
    """Go's == between a non-pointer field and its default: float comparison on doubles (NaN equals nothing,
    -0.0 == 0.0), equality on everything else."""
    if a[0] == "g" and b[0] == "g":
        if is_nan_bits(a[1]) or is_nan_bits(b[1]): return False
        return a[1] == b[1] or (a[1] & (2**63 - 1) == 0 and b[1] & (2**63 - 1) == 0)
    return a == b

NAN_BITS = [0x7ff8000000000000, 0x7ff8000000000001, 0xfff8000000000000, 0x7ff0000000000001, 0x7fffffffffffffff]
DOUBLE_EDGES = [0, 0x8000000000000000, 0x7ff0000000000000, 0xfff0000000000000, 1, 0x8000000000000001,
                0x7fefffffffffffff, 0xffefffffffffffff, 0x0010000000000000, 0x3ff0000000000001] + NAN_BITS

def gen_near(r, p, t, dv):
    """a value at the BOUNDARY of the declared default dv of a field of (scalar) type t: what a comparison with
    the default that is not exact equality gets wrong; None for types without such values."""
    t = p.resolve(t)
    k = t.k
    if dv is None or dv[0] not in "bngq": return None
    x = dv[1]
    if k == "b": return ("b", not x)
    if k in "yhil":
        bits = {"y": 8, "h": 16, "i": 32, "l": 64}[k]
        v = r.pick([x + 1, x - 1, x, -x, x + 256, x ^ (1 << (bits - 1))])
        return ("n", max(-2**(bits - 1), min(2**(bits - 1) - 1, v)))
    if k == "E":
        vals = p.enums[(t.file, t.name)]
        if x in vals:
            j = vals.index(x)
            return ("n", vals[max(0, min(len(vals) - 1, j + r.pick([-1, 1])))])
        return ("n", r.pick(vals))
    if k == "d":
        d = _b2d(x)
        c = r.intn(12)
        if c == 0: b = x + 1 if x & (2**63 - 1) != 0x7fefffffffffffff else x
        elif c == 1: b = x - 1 if x & (2**63 - 1) != 0 else x | 1
        elif c == 2: b = _d2b(d + 1e-12)
        elif c == 3: b = _d2b(d - 1e-12)
        elif c == 4: b = _d2b(d * (1 + 2.0**-52))
        elif c == 5: b = _d2b(d * (1 - 2.0**-52))
        elif c == 6: b = _d2b(d + 5e-10)
        elif c == 7: b = x ^ 0x8000000000000000           # -default (for a 0.0 default: -0.0, which Go's != calls equal)
        elif c == 8: b = r.pick(NAN_BITS)
        elif c == 9: b = _d2b(d - 9.9e-10)
        else: b = r.pick(DOUBLE_EDGES)
        return ("g", b)
    if k in "sx":
        if not x: return ("q", r.pick([b"a", b" ", b"0", b"A"]))
        c = r.intn(6)
        if c == 0: return ("q", b"")
        if c == 1: return ("q", x[:-1])
        if c == 2: return ("q", x + r.pick([b"a", b" ", b"0"]))
        if c == 3: return ("q", x.swapcase() if x.swapcase() != x else x + b"A")
        if c == 4:
            j = r.intn(len(x)); return ("q", x[:j] + bytes([x[j] ^ 1]) + x[j + 1:])
        return ("q", x[1:])
    return None

def gen_val(r, p, t, depth=0, near=None):
    t = p.resolve(t)
    k = t.k
    if near is not None and r.chance(45):
        nv = gen_near(r, p, t, near)
        if nv is not None: Stat("near-default-values"); return nv
    if k == "d" and r.chance(25): return ("g", r.pick(DOUBLE_EDGES))
    if k == "b": return ("b", r.chance(50))
    if k in "yhil":
        bits = {"y": 8, "h": 16, "i": 32, "l": 64}[k]
        c = r.intn(8)
        if c == 0: v = 0
        elif c == 1: v = -1
        elif c == 2: v = 2**(bits - 1) - 1
        elif c == 3: v = -2**(bits - 1)
        else: v = r.intn(2**bits) - 2**(bits - 1) if r.chance(30) else r.intn(200) - 100
        return ("n", v)
    if k == "E": return ("n", r.pick(p.enums[(t.file, t.name)]))
    if k == "d":
        c = r.intn(6)
        if c == 0: bits = 0
        elif c == 1: bits = struct.unpack(">Q", struct.pack(">d", 1.5))[0]
        elif c == 2: bits = struct.unpack(">Q", struct.pack(">d", -2.25e10))[0]
        elif c == 3: bits = 0x7ff0000000000000
        else: bits = struct.unpack(">Q", struct.pack(">d", (r.intn(20001) - 10000) / 8.0))[0]
        return ("g", bits)
    if k == "s": return ("q", gen_bytes(r, True))
    if k == "x": return ("q", gen_bytes(r, False))
    if k == "L":
        n = 0 if depth > 3 else r.pick([0, 1, 2, 3])
        return ("[", [gen_val(r, p, t.a, depth + 1) for _ in range(n)])
    if k == "Z":
        n = 0 if depth > 3 else r.pick([0, 1, 2, 3])
        items = {}
        for _ in range(n):
            v = gen_val(r, p, t.a, depth + 1); items[dump_val(v)] = v
        return ("[", list(items.values()))
    if k == "M":
        n = 0 if depth > 3 else r.pick([0, 1, 2, 3])
        items = {}
        for _ in range(n):
            kv = gen_val(r, p, t.a, depth + 1); items[dump_val(kv)] = (kv, gen_val(r, p, t.b, depth + 1))
        return ("{", list(items.values()))
    if k == "S": return gen_struct(r, p, (t.file, t.name), depth + 1)
    raise ValueError(k)

def gen_struct(r, p, key, depth=0):
    kind, fields = p.structs[key]
    fv = {}
    if kind == "u":
        if fields:
            (i, _, _, t) = r.pick(fields)
            fv[i] = gen_set_val(r, p, key, i, t, depth)
    else:
        for (i, req, _, t) in fields:
            if req in "rd" or (depth < 4 and r.chance(60)):
                if depth >= 6 and p.resolve(t).k == "S" and req == "o": continue
                cd = p.cmp_dflt(key, i)
                if cd is not None and r.chance(25):
                    # exactly the default, listed explicitly: the Go field then holds its default and
                    # IsSet<F>() is false — expected on the wire and in dumps as UNSET
                    fv[i] = cd; Stat("dflt:optional-value-equals-default")
                    continue
                fv[i] = gen_val(r, p, t, depth, near=p.dflt(key, i))
                if cd is not None: Stat("dflt:optional-value-differs" if not go_eq(fv[i], cd) else "dflt:optional-value-equals-default")
    return ("(", fv)

def gen_set_val(r, p, key, i, t, depth=0):
    """a value of field i that the emitted IsSet<F>() calls set: different from the compared default.
    (A union field HOLDING its default cannot be carried by the emitted Go type: the union then has no
    field set — KNOWN_FINDINGS C02 go-union-default-field.)"""
    cd = p.cmp_dflt(key, i)
    v = gen_val(r, p, t, depth, near=p.dflt(key, i))
    for _ in range(20):
        if cd is None or not go_eq(v, cd): break
        v = gen_val(r, p, t, depth, near=p.dflt(key, i))
    if cd is not None and go_eq(v, cd): v = flip_scalar(cd)
    return v

def flip_scalar(v):
    k, x = v
    if k == "b": return ("b", not x)
    if k == "n": return ("n", x + 1 if x < 100 else x - 1)
    if k == "g": return ("g", x ^ 0x0010000000000000)
    return ("q", x + b"a")

def is_unset_default(p, key, i, x):
    """field i of struct-like key, listed with value x[i]: does the emitted IsSet<F>() say "unset"?"""
    cd = p.cmp_dflt(key, i)
    return cd is not None and go_eq(x[i], cd)

def omit_defaulted(r, p, t, v, prob=50):
    """(v_stream, v_expect): v_stream = v without some default-requiredness fields that have an IDL default
    (at any depth) — a conforming stream of a peer that did not send them; v_expect = what the reader must
    hold: those fields with their declared defaults."""
    t = p.resolve(t)
    k, x = v
    if t.k in "LZ":
        prs = [omit_defaulted(r, p, t.a, i, prob) for i in x]
        return ("[", [a for a, _ in prs]), ("[", [b for _, b in prs])
    if t.k == "M":
        ks = [omit_defaulted(r, p, t.a, a, prob) for a, _ in x]; vs = [omit_defaulted(r, p, t.b, b, prob) for _, b in x]
        return ("{", [(a[0], b[0]) for a, b in zip(ks, vs)]), ("{", [(a[1], b[1]) for a, b in zip(ks, vs)])
    if t.k == "S":
        key = (t.file, t.name)
        kind, fields = p.structs[key]
        vs, ve = {}, {}
        for (i, req, _, ty) in fields:
            if i not in x: continue
            dv = p.dflt(key, i)
            if req == "d" and kind != "u" and dv is not None and r.chance(prob):
                ve[i] = dv; Stat("dflt:omitted-from-stream")
                continue
            vs[i], ve[i] = omit_defaulted(r, p, ty, x[i], prob)
        return ("(", vs), ("(", ve)
    return v, v

def union_positions(p, t, v, path=()):
    """paths to every union value inside v (of type t) that the emitted Write reaches: through struct fields
    that are listed and through list / set elements and map values."""
    t = p.resolve(t)
    k, x = v
    out = []
    if t.k in "LZ":
        for j, it in enumerate(x): out += union_positions(p, t.a, it, path + (("i", j),))
    elif t.k == "M":
        for j, (a, b) in enumerate(x): out += union_positions(p, t.b, b, path + (("v", j),))
    elif t.k == "S":
        key = (t.file, t.name)
        kind, fields = p.structs[key]
        if kind == "u": out.append((path, key))
        for (i, _, _, ty) in fields:
            if i in x and not is_unset_default(p, key, i, x): out += union_positions(p, ty, x[i], path + (("f", i),))
    return out

def replace_at(v, path, new):
    if not path: return new
    (step, j), rest = path[0], path[1:]
    k, x = v
    if step == "i": return (k, [replace_at(it, rest, new) if n == j else it for n, it in enumerate(x)])
    if step == "v": return (k, [(a, replace_at(b, rest, new)) if n == j else (a, b) for n, (a, b) in enumerate(x)])
    return (k, {i: (replace_at(w, rest, new) if i == j else w) for i, w in x.items()})

def bad_union_value(r, p, key, two=None):
    """a value of union `key` with no field (or, when it has two fields, with two) set."""
    kind, fields = p.structs[key]
    if two is None: two = r.chance(50)
    if two and len(fields) >= 2:
        f1, f2 = r.shuffle(fields)[:2]
        return ("(", {f1[0]: gen_set_val(r, p, key, f1[0], f1[3], 3), f2[0]: gen_set_val(r, p, key, f2[0], f2[3], 3)}), "2"
    return ("(", {}), "0"

def inject_bad_union(r, p, t, v, nested_only=True):
    """v with ONE of its union sub-values replaced by an ill-formed one (0 or 2 fields set); returns
    (value, description) or None when v contains no union (below the top level)."""
    pos = [(pa, key) for (pa, key) in union_positions(p, t, v) if pa or not nested_only]
    if not pos: return None
    pa, key = r.pick(pos)
    bad, cnt = bad_union_value(r, p, key)
    where = "".join({"f": "field", "i": "elem", "v": "mapval"}[s] + "." for (s, _) in pa) or "top."
    return replace_at(v, pa, bad), "union%s@%s" % (cnt, where.rstrip("."))

def dump_val(v):
    """canonical value syntax (also what the runner prints after Read)."""
    k, x = v
    if k == "b": return "t" if x else "f"
    if k == "n": return "n%d;" % x
    if k == "g": return "g%016x" % x
    if k == "q": return "q%s;" % x.hex()
    if k == "[": return "[" + "".join(dump_val(i) for i in x) + "]"
    if k == "{": return "{" + "".join(dump_val(a) + dump_val(b) for a, b in x) + "}"
    if k == "(": return "(" + "".join("%d=%s" % (i, dump_val(x[i])) for i in sorted(x)) + ")"

def canon_dump(p, t, v):
    """dump with sets/maps sorted by rendering (what a reader of the value is expected to hold)."""
    t = p.resolve(t)
    k, x = v
    if t.k == "L": return "[" + "".join(canon_dump(p, t.a, i) for i in x) + "]"
    if t.k == "Z": return "[" + "".join(sorted(canon_dump(p, t.a, i) for i in x)) + "]"
    if t.k == "M": return "{" + "".join(sorted(canon_dump(p, t.a, a) + canon_dump(p, t.b, b) for a, b in x)) + "}"
    if t.k == "S":
        kind, fields = p.sdef((t.file, t.name))
        ft = {i: ty for (i, _, _, ty) in fields}
        key = (t.file, t.name)
        # a non-pointer optional field holding its default is UNSET (DESIGN §7 C02, value domain)
        return "(" + "".join("%d=%s" % (i, canon_dump(p, ft[i], x[i])) for i in sorted(x) if not is_unset_default(p, key, i, x)) + ")"
    if k == "g" and is_nan_bits(x): return "g7ff8000000000001"      # dumps compare NaNs as "is NaN" (JSON carries no payload)
    return dump_val(v)

def tree(p, t, v):
    """the DECLARED encoding of v as a canonical wire tree (spec oracle, written from Thrift's rules)."""
    t = p.resolve(t)
    k, x = v
    if t.k == "b": return "B%d" % (1 if x else 0)
    if t.k in "yhil": return {"y": "Y", "h": "H", "i": "I", "l": "L"}[t.k] + str(x)
    if t.k == "E": return "I%d" % x
    if t.k == "d": return "D%016x" % x
    if t.k in "sx": return "S" + x.hex()
    if t.k == "L": return "LS(%d)[%s]" % (p.wire(t.a), ",".join(tree(p, t.a, i) for i in x))
    if t.k == "Z": return "ST(%d){%s}" % (p.wire(t.a), ",".join(sorted(tree(p, t.a, i) for i in x)))
    if t.k == "M": return "MP(%d,%d){%s}" % (p.wire(t.a), p.wire(t.b), ",".join(sorted(tree(p, t.a, a) + "=" + tree(p, t.b, b) for a, b in x)))
    if t.k == "S":
        kind, fields = p.sdef((t.file, t.name))
        parts = []
        for (i, req, fn, ty) in sorted(fields):
            # optional iff set; set = IsSet<F>(): a non-pointer optional field holding its default is unset
            if i in x and not is_unset_default(p, (t.file, t.name), i, x): parts.append("%d:%s:%d=%s" % (i, fn, p.wire(ty), tree(p, ty, x[i])))
        return "R(%s){%s}" % (t.name, ";".join(parts))

def events(r, p, t, v, extra_unknown=False, drop=None, top=False):
    """a conforming TProtocol event stream for v (compact tokens), fields and entries in random order;
    optionally with unknown fields injected / one field id dropped at the top level."""
    t = p.resolve(t)
    k, x = v
    if t.k == "b": return ["BOOL:%d" % (1 if x else 0)]
    if t.k in "yhil": return ["%s:%d" % ({"y": "BYTE", "h": "I16", "i": "I32", "l": "I64"}[t.k], x)]
    if t.k == "E": return ["I32:%d" % x]
    if t.k == "d": return ["DBL:%016x" % x]
    if t.k == "s": return ["STR:" + x.hex()]
    if t.k == "x": return ["BIN:" + x.hex()]
    if t.k == "L":
        return ["LB:%d:%d" % (p.wire(t.a), len(x))] + [e for i in x for e in events(r, p, t.a, i)] + ["LE"]
    if t.k == "Z":
        return ["TB:%d:%d" % (p.wire(t.a), len(x))] + [e for i in r.shuffle(x) for e in events(r, p, t.a, i)] + ["TE"]
    if t.k == "M":
        return ["MB:%d:%d:%d" % (p.wire(t.a), p.wire(t.b), len(x))] + [e for a, b in r.shuffle(x) for e in events(r, p, t.a, a) + events(r, p, t.b, b)] + ["ME"]
    if t.k == "S":
        kind, fields = p.sdef((t.file, t.name))
        ids = {i for (i, _, _, _) in fields}
        out = ["SB:" + t.name]
        fl = [f for f in fields if f[0] in x and not (top and f[0] == drop)]
        chunks = [["FB:%s:%d:%d" % (fn, p.wire(ty), i)] + events(r, p, ty, x[i]) + ["FE"] for (i, req, fn, ty) in r.shuffle(fl)]
        if extra_unknown:
            for _ in range(1 + r.intn(3)):
                uid = r.intn(60) + 1
                while uid in ids: uid += 1
                ids.add(uid)
                kind_u = r.intn(5)
                body = [["I32:%d" % r.intn(1000)], ["STR:%s" % gen_bytes(r, True).hex()],
                        ["LB:10:2", "I64:1", "I64:2", "LE"],
                        ["SB:Unk", "FB:a:2:1", "BOOL:1", "FE", "FB:b:13:2", "MB:11:8:1", "STR:6b", "I32:5", "ME", "FE", "FS", "SE"],
                        ["MB:8:15:1", "I32:7", "LB:11:1", "STR:", "LE", "ME"]][kind_u]
                tt = [8, 11, 15, 12, 13][kind_u]
                chunks.insert(r.intn(len(chunks) + 1), ["FB:unk%d:%d:%d" % (uid, tt, uid)] + body + ["FE"])
        for c in chunks: out += c
        return out + ["FS", "SE"]


# ------------------------------------------------------------------ build + run
def sh(cmd, cwd=None, timeout=900):
    p = subprocess.run(cmd, cwd=cwd, env=GOENV, capture_output=True, text=True, timeout=timeout)
    return p.returncode, p.stdout, p.stderr

def split_top(s):
    """split a Go parameter list at top-level commas."""
    out, depth, cur = [], 0, ""
    for ch in s:
        if ch in "([{": depth += 1
        if ch in ")]}": depth -= 1
        if ch == "," and depth == 0:
            out.append(cur.strip()); cur = ""
        else: cur += ch
    if cur.strip(): out.append(cur.strip())
    return out


def write_stub(mod, p, key):
    """A handler stub for the emitted F<Service> interface, written INTO the generated package so that the
    emitted type spellings can be copied verbatim. Every method forwards to one callback."""
    f, n = key
    import glob as _g
    src = None
    for path in _g.glob(os.path.join(mod, "gen", f, "*.go")):
        t = open(path).read()
        m = re.search(r"type F%s interface \{\n(.*?)\n\}" % n, t, re.S)
        if m: src = (t, m.group(1)); break
    if src is None: raise RuntimeError("emitted interface F%s not found" % n)
    text, body = src
    methods, embeds = [], []
    for line in body.split("\n"):
        line = line.strip()
        if not line or line.startswith("//"): continue
        mm = re.match(r"(\w+)\((.*)\) \((.*)\)$", line)
        if not mm:
            embeds.append(line); continue
        name, params, results = mm.groups()
        ps = split_top(params)[1:]          # drop fctx
        argnames = [x.split(" ", 1)[0] for x in ps]
        has_r = results.startswith("r ")
        methods.append("func (h *VerifStub%s) %s(%s) (%s) {\n\terr = h.VerifCall(\"%s/%s\", \"%s\", fctx, []interface{}{%s}, %s)\n\treturn\n}\n" % (
            n, name, params, results, f, n, name, ", ".join(argnames), "&r" if has_r else "nil"))
    pkgs = set(re.findall(r"\b(\w+)\.\w", " ".join(methods) + " ".join(embeds))) - {"frugal", "h"}
    imps = "".join('\t"%s/gen/%s"\n' % (MOD, x) for x in sorted(pkgs) if os.path.isdir(os.path.join(mod, "gen", x)))
    emb_fields, emb_init = [], []
    for e in embeds:
        # "FBase" or "pkg.FBase"
        if "." in e: pk, nm = e.split(".", 1); emb_fields.append("\t%s.VerifStub%s" % (pk, nm[1:])); emb_init.append("VerifStub%s: *%s.NewVerifStub%s(call)" % (nm[1:], pk, nm[1:]))
        else: emb_fields.append("\tVerifStub%s" % e[1:]); emb_init.append("VerifStub%s: *NewVerifStub%s(call)" % (e[1:], e[1:]))
    calltype = "func(string, string, frugal.FContext, []interface{}, interface{}) error"
    with open(os.path.join(mod, "gen", f, "verif_stub_%s.go" % n.lower()), "w") as g:
        g.write("package %s\n\nimport (\n\tfrugal \"github.com/Workiva/frugal/lib/go\"\n%s)\n\ntype VerifStub%s struct {\n%s\n\tVerifCall %s\n}\n\nfunc NewVerifStub%s(call %s) *VerifStub%s {\n\treturn &VerifStub%s{%sVerifCall: call}\n}\n\n%s" % (
            f, imps, n, "\n".join(emb_fields), calltype, n, calltype, n, n, "".join(x + ", " for x in emb_init), "\n".join(methods)))


def build_and_run(progs, jobs):
    """progs: [Prog]; jobs: [(op, defsId, goType, sname, payload)] -> list of real outputs (None on build failure)."""
    frugal = os.path.join(BUILD, "frugal")
    scratch = tempfile.mkdtemp(prefix="verif-gen-")
    try:
        mod = os.path.join(scratch, "mod")
        os.makedirs(os.path.join(mod, "gen"))
        ctors, imports = [], set()
        for p in progs:
            idl = os.path.join(scratch, "idl", "p%d" % p.pid)
            os.makedirs(idl)
            for f in p.files: open(os.path.join(idl, f + ".frugal"), "w").write(p.text(f))
            rc, out, err = sh([frugal, "-gen", "go:package_prefix=%s/gen/%s" % (MOD, ("," + p.genopts) if p.genopts else ""), "-r", "-out", os.path.join(mod, "gen"), p.files[-1] + ".frugal"], cwd=idl)
            if rc != 0:
                return None, "frugal failed on program %d: %s\n%s" % (p.pid, (out + err)[-1500:], "\n".join(p.text(f) for f in p.files))
            for (f, n) in p.structs:
                imports.add(f)
                ctors.append('\t"%s/%s": func() thrift.TStruct { return %s.New%s() },' % (f, n, f, n))
            # the emitted args / result structs of service methods (c02: written directly, like any struct-like)
            for (f, n), svc in (p.services.items() if getattr(p, "args_ctors", False) else []):
                imports.add(f)
                for m in svc["methods"]:
                    go = n[:1].upper() + n[1:] + m["name"][:1].upper() + m["name"][1:]
                    ctors.append('\t"%s/%s_%s_args": func() thrift.TStruct { return %s.New%sArgs() },' % (f, n, m["name"], f, go))
                    if not m["oneway"]: ctors.append('\t"%s/%s_%s_result": func() thrift.TStruct { return %s.New%sResult() },' % (f, n, m["name"], f, go))
        svc_entries, scope_entries = [], []
        for p in progs:
            for (f, n), svc in p.services.items():
                imports.add(f)
                write_stub(mod, p, (f, n))
                svc_entries.append('\t"%s/%s": {NewClient: func(p *frugal.FServiceProvider, mw ...frugal.ServiceMiddleware) interface{} { return %s.NewF%sClient(p, mw...) }, NewProcessor: func(call VerifCallFn, mw ...frugal.ServiceMiddleware) frugal.FProcessor { return %s.NewF%sProcessor(%s.NewVerifStub%s(call), mw...) }},' % (f, n, f, n, f, n, f, n))
            for (f, n) in p.scopes:
                imports.add(f)
                scope_entries.append('\t"%s/%s": {NewPublisher: func(p *frugal.FScopeProvider, mw ...frugal.ServiceMiddleware) interface{} { return %s.New%sPublisher(p, mw...) }, NewSubscriber: func(p *frugal.FScopeProvider, mw ...frugal.ServiceMiddleware) interface{} { return %s.New%sSubscriber(p, mw...) }},' % (f, n, f, n, f, n))
        with open(os.path.join(mod, "registry_gen.go"), "w") as g:
            g.write("package main\n\nimport (\n\tfrugal \"github.com/Workiva/frugal/lib/go\"\n\t\"github.com/apache/thrift/lib/go/thrift\"\n%s)\n\nvar _ = frugal.NewFContext\n\nvar ctors = map[string]func() thrift.TStruct{\n%s\n}\n\nvar services = map[string]svcEntry{\n%s\n}\n\nvar scopes = map[string]scopeEntry{\n%s\n}\n" % (
                "".join('\t"%s/gen/%s"\n' % (MOD, f) for f in sorted(imports)), "\n".join(ctors), "\n".join(svc_entries), "\n".join(scope_entries)))
        for f in os.listdir(os.path.join(VERIF, "harness", "gen", "runner")):
            if f.endswith(".go"): shutil.copy(os.path.join(VERIF, "harness", "gen", "runner", f), mod)
        open(os.path.join(mod, "go.mod"), "w").write("module %s\n\ngo 1.20\n\nrequire (\n\tgithub.com/Workiva/frugal/lib/go v0.0.0\n\tgithub.com/nats-io/nats-server/v2 v2.10.11\n\tgithub.com/nats-io/nats.go v1.33.1\n)\n\nreplace github.com/Workiva/frugal/lib/go => %s/lib/go\n" % (MOD, REPO))
        shutil.copy(os.path.join(REPO, "lib", "go", "go.sum"), os.path.join(mod, "go.sum"))
        rc, out, err = sh(["go", "build", "-o", "runner", "."], cwd=mod)
        if rc != 0:
            return None, "generated Go does not build: " + (out + err)[-3000:]
        defs_path = os.path.join(scratch, "defs.txt")
        with open(defs_path, "w") as g:
            for p in progs: g.write("p%d\t%s\n" % (p.pid, p.defs_code()))
        inp = "".join("%d\t%s\n" % (i, "\t".join(j)) for i, j in enumerate(jobs))
        pr = subprocess.run([os.path.join(mod, "runner"), defs_path], input=inp, capture_output=True, text=True, timeout=900)
        res = [None] * len(jobs)
        for line in pr.stdout.split("\n"):
            if "\t" in line:
                i, _, o = line.partition("\t"); res[int(i)] = o
        if pr.returncode != 0:
            return res, "runner exited %d: %s" % (pr.returncode, pr.stderr[-1500:])
        return res, None
    finally:
        shutil.rmtree(scratch, ignore_errors=True)


